"""C09 — a crash at any instant leaves a repository that opens and is consistent.

Model: lean/DulwichModel/Model/Crash.lean (abstract file system, dulwich's reading of it, `Recoverable`, the
executable `checkProgram`); soundness lemmas: Lemmas/Crash.lean; theorems: Props/C09.lean
(`crashSafe_of_check`, pattern lemmas with negative twins, F8 counterexamples and fixed orders).

Tie:
  * translate(): runs every fixed scenario's REAL operation once on a scratch repository under a system-call
    recorder (harness/sched.py), canonicalises the mutating calls (object ids -> o<n>, temp/lock names ->
    tmp<n>, pack names -> p<n>, refs -> r<n>; the `shallow` file is part of the state) and emits them as Lean terms (Gen/Traces.lean) with one
    `checkProgram … = true := by decide +kernel` obligation per scenario (Gen/TracesChecked.lean, imported by
    Props/C09.lean) — `= false` plus a `decide`d counterexample prefix where the REAL crash states of a
    scenario violate the property (none on the current tree: the two F8 windows were fixed by /repo bb5afda;
    their classes stay recognised so that a regression is named precisely).  Reordering two renames in
    dulwich changes the generated term and breaks an obligation.
  * recovery: what comes AFTER the crash — on every crash state the operation is run again and other writers are
    run (recovery_runs, two_process_runs); the re-runs of the loose-object scenarios are also recorded into Gen/
    and discharged by `retryOK` (Props.C09.retry_after_crash_safe); a `skip <o> <evidence>` call records every
    decision not to write an object, and the checker accepts only the object's final path (or a pack index) as
    evidence — never `<o>.lock`; translate() also checks the AST of DiskObjectStore.add_object for a handler that
    swallows FileLocked around the GitFile write.
  * run(): for every scenario (the fixed ones + seeded random variants) EVERY prefix of the recorded program
    is materialised on disk (replayed onto a copy of the start state; the replay is cross-checked against
    the live state at every recorded boundary and right after every open()) and the property's own words
    are checked on it with the real code (direct oracle); the model's `run (take j prog)`, its reading of
    that state (visible objects, ref map) and its `Recoverable` verdict are compared with the real listing,
    the real `Repo` and the oracle, prefix by prefix (driver op `c09.trace`).
"""
from __future__ import annotations

import contextlib
import hashlib
import io
import json
import os
import re
import shutil
import struct
import sys
import zlib
from pathlib import Path

from .. import core, sched
from ..translate import TranslateError

MOD = "c09"
HEX40 = re.compile(rb"^[0-9a-f]{40}$")
ID = b"Verif <verif@example.com>"
T0 = 1_000_000_000


# ------------------------------------------------------------------------------------------------
# hermetic environment for the real code (no ~/.gitconfig, fixed identity)

@contextlib.contextmanager
def hermetic(home: Path):
    home.mkdir(parents=True, exist_ok=True)
    keys = ["HOME", "XDG_CONFIG_HOME", "GIT_CONFIG_NOSYSTEM", "GIT_CONFIG_GLOBAL", "GIT_AUTO_GC", "EMAIL",
            "GIT_AUTHOR_NAME", "GIT_AUTHOR_EMAIL", "GIT_COMMITTER_NAME", "GIT_COMMITTER_EMAIL", "GIT_DIR",
            "GIT_WORK_TREE", "GIT_INDEX_FILE", "GIT_OBJECT_DIRECTORY"]
    old = {k: os.environ.get(k) for k in keys}
    os.environ.update({"HOME": str(home), "XDG_CONFIG_HOME": str(home / "xdg"), "GIT_CONFIG_NOSYSTEM": "1",
                       "GIT_CONFIG_GLOBAL": str(home / "gitconfig"), "GIT_AUTO_GC": "0"})
    for k in keys[5:]:
        os.environ.pop(k, None)
    try:
        yield
    finally:
        for k, v in old.items():
            if v is None:
                os.environ.pop(k, None)
            else:
                os.environ[k] = v


# ------------------------------------------------------------------------------------------------
# independent readers of git's on-disk formats (hashlib/zlib/struct only — no dulwich code), used to
# canonicalise file contents into the model's `Content` and by the oracle to re-hash objects

def parse_loose(data: bytes):
    """-> (hex id, type, body) of a well-formed loose object file, else None."""
    try:
        d = zlib.decompressobj()
        raw = d.decompress(data)
        if not d.eof or d.unused_data:
            return None
    except zlib.error:
        return None
    m = re.match(rb"^(blob|tree|commit|tag) (\d+)\x00", raw)
    if not m or len(raw) - m.end() != int(m.group(2)):
        return None
    return hashlib.sha1(raw).hexdigest(), m.group(1).decode(), raw[m.end():]


def parse_pack(data: bytes):
    """-> hex trailer checksum of a complete pack file, else None."""
    if len(data) < 32 or data[:4] != b"PACK" or hashlib.sha1(data[:-20]).digest() != data[-20:]:
        return None
    return data[-20:].hex()


def parse_idx(data: bytes):
    """-> (pack checksum hex, [object hex ids]) of a complete v2 (or v1) pack index, else None."""
    if len(data) < 4 * 256 + 40 or hashlib.sha1(data[:-20]).digest() != data[-20:]:
        return None
    if data[:4] == b"\xfftOc":
        if struct.unpack(">L", data[4:8])[0] != 2:
            return None
        fan = struct.unpack(">256L", data[8:8 + 1024])
        n = fan[255]
        off = 8 + 1024
        if len(data) < off + n * 28 + 40:
            return None
        names = [data[off + 20 * i: off + 20 * i + 20].hex() for i in range(n)]
    else:
        fan = struct.unpack(">256L", data[:1024])
        n = fan[255]
        if len(data) != 1024 + n * 24 + 40:
            return None
        names = [data[1024 + 24 * i + 4: 1024 + 24 * i + 24].hex() for i in range(n)]
    return data[-40:-20].hex(), names


def parse_ref(data: bytes):
    """-> ('sha', hex) | ('sym', name) for a complete loose ref file, else None."""
    if data.startswith(b"ref: ") and data.endswith(b"\n") and len(data) > 6 and b"\n" not in data[:-1]:
        return ("sym", data[5:-1].decode("utf-8", "replace"))
    if len(data) == 41 and data.endswith(b"\n") and HEX40.match(data[:40]):
        return ("sha", data[:40].decode())
    return None


def parse_packed_refs(data: bytes):
    """-> sorted [(name, hex)] of a complete packed-refs file, else None."""
    if not data or not data.endswith(b"\n"):
        return None
    out = {}
    lines = data.split(b"\n")[:-1]
    for i, ln in enumerate(lines):
        if ln.startswith(b"#"):
            if i != 0:
                return None
            continue
        if ln.startswith(b"^"):
            if not HEX40.match(ln[1:]) or not out:
                return None
            continue
        parts = ln.split(b" ")
        if len(parts) != 2 or not HEX40.match(parts[0]) or not parts[1].startswith(b"refs/"):
            return None
        out[parts[1].decode("utf-8", "replace")] = parts[0].decode()
    if not lines or not (lines[0].startswith(b"#") or out):
        return None
    return sorted(out.items())


def parse_shallow(data: bytes):
    """-> sorted [hex] of a complete `shallow` file, else None."""
    if data and not data.endswith(b"\n"):
        return None
    out = []
    for ln in data.split(b"\n")[:-1] if data else []:
        if not HEX40.match(ln):
            return None
        out.append(ln.decode())
    return sorted(out)


def object_edges(typ: str, body: bytes, split=False):
    """Object ids a commit/tree/tag refers to (gitlinks excluded), parsed independently of dulwich.
    split=True: (non-parent references, commit parents)."""
    out, parents = [], []
    if typ == "commit":
        for ln in body.split(b"\n\n", 1)[0].split(b"\n"):
            if ln.startswith(b"tree "):
                out.append(ln.split(b" ", 1)[1].decode())
            elif ln.startswith(b"parent "):
                parents.append(ln.split(b" ", 1)[1].decode())
    elif typ == "tag":
        for ln in body.split(b"\n\n", 1)[0].split(b"\n"):
            if ln.startswith(b"object "):
                out.append(ln.split(b" ", 1)[1].decode())
    elif typ == "tree":
        i = 0
        while i < len(body):
            sp = body.index(b" ", i)
            nul = body.index(b"\x00", sp)
            mode = int(body[i:sp], 8)
            if mode != 0o160000:
                out.append(body[nul + 1: nul + 21].hex())
            i = nul + 21
    return (out, parents) if split else out + parents


# ------------------------------------------------------------------------------------------------
# path and content classification (the canonicalisation the model's `Path`/`Content` are built from)

def control_dir(root: str) -> str:
    g = os.path.join(root, ".git")
    return g if os.path.isdir(g) else root


def is_temp_name(rel: str) -> bool:
    b = rel.rsplit("/", 1)[-1]
    return b.endswith(".lock") or b.startswith("tmp") or b.endswith(".tmp")


def classify_path(rel: str):
    """rel: path inside the control directory ('/'-separated)."""
    if is_temp_name(rel):
        return ("tmp", rel)
    m = re.match(r"^objects/([0-9a-f]{2})/([0-9a-f]{38})$", rel)
    if m:
        return ("loose", m.group(1) + m.group(2))
    m = re.match(r"^objects/pack/(.+)\.(pack|idx)$", rel)
    if m:
        return (m.group(2), m.group(1))
    if rel == "HEAD" or (rel.startswith("refs/") and not rel.endswith("/")):
        return ("ref", rel)
    if rel == "packed-refs":
        return ("packedRefs",)
    if rel == "shallow":
        return ("shallow",)
    if rel in ("index", "config"):
        return ("plain", rel)
    return ("other", rel)


def classify_content(kind: str, data: bytes):
    if kind == "loose" or kind == "tmp":
        p = parse_loose(data)
        if p is not None:
            return ("obj", p[0])
        if kind == "loose":
            return ("partial",)
    if kind in ("pack", "tmp"):
        p = parse_pack(data)
        if p is not None:
            return ("packData", p)
        if kind == "pack":
            return ("partial",)
    if kind in ("idx", "tmp"):
        p = parse_idx(data)
        if p is not None:
            return ("idxData", p[0], tuple(p[1]))
        if kind == "idx":
            return ("partial",)
    if kind in ("ref", "tmp"):
        p = parse_ref(data)
        if p is not None:
            return ("refc",) + p
        if kind == "ref":
            return ("partial",)
    if kind in ("packedRefs", "tmp"):
        p = parse_packed_refs(data)
        if p is not None:
            return ("packed", tuple(p))
        if kind == "packedRefs":
            return ("partial",)
    if kind == "shallow" or (kind == "tmp" and data):
        p = parse_shallow(data)
        if p is not None:
            return ("shallowSet", tuple(p))
        if kind == "shallow":
            return ("partial",)
    if kind == "other":
        return ("blob0",)
    if kind == "tmp" and not data:
        return ("partial",)
    return ("blob", hashlib.sha1(data).hexdigest())


def content_of(rel: str, data: bytes):
    """Canonical content of the file at `rel`.  A lock file `<name>.lock` is read as what it is about to become
    (a one-line `shallow.lock` and a ref lock hold the same bytes); other temp files by trial."""
    k = classify_path(rel)
    if k[0] == "tmp" and rel.endswith(".lock"):
        bk = classify_path(rel[:-5])[0]
        if bk != "tmp":
            if not data:
                return ("partial",)
            return classify_content(bk, data)
    return classify_content(k[0], data)


def scan(root: str):
    """-> ({rel: bytes}, {rel dirs}) of the control directory."""
    cd = control_dir(root)
    files, dirs = {}, set()
    for dp, dn, fn in os.walk(cd):
        relb = os.path.relpath(dp, cd).replace(os.sep, "/")
        relb = "" if relb == "." else relb + "/"
        for d in dn:
            dirs.add(relb + d)
        for f in fn:
            p = os.path.join(dp, f)
            if os.path.islink(p):
                continue
            with open(p, "rb") as fh:
                files[relb + f] = fh.read()
    return files, dirs


# ------------------------------------------------------------------------------------------------
# recorder with crash snapshots

class SnapRecorder(sched.Recorder):
    """Recorder that (a) translates every completed mutating call into a model call, (b) derives content
    writes from scan differences (buffered writes are not system calls the recorder sees; what is on disk
    at a boundary is what a process crash there leaves), (c) snapshots the repository at every boundary
    between two calls and right after every open() (created/truncated, nothing written yet)."""

    def __init__(self, root: str, start_files: dict):
        super().__init__(root, on_boundary=None)
        self.rootp = os.path.realpath(root)
        cd = control_dir(self.rootp)
        self.prefix = "" if cd == self.rootp else os.path.relpath(cd, self.rootp).replace(os.sep, "/") + "/"
        self.E = dict(start_files)          # expected files after the calls emitted so far
        self.calls = []                     # model calls: ("write", rel, data) | ("rename", a, b) | ("unlink", a) | ("mkdir", a) | ("rmdir", a)
        self.snaps = []                     # live boundary states: (j = number of model calls done, {rel: bytes}, label, synced)
        self.synced = {}                    # rel -> bytes last fsynced (follows renames)
        self.fsyncs = []                    # (number of model calls done, rel): fsync marks for the power-loss variant
        self.dirty = True
        self.raw = []                       # raw event log (name, paths, outcome)
        self.pending_skip = None            # a skip decided on a failed O_EXCL open, confirmed when the operation goes on

    # -- helpers
    def _in(self, p):
        """path relative to root -> path relative to the control dir, or None if outside it."""
        if p is None:
            return None
        p = p.replace(os.sep, "/")
        if self.prefix == "":
            return None if p == "." else p
        return p[len(self.prefix):] if p.startswith(self.prefix) else None

    def _diff(self):
        files, _ = scan(self.rootp)
        for rel in sorted(files):
            if self.E.get(rel) != files[rel]:
                self.calls.append(("write", rel, files[rel]))
                self.E[rel] = files[rel]
                self.dirty = True
        gone = [r for r in self.E if r not in files]
        if gone:
            raise TranslateError(f"files vanished without a recorded call: {gone[:3]} (recorder incomplete)")

    def _snap(self, label):
        self._diff()
        if not self.dirty:
            return
        self.dirty = False
        self.snaps.append((len(self.calls), dict(self.E), label, dict(self.synced)))

    def _confirm_skip(self):
        if self.pending_skip is not None:
            self.calls.append(self.pending_skip)
            self.pending_skip = None

    def _handle(self, who, name, paths, do):
        if self._busy:
            return do()
        self._confirm_skip()                # the operation went on after a lock it could not take
        self._busy = True
        try:
            self._snap(f"before {name} {' '.join(map(str, paths))}")
        finally:
            self._busy = False
        try:
            res = do()
        except BaseException as e:
            self.events.append((who, name, paths, type(e).__name__))
            self.raw.append((name, paths, type(e).__name__))
            rel = self._in(paths[0]) if paths else None
            if name == "open-x" and isinstance(e, FileExistsError) and rel is not None \
                    and re.match(r"^objects/[0-9a-f]{2}/[0-9a-f]{38}\.lock$", rel):
                # the object's lock is held / stale.  If the operation carries on WITHOUT writing the object, it has
                # taken the lock file for evidence that the object is there: recorded as `skip <o> <lock>`
                self.pending_skip = ("skip", rel[:-5], rel)
            raise
        self.events.append((who, name, paths, "ok"))
        self.raw.append((name, paths, "ok"))
        self._busy = True
        try:
            self._done(name, paths)
        finally:
            self._busy = False
        return res

    def _done(self, name, paths):
        rel = [self._in(p) for p in paths]
        if name in ("rename", "replace"):
            a, b = rel
            if a is None and b is None:
                return
            if a is None or b is None:
                raise TranslateError(f"rename across the control directory boundary: {paths}")
            self._pending_check(a)
            self.calls.append(("rename", a, b))
            self.E[b] = self.E.pop(a)
            if a in self.synced:
                self.synced[b] = self.synced.pop(a)
            else:
                self.synced.pop(b, None)
            self.dirty = True
        elif name in ("remove", "unlink"):
            if rel[0] is None:
                return
            self.calls.append(("unlink", rel[0]))
            self.E.pop(rel[0], None)
            self.synced.pop(rel[0], None)
            self.dirty = True
        elif name == "mkdir":
            if rel[0] is not None:
                self.calls.append(("mkdir", rel[0]))
                self.dirty = True
        elif name == "rmdir":
            if rel[0] is not None:
                self.calls.append(("rmdir", rel[0]))
                self.dirty = True
        elif name in ("open-w", "open-x"):
            if rel[0] is not None:
                self._snap(f"after {name} {rel[0]}")
        elif name == "fsync":
            if rel[0] is not None:
                self._diff()
                self.synced[rel[0]] = self.E.get(rel[0])
                self.fsyncs.append((len(self.calls), rel[0]))
        elif name == "utime":
            if rel[0] is not None and classify_path(rel[0])[0] == "loose":
                # add_object: the final path is there (and freshened): the object is not written again
                self.calls.append(("skip", rel[0], rel[0]))
        elif name in ("truncate",):
            self.dirty = True
        elif name in ("link", "symlink", "removedirs"):
            if any(r is not None for r in rel):
                raise TranslateError(f"unsupported call in the control directory: {name} {paths}")
        # chmod, utime, makedirs (its mkdir calls are recorded individually): no effect on the model

    def _pending_check(self, a):
        # the bytes being renamed are the bytes on disk now (the writer has closed the file)
        pass

    def finish(self):
        self._confirm_skip()
        self._busy = True
        try:
            self._snap("after the operation returned")
        finally:
            self._busy = False


# ------------------------------------------------------------------------------------------------
# scenarios: start state (built un-recorded), one REAL repository-changing operation, its intent

def _repo_mod():
    import dulwich.repo as R
    return R


def commit_files(r, files: dict, msg: bytes, ts: int):
    for n, c in files.items():
        p = os.path.join(r.path, n)
        os.makedirs(os.path.dirname(p), exist_ok=True)
        with open(p, "wb") as f:
            f.write(c)
    wt = r.get_worktree()
    wt.stage(sorted(files))
    return wt.commit(message=msg, committer=ID, author=ID, commit_timestamp=ts, commit_timezone=0,
                     author_timestamp=ts, author_timezone=0)


def make_thin_pack(base_id: bytes, base_data: bytes, new_objs: list, delta_target: bytes) -> bytes:
    """A well-formed thin pack: `new_objs` (ShaFile) whole, plus one blob stored as REF_DELTA against
    `base_id` (not in the pack)."""
    from dulwich.pack import create_delta

    def hdr(t, n):
        c = (t << 4) | (n & 0x0F)
        n >>= 4
        out = bytearray()
        while n:
            out.append(c | 0x80)
            c = n & 0x7F
            n >>= 7
        out.append(c)
        return bytes(out)
    body = bytearray()
    for o in new_objs:
        raw = o.as_raw_string()
        body += hdr(o.type_num, len(raw)) + zlib.compress(raw)
    if base_id is not None:
        d = create_delta(base_data, delta_target)
        if not isinstance(d, (bytes, bytearray)):
            d = b"".join(d)
        body += hdr(7, len(d)) + bytes.fromhex(base_id.decode()) + zlib.compress(bytes(d))
    data = b"PACK" + struct.pack(">LL", 2, len(new_objs) + (base_id is not None)) + bytes(body)
    return data + hashlib.sha1(data).digest()


class Scn:
    """One scenario: `build(path) -> state dict` creates the start state (not recorded); `op(state)`
    runs ONE real repository-changing operation (recorded) and returns the intent:
      {"refs": {name: new hex | None | ("sym", target)}, "plain": {names allowed to change}}"""

    def __init__(self, name, kind, build, op, bare=False):
        self.name, self.kind, self.build, self.op, self.bare = name, kind, build, op, bare


def _init(path, bare=False, fsync=False):
    R = _repo_mod()
    os.makedirs(path, exist_ok=True)
    r = R.Repo.init_bare(path, default_branch=b"main") if bare else R.Repo.init(path, default_branch=b"main")
    if fsync:
        c = r.get_config()
        c.set((b"core",), b"fsyncObjectFiles", b"true")
        c.write_to_path()
        r.close()
        r = R.Repo(path)
    return r


def _base(path, shape="loose", fsync=False, extra_refs=True):
    """Start states.  loose: two commits, loose objects, loose refs (main, x, tag v1 annotated).
    packed: same, objects in one pack, refs in packed-refs.  mixed: first commit packed + refs packed, then a
    second commit loose (so `main` is both loose (new) and packed (old)) ; `x` only packed ; `y` only loose."""
    from dulwich.objects import Tag
    r = _init(path, fsync=fsync)
    c1 = commit_files(r, {"a.txt": b"alpha\n" * 20, "d/b.txt": b"beta\n"}, b"one", T0)
    st = {"r": r, "c1": c1}
    if extra_refs:
        r.refs[b"refs/heads/x"] = c1
        t = Tag()
        t.name, t.object, t.tagger, t.tag_time, t.tag_timezone, t.message = b"v1", (type(r[c1]), c1), ID, T0, 0, b"tag one\n"
        r.object_store.add_object(t)
        r.refs[b"refs/tags/v1"] = t.id
        st["t1"] = t.id
    if shape in ("packed", "mixed"):
        r.object_store.pack_loose_objects()
        r.refs.pack_refs(all=True)
    if shape in ("loose", "mixed"):
        c2 = commit_files(r, {"a.txt": b"alpha\n" * 20 + b"gamma\n"}, b"two", T0 + 1)
        st["c2"] = c2
        if extra_refs:
            r.refs[b"refs/heads/y"] = c2
    if shape == "packed":
        st["c2"] = c1
    r.close()
    st["r"] = _repo_mod().Repo(path)
    return st


def _new_blob(data=b"fresh blob\n"):
    from dulwich.objects import Blob
    return Blob.from_string(data)


def _sc_add_object(shape, fsync=False):
    def build(p):
        return _base(p, shape, fsync=fsync)

    def op(st):
        st["r"].object_store.add_object(_new_blob())
        return {"refs": {}, "plain": set()}
    return build, op


def _sc_add_objects(shape, fsync=False):
    def build(p):
        return _base(p, shape, fsync=fsync)

    def op(st):
        from dulwich.objects import Tree
        b = _new_blob(b"packed fresh\n")
        t = Tree()
        t.add(b"n.txt", 0o100644, b.id)
        st["r"].object_store.add_objects([(b, None), (t, None)])
        return {"refs": {}, "plain": set()}
    return build, op


def _sc_add_objects_over_orphan(kind):
    """The start state holds what an EARLIER crash of the same operation left: the pack renamed in, its index
    not yet written (an orphaned .pack) — with the same name (same object set) but different bytes (object
    order / compression differ from process to process).  Re-running the operation must stay safe."""
    def objs():
        from dulwich.objects import Tree
        b = _new_blob(b"packed fresh\n")
        t = Tree()
        t.add(b"n.txt", 0o100644, b.id)
        return b, t

    def build(p):
        from dulwich.pack import iter_sha1
        st = _base(p, "mixed")
        r = st["r"]
        if kind == "add_objects":
            b, t = objs()
            ids = sorted(bytes.fromhex(o.id.decode()) for o in (b, t))
            data = make_thin_pack(None, b"", [t, b], b"")
        else:   # repack: every object of the store, stored in sorted order with default compression
            allo = sorted(r.object_store, reverse=True)
            ids = sorted(bytes.fromhex(o.decode()) for o in allo)
            data = make_thin_pack(None, b"", [r[o] for o in allo], b"")
        name = "pack-" + iter_sha1(iter(ids)).decode() + ".pack"
        with open(os.path.join(r.object_store.pack_dir, name), "wb") as f:
            f.write(data)
        st["orphan"] = name
        return st

    def op(st):
        if kind == "add_objects":
            b, t = objs()
            st["r"].object_store.add_objects([(b, None), (t, None)])
        else:
            st["r"].object_store.repack()
        return {"refs": {}, "plain": set()}
    return build, op


def _sc_stage(shape):
    def build(p):
        st = _base(p, shape)
        with open(os.path.join(p, "a.txt"), "wb") as f:
            f.write(b"staged content\n")
        return st

    def op(st):
        st["r"].get_worktree().stage(["a.txt"])
        return {"refs": {}, "plain": {"index"}}
    return build, op


def _sc_commit(shape, initial=False, fsync=False):
    def build(p):
        if initial:
            r = _init(p)
            st = {"r": r}
        else:
            st = _base(p, shape, fsync=fsync)
        with open(os.path.join(p, "a.txt"), "wb") as f:
            f.write(b"to be committed\n")
        st["r"].get_worktree().stage(["a.txt"])
        return st

    def op(st):
        c = st["r"].get_worktree().commit(message=b"three", committer=ID, author=ID, commit_timestamp=T0 + 5,
                                          commit_timezone=0, author_timestamp=T0 + 5, author_timezone=0)
        return {"refs": {"refs/heads/main": c.decode()}, "plain": set()}
    return build, op


def _sc_set_ref(shape, name, which):
    def build(p):
        return _base(p, shape)

    def op(st):
        st["r"].refs[name.encode()] = st[which]
        return {"refs": {name: st[which].decode()}, "plain": set()}
    return build, op


def _sc_cas_ref(shape, name, old, new):
    def build(p):
        return _base(p, shape)

    def op(st):
        ok = st["r"].refs.set_if_equals(name.encode(), st[old], st[new], message=b"cas")
        assert ok
        return {"refs": {name: st[new].decode()}, "plain": set()}
    return build, op


def _sc_del_ref(shape, name, same_value=False):
    def build(p):
        st = _base(p, shape)
        if same_value:
            # loose copy with the SAME value as the packed one (git leaves this after update-ref to the same id)
            r = st["r"]
            v = r.refs.get_packed_refs()[name.encode()]
            fn = os.path.join(r.controldir(), name)
            os.makedirs(os.path.dirname(fn), exist_ok=True)
            with open(fn, "wb") as f:
                f.write(v + b"\n")
        return st

    def op(st):
        del st["r"].refs[name.encode()]
        return {"refs": {name: None}, "plain": set()}
    return build, op


def _sc_pack_refs(shape, all_):
    def build(p):
        return _base(p, shape)

    def op(st):
        st["r"].refs.pack_refs(all=all_)
        return {"refs": {}, "plain": set()}
    return build, op


def _sc_symref():
    def build(p):
        return _base(p, "loose")

    def op(st):
        st["r"].refs.set_symbolic_ref(b"HEAD", b"refs/heads/x")
        return {"refs": {"HEAD": ("sym", "refs/heads/x")}, "plain": set()}
    return build, op


def _sc_tag():
    def build(p):
        return _base(p, "loose")

    def op(st):
        from dulwich import porcelain
        porcelain.tag_create(st["r"], b"v2", author=ID, message=b"tag two\n", annotated=True, objectish=st["c2"],
                             tag_time=T0 + 7, tag_timezone=0)
        return {"refs": {"refs/tags/v2": st["r"].refs.read_ref(b"refs/tags/v2").decode()}, "plain": set()}
    return build, op


def _sc_thin_pack(shape, via_handler, fsync=False):
    """receive-pack: a thin pack (delta against a blob the receiver has) followed by the ref update —
    through the real ReceivePackHandler, or add_thin_pack + set_if_equals directly."""
    def build(p):
        from dulwich.objects import Blob, Commit, Tree
        st = _base(p, shape, fsync=fsync)
        r = st["r"]
        old = r[st["c2"]]
        base_blob = r[r[old.tree][b"a.txt"][1]]
        nb = Blob.from_string(base_blob.data + b"received line\n")
        tr = r[old.tree]
        t = Tree()
        for e in tr.items():
            t.add(e.path, e.mode, nb.id if e.path == b"a.txt" else e.sha)
        c = Commit()
        c.tree, c.parents, c.author, c.committer = t.id, [old.id], ID, ID
        c.author_time = c.commit_time = T0 + 9
        c.author_timezone = c.commit_timezone = 0
        c.message = b"received\n"
        st["pack"] = make_thin_pack(base_blob.id, base_blob.data, [c, t], nb.data)
        st["c3"] = c.id
        return st

    def op(st):
        r = st["r"]
        if via_handler:
            from dulwich.protocol import Protocol, pkt_line
            from dulwich.server import DictBackend, ReceivePackHandler
            req = pkt_line(st["c2"] + b" " + st["c3"] + b" refs/heads/main\x00report-status ofs-delta") + b"0000" + st["pack"]
            inp, out = io.BytesIO(req), io.BytesIO()
            proto = Protocol(inp.read, out.write)
            h = ReceivePackHandler(DictBackend({"/": r}), ["/"], proto)
            h.handle()
            if b"unpack ok" not in out.getvalue() or b"ok refs/heads/main" not in out.getvalue():
                raise RuntimeError(f"receive-pack refused: {out.getvalue()!r}")
        else:
            f = io.BytesIO(st["pack"])
            r.object_store.add_thin_pack(f.read, None)
            assert r.refs.set_if_equals(b"refs/heads/main", st["c2"], st["c3"])
        return {"refs": {"refs/heads/main": st["c3"].decode()}, "plain": set()}
    return build, op


def _sc_fetch():
    def build(p):
        st = _base(os.path.join(os.path.dirname(p), os.path.basename(p) + "-src"), "loose")
        st["src"] = st["r"]
        st["r"] = _init(p)
        return st

    def op(st):
        from dulwich.client import LocalGitClient
        res = LocalGitClient().fetch(st["src"].path, st["r"])
        st["r"].refs.set_if_equals(b"refs/remotes/origin/main", None, res.refs[b"refs/heads/main"])
        return {"refs": {"refs/remotes/origin/main": res.refs[b"refs/heads/main"].decode()}, "plain": set()}
    return build, op


class _Served:
    """The source repository served over a smart transport by dulwich's own servers (in a thread of this process;
    the recorder only watches the fetching repository, and only the main thread)."""

    def __init__(self, kind, src):
        import threading
        self.kind = kind
        if kind == "tcp":
            from dulwich.server import DictBackend, TCPGitServer
            self.srv = TCPGitServer(DictBackend({b"/": src}), "127.0.0.1", 0)
        else:
            from wsgiref.simple_server import make_server
            from dulwich.server import DictBackend
            from dulwich.web import WSGIRequestHandlerLogger, WSGIServerLogger, make_wsgi_chain
            app = make_wsgi_chain(DictBackend({"/": src}))
            self.srv = make_server("127.0.0.1", 0, app, handler_class=WSGIRequestHandlerLogger,
                                   server_class=WSGIServerLogger)
        self.port = self.srv.server_address[1]
        self.t = threading.Thread(target=self.srv.serve_forever, kwargs={"poll_interval": 0.05}, daemon=True)
        self.t.start()

    def client_and_path(self):
        if self.kind == "tcp":
            from dulwich.client import TCPGitClient
            return TCPGitClient("127.0.0.1", port=self.port), "/"
        from dulwich.client import HttpGitClient
        return HttpGitClient(f"http://127.0.0.1:{self.port}/"), "/"

    def close(self):
        self.srv.shutdown()
        self.srv.server_close()
        self.t.join(5)


def _sc_shallow(transport, phase, via_porcelain=False):
    """Depth-limited fetches over a smart transport: `initial` (depth 1 into an empty repository), `deepen`
    (a depth-1 clone fetched again with depth 3: the server answers `shallow c1` + `unshallow c3`), `unshallow`
    (depth larger than the history: `unshallow c3`, the shallow file disappears).  4-commit history."""
    def fetcher(st):
        if transport == "subprocess":
            from dulwich.client import SubprocessGitClient
            return SubprocessGitClient(), st["src"].path
        if transport == "local":
            from dulwich.client import LocalGitClient
            return LocalGitClient(), st["src"].path
        if "served" not in st:
            st["served"] = _Served(transport, st["src"])
        return st["served"].client_and_path()

    def build(p):
        src = _init(os.path.join(os.path.dirname(p), os.path.basename(p) + "-src"))
        cs = [commit_files(src, {"a.txt": (f"line {i}\n" * (i + 3)).encode(), f"f{i}.txt": f"file {i}\n".encode()},
                           b"c%d" % i, T0 + i) for i in range(4)]
        st = {"src": src, "r": _init(p), "cs": cs}
        if phase != "initial":
            c, path = fetcher(st)
            res = c.fetch(path, st["r"], depth=1)
            st["r"].refs[b"refs/remotes/origin/main"] = res.refs[b"refs/heads/main"]
            st["r"].refs[b"refs/heads/main"] = res.refs[b"refs/heads/main"]
        return st

    def op(st):
        c, path = fetcher(st)
        depth = {"initial": 1, "deepen": 3, "unshallow": 10}[phase]
        res = c.fetch(path, st["r"], depth=depth)
        tip = res.refs[b"refs/heads/main"]
        via = type(c).__name__ + ".fetch"
        cs = st["cs"]
        expected = {"initial": ({cs[3]}, set()), "deepen": ({cs[1]}, {cs[3]}), "unshallow": (set(), {cs[3]})}[phase]
        got = (set(res.new_shallow or ()), set(res.new_unshallow or ()))
        out = {"refs": {}, "plain": set(), "via": via}
        if got != expected and via != "LocalGitClient.fetch":
            # the client lost a `shallow`/`unshallow` line of the server's answer (before /repo PENDING-2 it polled
            # for ACKs while sending haves and dropped anything else it read: timing dependent,
            # F-C09-shallow-line-lost-in-negotiation, fixed) — kept so that a regression is detected and named
            out["anomaly"] = "shallow-line-lost"
        if phase == "initial":
            st["r"].refs.set_if_equals(b"refs/remotes/origin/main", None, tip)
            out["refs"] = {"refs/remotes/origin/main": tip.decode()}
        return out
    return build, op


def _sc_repack(shape, which, fsync=False):
    def build(p):
        st = _base(p, shape, fsync=fsync)
        if which == "two-packs":
            r = st["r"]
            r.object_store.add_object(_new_blob(b"loose extra\n"))
            r.object_store.pack_loose_objects()
            commit_files(r, {"c.txt": b"third file\n"}, b"three", T0 + 3)
        return st

    def op(st):
        if which == "pack_loose":
            st["r"].object_store.pack_loose_objects()
        else:
            st["r"].object_store.repack()
        return {"refs": {}, "plain": set()}
    return build, op


def _sc_gc(shape):
    def build(p):
        st = _base(p, shape)
        r = st["r"]
        r.object_store.add_object(_new_blob(b"unreachable garbage\n"))
        # stale leftovers of an earlier crash: a tmp pack and an orphaned .pack
        with open(os.path.join(r.object_store.path, "tmp_pack_stale"), "wb") as f:
            f.write(b"PACK junk")
        os.utime(os.path.join(r.object_store.path, "tmp_pack_stale"), (T0, T0))
        return st

    def op(st):
        from dulwich.gc import garbage_collect
        garbage_collect(st["r"], grace_period=None)
        return {"refs": {}, "plain": set()}
    return build, op


def _sc_prune():
    def build(p):
        st = _base(p, "mixed")
        r = st["r"]
        for n in ("tmp_pack_stale",):
            with open(os.path.join(r.object_store.path, n), "wb") as f:
                f.write(b"PACK junk")
            os.utime(os.path.join(r.object_store.path, n), (T0, T0))
        os.makedirs(r.object_store.pack_dir, exist_ok=True)
        orphan = os.path.join(r.object_store.pack_dir, "pack-" + "ab" * 20 + ".pack")
        with open(orphan, "wb") as f:   # complete pack whose index never got written (crash after the pack rename)
            f.write(make_thin_pack(None, b"", [_new_blob(b"orphaned\n")], b""))
        os.utime(orphan, (T0, T0))
        return st

    def op(st):
        st["r"].object_store.prune(grace_period=60)
        return {"refs": {}, "plain": set()}
    return build, op


def _sc_config():
    def build(p):
        return _base(p, "loose")

    def op(st):
        c = st["r"].get_config()
        c.set((b"user",), b"name", b"Somebody Else")
        c.set((b"remote", b"origin"), b"url", b"https://example.com/x.git")
        c.write_to_path()
        return {"refs": {}, "plain": {"config"}}
    return build, op


def _sc_index_write():
    def build(p):
        return _base(p, "loose")

    def op(st):
        idx = st["r"].open_index()
        del idx[b"d/b.txt"]
        idx.write()
        return {"refs": {}, "plain": {"index"}}
    return build, op


def fixed_scenarios() -> list[Scn]:
    S = []

    def add(name, kind, bo):
        S.append(Scn(name, kind, bo[0], bo[1]))
    add("add_object_loose", "add_object", _sc_add_object("loose"))
    add("add_object_packed", "add_object", _sc_add_object("packed"))
    add("add_object_fsync", "add_object", _sc_add_object("loose", fsync=True))
    add("add_objects_pack_loose", "add_objects", _sc_add_objects("loose"))
    add("add_objects_pack_packed", "add_objects", _sc_add_objects("packed"))
    add("add_objects_pack_fsync", "add_objects", _sc_add_objects("mixed", fsync=True))
    add("add_objects_over_orphan_pack", "add_objects", _sc_add_objects_over_orphan("add_objects"))
    add("repack_over_orphan_pack", "repack", _sc_add_objects_over_orphan("repack"))
    add("stage_loose", "index", _sc_stage("loose"))
    add("index_write", "index", _sc_index_write())
    add("commit_loose", "commit", _sc_commit("loose"))
    add("commit_packed", "commit", _sc_commit("packed"))
    add("commit_mixed", "commit", _sc_commit("mixed"))
    add("commit_initial", "commit", _sc_commit("loose", initial=True))
    add("commit_fsync", "commit", _sc_commit("mixed", fsync=True))
    add("set_ref_new_nested", "set_ref", _sc_set_ref("loose", "refs/heads/feature/deep/z", "c1"))
    add("set_ref_update_loose", "set_ref", _sc_cas_ref("loose", "refs/heads/y", "c2", "c1"))
    add("set_ref_update_packed", "set_ref", _sc_cas_ref("packed", "refs/tags/v1", "t1", "c1"))
    add("set_ref_update_both", "set_ref", _sc_cas_ref("mixed", "refs/heads/main", "c2", "c1"))
    add("set_symref_head", "set_ref", _sc_symref())
    add("tag_create", "set_ref", _sc_tag())
    add("delete_ref_loose", "remove_ref", _sc_del_ref("loose", "refs/heads/y"))
    add("delete_ref_packed", "remove_ref", _sc_del_ref("packed", "refs/heads/x"))
    add("delete_ref_both", "remove_ref", _sc_del_ref("mixed", "refs/heads/main"))
    add("delete_ref_both_same_value", "remove_ref", _sc_del_ref("mixed", "refs/heads/x", same_value=True))
    add("pack_refs_all_loose", "pack_refs", _sc_pack_refs("loose", True))
    add("pack_refs_tags_loose", "pack_refs", _sc_pack_refs("loose", False))
    add("pack_refs_all_packed", "pack_refs", _sc_pack_refs("packed", True))
    add("pack_refs_all_mixed", "pack_refs", _sc_pack_refs("mixed", True))
    add("thin_pack_direct_loose", "receive_pack", _sc_thin_pack("loose", False))
    add("receive_pack_handler_packed", "receive_pack", _sc_thin_pack("packed", True))
    add("receive_pack_handler_mixed", "receive_pack", _sc_thin_pack("mixed", True))
    add("receive_pack_handler_fsync", "receive_pack", _sc_thin_pack("loose", True, fsync=True))
    add("fetch_local", "receive_pack", _sc_fetch())
    for tr in ("subprocess", "tcp", "http", "local"):
        for ph in ("initial", "deepen", "unshallow"):
            add(f"shallow_{ph}_{tr}", "shallow_fetch", _sc_shallow(tr, ph))
    add("pack_loose_objects_loose", "pack_loose", _sc_repack("loose", "pack_loose"))
    add("pack_loose_objects_mixed", "pack_loose", _sc_repack("mixed", "pack_loose"))
    add("repack_loose", "repack", _sc_repack("loose", "repack"))
    add("repack_mixed", "repack", _sc_repack("mixed", "repack"))
    add("repack_two_packs", "repack", _sc_repack("mixed", "two-packs"))
    add("repack_fsync", "repack", _sc_repack("mixed", "repack", fsync=True))
    add("gc_loose", "gc", _sc_gc("loose"))
    add("gc_mixed", "gc", _sc_gc("mixed"))
    add("prune_stale_temp", "prune", _sc_prune())
    add("config_write", "config", _sc_config())
    return S


# ------------------------------------------------------------------------------------------------
# recording one scenario

class Rec:
    pass


def read_ref_state(root: str) -> dict:
    """Raw ref map of a repository as the REAL code reads it: name -> bytes value (sha or b'ref: …')."""
    R = _repo_mod()
    r = R.Repo(root)
    try:
        return {k.decode("utf-8", "replace"): r.refs.read_ref(k) for k in r.refs.allkeys()}
    finally:
        r.close()


def record(scn: Scn, workdir: str) -> Rec:
    """Build the start state, run the real operation under the recorder, return everything."""
    root = os.path.join(workdir, "repo")
    shutil.rmtree(workdir, ignore_errors=True)
    os.makedirs(workdir)
    with hermetic(Path(workdir) / "home"):
        st = scn.build(root)
        st["r"].close()
        st["r"] = _repo_mod().Repo(root)
        rec = Rec()
        rec.scn, rec.root = scn, root
        rec.start_files, rec.start_dirs = scan(root)
        rec.old_refs = read_ref_state(root)
        rec.start_copy = os.path.join(workdir, "start")
        shutil.copytree(root, rec.start_copy, symlinks=True)
        sr = SnapRecorder(root, rec.start_files)
        with sr:
            intent = scn.op(st)
            sr.finish()
        rec.st_values = {k: v for k, v in st.items() if not hasattr(v, "close")}
        rec.st_repos = {k: v.path for k, v in st.items() if k not in ("r", "served") and hasattr(v, "path")}
        for k in sorted(st, key=lambda k: k != "served"):     # the server thread first
            v = st[k]
            if hasattr(v, "close"):
                try:
                    v.close()
                except Exception:
                    pass
        rec.intent = intent
        rec.calls, rec.snaps, rec.raw, rec.fsyncs = sr.calls, sr.snaps, sr.raw, sr.fsyncs
        rec.final_files, _ = scan(root)
    return rec


# ------------------------------------------------------------------------------------------------
# crash states on disk: every prefix of the recorded program replayed onto a copy of the start state

def apply_call(cd: str, call):
    op = call[0]
    p = os.path.join(cd, call[1])
    if op == "write":
        with open(p, "wb") as f:
            f.write(call[2])
    elif op == "rename":
        os.replace(p, os.path.join(cd, call[2]))
    elif op == "unlink":
        os.remove(p)
    elif op == "mkdir":
        os.mkdir(p)
    elif op == "rmdir":
        os.rmdir(p)
    elif op == "skip":
        pass
    else:
        raise core.InfraError(f"unknown model call {op}")


def crash_states(rec: Rec, workdir: str):
    """Yields (j, dir): dir holds the repository after the first j calls of the recorded program (the
    state a process crash at that instant leaves).  The directory is reused; do not keep it."""
    cur = os.path.join(workdir, "cur")
    shutil.rmtree(cur, ignore_errors=True)
    shutil.copytree(rec.start_copy, cur, symlinks=True)
    cd = control_dir(cur)
    for j in range(len(rec.calls) + 1):
        yield j, cur
        if j < len(rec.calls):
            apply_call(cd, rec.calls[j])


# ------------------------------------------------------------------------------------------------
# the direct oracle: the property's own words, checked with the REAL code on one crash state

TYPE_NAMES = {1: b"commit", 2: b"tree", 3: b"blob", 4: b"tag"}


def _hash_ok(sha: str, tnum: int, raw: bytes) -> bool:
    t = TYPE_NAMES.get(tnum)
    return t is not None and hashlib.sha1(t + b" %d\x00" % len(raw) + raw).hexdigest() == sha


def real_closure(store, roots, problems=None, what="", get_parents=None):
    """{hex: (type_num, raw)} of everything reachable from `roots`, read through the real object store and
    re-hashed independently.  Commit parents are asked from the REAL code (`get_parents` = `Repo.get_parents`,
    which honours `.git/shallow` and grafts).  Unreadable / corrupt objects are appended to `problems`."""
    seen, todo = {}, list(roots)
    while todo:
        sha = todo.pop()
        if sha in seen:
            continue
        try:
            tnum, raw = store.get_raw(sha.encode())
            raw = bytes(raw)
        except BaseException as e:  # noqa: BLE001 - any failure to read is a finding
            if isinstance(e, (KeyboardInterrupt, SystemExit)):
                raise
            seen[sha] = None
            if problems is not None:
                problems.append(("object-unreadable", f"{what}{sha}: {type(e).__name__}: {str(e)[:80]}", sha))
            continue
        if not _hash_ok(sha, tnum, raw):
            seen[sha] = None
            if problems is not None:
                problems.append(("object-corrupt", f"{what}{sha}: bytes do not hash to the name", sha))
            continue
        seen[sha] = (tnum, raw)
        try:
            deps, parents = object_edges(TYPE_NAMES[tnum].decode(), raw, split=True)
            if tnum == 1 and get_parents is not None:
                try:
                    parents = [x.decode() for x in get_parents(sha.encode())]
                except BaseException as e:  # noqa: BLE001
                    if isinstance(e, (KeyboardInterrupt, SystemExit)):
                        raise
                    if problems is not None:
                        problems.append(("history-walk-fails", f"{what}get_parents({sha}): {type(e).__name__}: {str(e)[:80]}", sha))
            todo += deps + parents
        except (ValueError, IndexError):
            if problems is not None:
                problems.append(("object-corrupt", f"{what}{sha}: unparsable {TYPE_NAMES[tnum].decode()}", sha))
    return seen


class Before:
    """Facts about the start state and the intent, computed once per scenario with the real code."""

    def __init__(self, rec: Rec):
        R = _repo_mod()
        self.old_refs = {k: v for k, v in rec.old_refs.items()}
        self.new_refs = {}
        for k, v in rec.intent["refs"].items():
            self.new_refs[k] = None if v is None else (b"ref: " + v[1].encode() if isinstance(v, tuple) else v.encode())
        r = R.Repo(rec.start_copy)
        try:
            roots = [v.decode() for v in self.old_refs.values() if v and HEX40.match(v)]
            self.old_closure = real_closure(r.object_store, roots, get_parents=r.get_parents)
        finally:
            r.close()
        self.plain_old = {n: rec.start_files.get(n) for n in ("index", "config")}
        self.plain_new = {n: (rec.final_files.get(n) if n in rec.intent["plain"] else rec.start_files.get(n))
                          for n in ("index", "config")}


def oracle(rec: Rec, bf: Before, state_dir: str, thorough: bool, obs: dict | None = None,
           universe=(), post=None) -> list[tuple[str, str, str | None]]:
    """-> list of (clause, detail, subject) violated in this crash state (empty = the property holds).
    `obs` (optional) receives what the real code reads: obs['refs'] = {name: raw}, obs['vis'] = {hex present}
    for the hex ids in `universe`."""
    R = _repo_mod()
    out = []
    try:
        r = R.Repo(state_dir)
    except BaseException as e:  # noqa: BLE001
        if isinstance(e, (KeyboardInterrupt, SystemExit)):
            raise
        return [("repo-does-not-open", f"{type(e).__name__}: {str(e)[:120]}", None)]
    try:
        # refs: old or new value; no temp file listed as a ref
        try:
            keys = {k.decode("utf-8", "replace") for k in r.refs.allkeys()}
        except BaseException as e:  # noqa: BLE001
            if isinstance(e, (KeyboardInterrupt, SystemExit)):
                raise
            out.append(("refs-unlistable", f"{type(e).__name__}: {str(e)[:120]}", None))
            keys = set()
        cur = {}
        for k in sorted(keys | set(bf.old_refs) | set(bf.new_refs)):
            if is_temp_name(k) and k in keys:
                out.append(("temp-file-listed-as-ref", k, k))
                continue
            try:
                v = r.refs.read_ref(k.encode())
            except BaseException as e:  # noqa: BLE001
                if isinstance(e, (KeyboardInterrupt, SystemExit)):
                    raise
                out.append(("ref-unreadable", f"{k}: {type(e).__name__}: {str(e)[:80]}", k))
                continue
            cur[k] = v
            old = bf.old_refs.get(k)
            allowed = [old] + ([bf.new_refs[k]] if k in bf.new_refs else [])
            if v not in allowed and post is None:
                out.append(("ref-not-old-or-new",
                            f"{k} = {v!r}; old = {old!r}; new = {bf.new_refs.get(k, old)!r}", k))
        if obs is not None:
            obs["refs"] = dict(cur)
            obs["vis"] = set()
            for h in universe:
                try:
                    if h.encode() in r.object_store:
                        obs["vis"].add(h)
                except BaseException as e:  # noqa: BLE001 - a store that cannot answer counts as "not visible"
                    if isinstance(e, (KeyboardInterrupt, SystemExit)):
                        raise
        # every ref names an object that is present and intact (with everything it reaches)
        roots = sorted({v.decode() for v in cur.values() if v and HEX40.match(v)})
        pr = []
        cl_now = real_closure(r.object_store, roots, pr, "reachable from a ref: ", get_parents=r.get_parents)
        out += pr
        if obs is not None:
            obs["closure"] = cl_now
        # … and the real history walker gets through every ref's history (honouring .git/shallow)
        tips = [h.encode() for h in roots if cl_now.get(h) and cl_now[h][0] == 1]
        if tips:
            try:
                for _ in r.get_walker(include=tips):
                    pass
            except BaseException as e:  # noqa: BLE001
                if isinstance(e, (KeyboardInterrupt, SystemExit)):
                    raise
                out.append(("history-walk-fails", f"Repo.get_walker over the refs: {type(e).__name__}: {str(e)[:100]}", None))
        # every object reachable before is still readable, with the same bytes
        for sha, old in (bf.old_closure if post is None else post).items():
            if old is None:
                continue
            try:
                tnum, raw = r.object_store.get_raw(sha.encode())
                if (tnum, bytes(raw)) != old:
                    out.append(("object-changed", f"{sha} reads back differently", sha))
            except BaseException as e:  # noqa: BLE001
                if isinstance(e, (KeyboardInterrupt, SystemExit)):
                    raise
                out.append(("object-lost", f"{sha} was reachable before: {type(e).__name__}: {str(e)[:80]}", sha))
        # nothing half-written is taken for valid data: every object the store lists is whole
        try:
            listed = sorted(x.decode() for x in r.object_store)
        except BaseException as e:  # noqa: BLE001
            if isinstance(e, (KeyboardInterrupt, SystemExit)):
                raise
            out.append(("store-unlistable", f"{type(e).__name__}: {str(e)[:120]}", None))
            listed = []
        pr = []
        for sha in listed:
            try:
                tnum, raw = r.object_store.get_raw(sha.encode())
                if not _hash_ok(sha, tnum, bytes(raw)):
                    pr.append(("half-written-object-listed", f"{sha}: bytes do not hash to the name", sha))
            except BaseException as e:  # noqa: BLE001
                if isinstance(e, (KeyboardInterrupt, SystemExit)):
                    raise
                pr.append(("half-written-object-listed", f"{sha}: {type(e).__name__}: {str(e)[:80]}", sha))
        out += pr
        try:
            for p in r.object_store.packs:
                base = os.path.basename(p._basename)
                if is_temp_name(base):
                    out.append(("temp-file-listed-as-pack", base, base))
                try:
                    p.check_length_and_checksum()
                    p.index.check()
                except BaseException as e:  # noqa: BLE001
                    if isinstance(e, (KeyboardInterrupt, SystemExit)):
                        raise
                    out.append(("half-written-pack-listed", f"{base}: {type(e).__name__}: {str(e)[:80]}", base))
        except BaseException as e:  # noqa: BLE001
            if isinstance(e, (KeyboardInterrupt, SystemExit)):
                raise
            out.append(("packs-unlistable", f"{type(e).__name__}: {str(e)[:120]}", None))
        # index and config: parse, and hold the old or the new content exactly
        cd = control_dir(state_dir)
        for name in ("index", "config"):
            p = os.path.join(cd, name)
            data = None
            if os.path.exists(p):
                with open(p, "rb") as f:
                    data = f.read()
            if data not in (bf.plain_old[name], bf.plain_new[name]) and post is None:
                out.append((f"{name}-not-old-or-new", f"{name}: {len(data) if data is not None else 'absent'} bytes, "
                            f"neither the old nor the new content", name))
            try:
                if name == "index":
                    if data is not None and not rec.scn.bare:
                        r.open_index()
                else:
                    r.get_config()
            except BaseException as e:  # noqa: BLE001
                if isinstance(e, (KeyboardInterrupt, SystemExit)):
                    raise
                out.append((f"{name}-does-not-parse", f"{type(e).__name__}: {str(e)[:120]}", name))
    finally:
        try:
            r.close()
        except Exception:
            pass
    if thorough or (rec.scn.kind == "shallow_fetch" and post is None):
        rc, txt = core.sh(["git", "-C", state_dir, "fsck", "--full", "--no-dangling", "--no-progress"],
                          env=core.clean_env({"GIT_CONFIG_GLOBAL": "/dev/null"}), timeout=120)
        if rc != 0:
            out.append(("git-fsck", txt.strip().replace("\n", " | ")[:300], None))
    return out


def classify(rec: Rec, j: int, clause: str, subject, state_files: dict) -> str:
    """Narrow failing-input class of one violated clause, derived from the crash state itself."""
    if clause == "ref-not-old-or-new" and subject is not None and subject in rec.start_files \
            and subject not in state_files:
        # the loose copy of the ref has been unlinked by this operation …
        packed = parse_packed_refs(state_files.get("packed-refs", b"")) or []
        if subject + ".lock" in state_files and state_files.get("packed-refs") == rec.start_files.get("packed-refs") \
                and subject in dict(packed):
            # … under the ref's own lock, and the OLD packed-refs (still listing the ref) is in place
            return "remove-if-equals-crash-between-unlinks"
        if "packed-refs.lock" in state_files and subject + ".lock" not in state_files \
                and state_files.get("packed-refs") == rec.start_files.get("packed-refs"):
            # … under the packed-refs lock, and the new packed-refs has not been renamed in yet
            return "pack-refs-crash-after-loose-unlink"
    if clause in ("object-unreadable", "history-walk-fails", "git-fsck") and rec.intent.get("via") == "LocalGitClient.fetch":
        # the LOCAL fetch path (Repo.fetch -> find_missing_objects -> graph_walker.update_shallow) used to rewrite
        # the target's shallow file before the pack existed (fixed by /repo PENDING-1; the class stays so that a
        # regression is named): the shallow set has shrunk, no new pack index is in place
        old = set(parse_shallow(rec.start_files.get("shallow", b"")) or [])
        now = set(parse_shallow(state_files.get("shallow", b"")) or [])
        idx = lambda fs: {f for f in fs if f.startswith("objects/pack/") and f.endswith(".idx")}  # noqa: E731
        if old - now and idx(state_files) == idx(rec.start_files):
            return "local-fetch-shallow-shrunk-before-pack"
    if rec.intent.get("anomaly") == "shallow-line-lost" and j == len(rec.calls) \
            and clause in ("object-unreadable", "history-walk-fails", "git-fsck"):
        # not a crash window: the COMPLETED fetch left the wrong shallow set because the client dropped a line
        return "smart-fetch-shallow-line-lost-in-negotiation"
    return f"{rec.scn.kind}:{clause}"


# ------------------------------------------------------------------------------------------------
# canonicalisation: recorded scenario -> model terms (Spec + program)

class Canon:
    """Numbering of object ids, refs, packs, checksums, temp names, other paths of ONE scenario, and the
    model terms built with it.  Terms are small tuples; `lean_*`/`tok_*` render them."""

    def __init__(self, rec: Rec, calls=None, extra=()):
        self.rec = rec
        calls = rec.calls if calls is None else calls
        ncalls = len(calls)
        calls = list(calls) + [c for q in extra for c in q]      # retry programs share the numbering
        objs, refs, packs, others = set(), {"HEAD"}, set(), set()
        tmps, sums, blobs = [], [], []      # numbered by first appearance (their bytes vary from run to run)

        def first(lst, x):
            if x not in lst:
                lst.append(x)
        paths = []      # every path occurrence in order: start files (sorted), then the program
        contents = []

        def see_path(rel, is_dir=False):
            if is_dir:
                others.add("dir:" + rel)
                return ("other", "dir:" + rel)
            k = classify_path(rel)
            paths.append(rel)
            if k[0] == "tmp" and rel not in tmps:
                tmps.append(rel)
            elif k[0] == "loose":
                objs.add(k[1])
            elif k[0] in ("pack", "idx"):
                packs.add(k[1])
            elif k[0] == "ref":
                refs.add(rel)
            elif k[0] == "other":
                others.add(rel)
            return k

        def see_content(c):
            contents.append(c)
            if c[0] == "obj":
                objs.add(c[1])
            elif c[0] == "packData":
                first(sums, c[1])
            elif c[0] == "idxData":
                first(sums, c[1])
                objs.update(c[2])
            elif c[0] == "refc":
                if c[1] == "sha":
                    objs.add(c[2])
                else:
                    refs.add(c[2])
            elif c[0] == "packed":
                for n, h in c[1]:
                    refs.add(n)
                    objs.add(h)
            elif c[0] == "blob":
                first(blobs, c[1])
            elif c[0] == "shallowSet":
                objs.update(c[1])

        self.start = {}
        for rel in sorted(rec.start_files):
            k = see_path(rel)
            c = content_of(rel, rec.start_files[rel])
            see_content(c)
            self.start[rel] = c
        self.prog = []
        for call in calls:
            if call[0] == "write":
                k = see_path(call[1])
                c = content_of(call[1], call[2])
                see_content(c)
                self.prog.append(("write", call[1], c))
            elif call[0] == "rename":
                see_path(call[1])
                see_path(call[2])
                self.prog.append(call)
            elif call[0] in ("mkdir", "rmdir"):
                see_path(call[1], is_dir=True)
                self.prog.append((call[0], "dir:" + call[1]))
            elif call[0] == "skip":
                see_path(call[1])
                see_path(call[2])
                self.prog.append(call)
            else:
                see_path(call[1])
                self.prog.append(call)
        for n, v in rec.intent["refs"].items():
            refs.add(n)
            if isinstance(v, tuple):
                refs.add(v[1])
            elif v is not None:
                objs.add(v)
        for n in ("index", "config"):
            if n in rec.intent["plain"] and rec.final_files.get(n) is not None:
                first(blobs, hashlib.sha1(rec.final_files[n]).hexdigest())
        self.objs = {h: i + 1 for i, h in enumerate(sorted(objs))}
        self.refs = {"HEAD": 0}
        for n in sorted(refs - {"HEAD"}):
            self.refs[n] = len(self.refs)
        self.packs = {h: i + 1 for i, h in enumerate(sorted(packs))}
        self.sums = {h: i + 1 for i, h in enumerate(sums)}
        self.blobs = {h: i + 1 for i, h in enumerate(blobs)}
        self.tmps = {n: i + 1 for i, n in enumerate(tmps)}
        self.others = {n: i + 1 for i, n in enumerate(sorted(others))}
        self.plains = {"index": 0, "config": 1}
        # object graph, read from wherever the object is available (start or final state), real store
        self.edges = {}
        R = _repo_mod()
        stores = []
        for d in (rec.start_copy, rec.root):
            try:
                stores.append(R.Repo(d))
            except Exception:
                pass
        try:
            todo = sorted(self.objs)
            while todo:
                h = todo.pop(0)
                if h in self.edges:
                    continue
                before = set(self.objs)
                for r in stores:
                    try:
                        tnum, raw = r.object_store.get_raw(h.encode())
                    except Exception:
                        continue
                    if _hash_ok(h, tnum, bytes(raw)):
                        self.edges[h] = object_edges(TYPE_NAMES[tnum].decode(), bytes(raw), split=True)
                        for e in self.edges[h][0] + self.edges[h][1]:
                            if e not in self.objs:
                                self.objs[e] = len(self.objs) + 1
                        break
                todo += sorted(set(self.objs) - before)
        finally:
            for r in stores:
                r.close()
        # model terms
        mentioned = {c[1] for c in self.prog} | {c[2] for c in self.prog if c[0] in ("rename", "skip")}
        self.known = []
        for rel in sorted(self.start):
            if classify_path(rel)[0] == "other" and rel not in mentioned:
                continue
            self.known.append((self.path(rel), self.content(self.start[rel])))
        absent = set(mentioned) | {"packed-refs", "shallow"}
        for rel in list(mentioned) + list(self.start):
            k = classify_path(rel) if not rel.startswith("dir:") else ("other",)
            if k[0] in ("pack", "idx"):
                absent.add(f"objects/pack/{k[1]}.pack")
                absent.add(f"objects/pack/{k[1]}.idx")
        absent |= set(self.refs)
        for rel in sorted(absent):
            if rel not in self.start:
                self.known.append((self.path(rel), None))
        self.calls = []
        for c in self.prog:
            if c[0] == "write":
                self.calls.append(("write", self.path(c[1]), self.content(c[2])))
            elif c[0] == "rename":
                self.calls.append(("rename", self.path(c[1]), self.path(c[2])))
            elif c[0] == "skip":
                self.calls.append(("skip", self.path(c[1])[1], self.path(c[2])))
            else:
                self.calls.append((c[0], self.path(c[1])))
        allc, self.calls, self.prog = self.calls, self.calls[:ncalls], self.prog[:ncalls]
        self.extra_calls, pos = [], ncalls
        for q in extra:
            self.extra_calls.append(allc[pos:pos + len(q)])
            pos += len(q)
        self.new_refs = []
        for n, v in sorted(rec.intent["refs"].items()):
            if v is None:
                self.new_refs.append((self.refs[n], None))
            elif isinstance(v, tuple):
                self.new_refs.append((self.refs[n], ("sym", self.refs[v[1]])))
            else:
                self.new_refs.append((self.refs[n], ("sha", self.objs[v])))
        self.new_plain = []
        for n in sorted(rec.intent["plain"]):
            d = rec.final_files.get(n)
            self.new_plain.append((self.plains[n], None if d is None else ("blob", self.blobs[hashlib.sha1(d).hexdigest()])))
        self.edge_terms = sorted((self.objs[h], [self.objs[e] for e in ds], [self.objs[e] for e in ps])
                                 for h, (ds, ps) in self.edges.items())
        self.garbage = self._garbage()

    def path(self, rel):
        if rel.startswith("dir:"):
            return ("other", self.others[rel])
        k = classify_path(rel)
        if k[0] == "tmp":
            return ("tmp", self.tmps[rel])
        if k[0] == "loose":
            return ("loose", self.objs[k[1]])
        if k[0] in ("pack", "idx"):
            return (k[0], self.packs[k[1]])
        if k[0] == "ref":
            return ("ref", self.refs[rel])
        if k[0] in ("packedRefs", "shallow"):
            return (k[0],)
        if k[0] == "plain":
            return ("plain", self.plains[k[1]])
        return ("other", self.others[rel])

    def content(self, c):
        if c[0] == "obj":
            return ("obj", self.objs[c[1]])
        if c[0] == "packData":
            return ("packData", self.sums[c[1]])
        if c[0] == "idxData":
            return ("idxData", self.sums[c[1]], tuple(sorted(self.objs[h] for h in c[2])))
        if c[0] == "refc":
            return ("refSha", self.objs[c[2]]) if c[1] == "sha" else ("refSym", self.refs[c[2]])
        if c[0] == "packed":
            return ("packed", tuple(sorted((self.refs[n], self.objs[h]) for n, h in c[1])))
        if c[0] == "shallowSet":
            return ("shallowSet", tuple(sorted(self.objs[h] for h in c[1])))
        if c[0] == "blob":
            return ("blob", self.blobs[c[1]])
        if c[0] == "blob0":
            return ("blob", 0)
        return ("junk",)

    # -- python mirror of the model's reading, used only to compute `garbage` (checked by Lean anyway:
    #    a wrong garbage list makes `checkProgram` reject or `Pre` unsatisfiable, never unsound)
    def _garbage(self):
        st = {p: c for p, c in self.known}
        vis = set()
        for p, c in st.items():
            if p[0] == "loose" and c == ("obj", p[1]):
                vis.add(p[1])
            if p[0] == "pack" and c and c[0] == "packData":
                i = st.get(("idx", p[1]))
                if i and i[0] == "idxData" and i[1] == c[1]:
                    vis.update(i[2])
        roots = set()
        for p, c in st.items():
            if p[0] == "ref" and c and c[0] == "refSha":
                roots.add(c[1])
            if p[0] == "packedRefs" and c and c[0] == "packed":
                roots.update(o for _, o in c[1])
        for _, v in self.new_refs:
            if v is not None and v[0] == "sha":
                roots.add(v[1])
        em = {o: ds + ps for o, ds, ps in self.edge_terms}     # ignoring the shallow cut: a superset
        seen, todo = set(), list(roots)
        while todo:
            o = todo.pop()
            if o in seen:
                continue
            seen.add(o)
            todo += em.get(o, [])
        return sorted(vis - seen)

    # -- rendering: Lean terms
    @staticmethod
    def lean_path(p):
        return f"Path.{p[0]}" if len(p) == 1 else f"Path.{p[0]} {p[1]}"

    @staticmethod
    def lean_content(c):
        if c is None:
            return "none"
        if c[0] == "junk":
            return "some Content.junk"
        if c[0] == "idxData":
            return f"some (Content.idxData {c[1]} {list(c[2])})"
        if c[0] == "packed":
            return "some (Content.packed [" + ", ".join(f"({a}, {b})" for a, b in c[1]) + "])"
        if c[0] == "shallowSet":
            return f"some (Content.shallowSet {list(c[1])})"
        return f"some (Content.{c[0]} {c[1]})"

    def lean_call(self, c):
        if c[0] == "write":
            cc = self.lean_content(c[2])[5:]
            return f"Call.write ({self.lean_path(c[1])}) {cc}"
        if c[0] == "rename":
            return f"Call.rename ({self.lean_path(c[1])}) ({self.lean_path(c[2])})"
        if c[0] == "skip":
            return f"Call.skip {c[1]} ({self.lean_path(c[2])})"
        return f"Call.{c[0]} ({self.lean_path(c[1])})"

    @staticmethod
    def lean_refv(v):
        return "none" if v is None else f"some (RefV.{v[0]} {v[1]})"

    def lean_spec(self):
        known = ",\n      ".join(f"({self.lean_path(p)}, {self.lean_content(c)})" for p, c in self.known)
        return ("{ edges := [" + ", ".join(f"({o}, {ds}, {ps})" for o, ds, ps in self.edge_terms) + "],\n"
                "    known := [\n      " + known + "],\n"
                "    newRefs := [" + ", ".join(f"({r}, {self.lean_refv(v)})" for r, v in self.new_refs) + "],\n"
                "    newPlain := [" + ", ".join(f"({n}, {self.lean_content(c)})" for n, c in self.new_plain) + "],\n"
                "    garbage := " + str(self.garbage) + " }")

    def lean_prog(self):
        return "[\n    " + ",\n    ".join(self.lean_call(c) for c in self.calls) + "]"

    # -- rendering: driver tokens
    @staticmethod
    def tok_path(p):
        return {"loose": "l", "pack": "p", "idx": "i", "ref": "r", "packedRefs": "P", "shallow": "S", "plain": "n",
                "tmp": "t", "other": "x"}[p[0]] + (str(p[1]) if len(p) > 1 else "")

    @staticmethod
    def tok_content(c):
        if c is None:
            return "-"
        t = c[0]
        if t == "junk":
            return "j"
        if t == "dir":
            return "d"
        if t == "idxData":
            return f"i{c[1]}:" + ",".join(map(str, c[2]))
        if t == "packed":
            return "m" + ",".join(f"{a}:{b}" for a, b in c[1])
        if t == "shallowSet":
            return "h" + ",".join(map(str, c[1]))
        return {"obj": "o", "packData": "k", "refSha": "s", "refSym": "y", "blob": "b"}[t] + str(c[1])

    def tok_call(self, c):
        if c[0] == "write":
            return f"w:{self.tok_path(c[1])}={self.tok_content(c[2])}"
        if c[0] == "rename":
            return f"mv:{self.tok_path(c[1])}:{self.tok_path(c[2])}"
        if c[0] == "skip":
            return f"sk:{c[1]}:{self.tok_path(c[2])}"
        return {"unlink": "rm", "mkdir": "mk", "rmdir": "rd"}[c[0]] + ":" + self.tok_path(c[1])

    def tok_spec(self):
        t = [f"e{o}:" + ",".join(map(str, ds)) + ":" + ",".join(map(str, ps)) for o, ds, ps in self.edge_terms]
        t += [f"K{self.tok_path(p)}={self.tok_content(c)}" for p, c in self.known]
        t += [f"R{r}=" + ("-" if v is None else ("s" if v[0] == "sha" else "y") + str(v[1])) for r, v in self.new_refs]
        t += [f"N{n}={self.tok_content(c)}" for n, c in self.new_plain]
        t += [f"g{o}" for o in self.garbage]
        return t

    def listing(self, files: dict):
        """Canonical model listing of an on-disk state (for the correspondence with `runK`)."""
        out = {}
        for rel, data in files.items():
            k = classify_path(rel)
            try:
                p = self.path(rel)
            except KeyError:
                return None
            try:
                out[self.tok_path(p)] = self.tok_content(self.content(content_of(rel, data)))
            except KeyError:
                out[self.tok_path(p)] = "?"
        return out


def normalise_runs(calls: list) -> list:
    """Canonical order for the parts of a recorded program whose order the code does not fix: dulwich iterates
    Python sets / dicts keyed by bytes (and os.listdir results) when it deletes loose refs and loose objects, so
    the order changes with PYTHONHASHSEED.  Works on the RAW calls (paths relative to the control directory):
      * maximal runs of consecutive `unlink` calls are sorted by path;
      * maximal runs of consecutive blocks `create <x>.lock; [unlink <x>;] unlink <x>.lock` (a loose ref removed
        under its own lock, as add_packed_refs does for each packed ref) are sorted by <x>.
    The generated Lean term uses this order so that its text is stable from run to run; run() checks the
    order that actually happened."""
    def block_at(i):
        if 0 <= i and i + 1 < len(calls):
            a = calls[i]
            if a[0] == "write" and a[2] == b"" and a[1].endswith(".lock"):
                if calls[i + 1] == ("unlink", a[1]):                       # locked, nothing to remove, unlocked
                    return calls[i:i + 2]
                if i + 2 < len(calls) and calls[i + 1] == ("unlink", a[1][:-5]) and calls[i + 2] == ("unlink", a[1]):
                    return calls[i:i + 3]
        return None

    def in_block(j):
        return any((blk := block_at(k)) is not None and k + len(blk) > j for k in (j - 2, j - 1))
    out, i = [], 0
    while i < len(calls):
        blocks = []
        j = i
        while True:
            blk = block_at(j)
            if blk is None:
                break
            blocks.append(blk)
            j += len(blk)
        if blocks:
            for blk in sorted(blocks, key=lambda x: x[0][1]):
                out += blk
            i = j
            continue
        if calls[i][0] == "unlink":
            j = i
            while j < len(calls) and calls[j][0] == "unlink" and not in_block(j):
                j += 1
            out += sorted(calls[i:j], key=lambda x: x[1])
            i = j
            continue
        out.append(calls[i])
        i += 1
    return out


# ------------------------------------------------------------------------------------------------
# evaluating one recorded scenario: every crash prefix on disk x the real oracle

class Eval:
    pass


def evaluate(rec: Rec, workdir: str, thorough: bool, universe=(), extra=None) -> Eval:
    ev = Eval()
    ev.rec = rec
    ev.obs = {}
    ev.failures = []          # (j, clause, detail, subject, cls)
    ev.states = 0
    ev.listings = {}
    ev.fidelity = []
    live = {j: f for j, f, _l, _s in rec.snaps}
    with hermetic(Path(workdir) / "home"):
        bf = Before(rec)
        ev.before = bf
        for j, d in crash_states(rec, workdir):
            files, _ = scan(d)
            ev.listings[j] = files
            if j in live and live[j] != files:
                ev.fidelity.append((j, sorted(set(live[j]) ^ set(files))[:4]))
            obs = {}
            for clause, detail, subj in oracle(rec, bf, d, thorough, obs, universe):
                ev.failures.append((j, clause, detail, subj, classify(rec, j, clause, subj, files)))
            ev.obs[j] = obs
            ev.states += 1
            if extra is not None:
                extra(ev, j, d, files, bf)
    return ev


# ------------------------------------------------------------------------------------------------
# translator

_CACHE: dict = {}


def _translate_dir() -> str:
    d = os.path.join(os.environ.get("VERIF_SCRATCH", "/var/tmp"), f"dulwich-verif-{os.getpid()}", "c09-translate")
    if "dir" not in _CACHE:
        import atexit
        shutil.rmtree(d, ignore_errors=True)
        os.makedirs(d, exist_ok=True)
        atexit.register(lambda: shutil.rmtree(d, ignore_errors=True))
        _CACHE["dir"] = d
    return d


def recorded_fixed() -> dict:
    """name -> (Rec, Canon, Eval) of every fixed scenario (run once per process, shared by translate() and run())."""
    if "fixed" not in _CACHE:
        out = {}
        base = _translate_dir()
        anomalies = []
        for scn in fixed_scenarios():
            w = os.path.join(base, scn.name)
            for attempt in range(6):
                # a smart-transport shallow fetch can lose a line of the server's answer (timing dependent client
                # defect, reported separately): such a recording is evaluated and reported, but the program that
                # goes into Gen/ and the correspondence is a recording of the intended exchange
                w_try = w if attempt == 0 else f"{w}-retry{attempt}"
                try:
                    rec = record(scn, w_try)
                except (AssertionError, OSError, KeyError) as e:
                    if scn.kind != "shallow_fetch" or attempt == 5:
                        raise
                    anomalies.append((scn.name, f"{type(e).__name__}: {e}", None, None, None))
                    continue
                with hermetic(Path(w_try) / "home"):
                    cn = Canon(rec)
                ev = evaluate(rec, w_try, False, universe=sorted(cn.objs))
                if rec.intent.get("anomaly") and attempt < 5:
                    anomalies.append((scn.name, rec.intent["anomaly"], rec, cn, ev))
                    continue
                break
            out[scn.name] = (rec, cn, ev)
        _CACHE["fixed"] = out
        _CACHE["anomalies"] = anomalies
    return _CACHE["fixed"]


def translate(repo: Path) -> dict:
    from ..translate import lean_header
    fixed = recorded_fixed()
    hdr = lean_header("the system-call programs of dulwich's repository-changing operations, RECORDED by running the "
                      "real code of dulwich/object_store.py, refs.py, worktree.py, gc.py, index.py, config.py, file.py, "
                      "server.py on scratch repositories (harness/props/c09.py)")
    tr = [hdr, "import DulwichModel.Model.Crash", "", "namespace Dulwich.Gen.Traces", "open Dulwich.Crash", ""]
    ck = [hdr, "import DulwichModel.Gen.Traces", "",
          "/-! One obligation per recorded scenario: the proved-sound checker (`crashSafe_of_check`) accepts the",
          "recorded program — or, where the REAL crash states violate the property (known findings), rejects it and",
          "the recorded prefix refutes the ref clause of `Recoverable`. -/", "",
          "namespace Dulwich.Gen.TracesChecked", "open Dulwich.Crash Dulwich.Gen.Traces", ""]
    safe, unsafe = [], []
    retried = []
    for name, (rec, cn_actual, ev) in fixed.items():
        w = os.path.dirname(rec.root)
        with hermetic(Path(w) / "home"):
            extra = []
            if name in RETRY_SCENARIOS and not ev.failures:
                for j, d in crash_states(rec, w):
                    if j < len(rec.calls):
                        extra.append(normalise_runs(record_retry(rec, d, w)[0]))
            cn = Canon(rec, normalise_runs(rec.calls), extra=extra)
        calls = cn.calls
        tr.append(f"/-- scenario `{name}` ({rec.scn.kind}): start state and intent -/")
        tr.append(f"def {name}_spec : Spec :=\n  {cn.lean_spec()}")
        tr.append(f"/-- scenario `{name}`: the recorded mutating calls -/")
        tr.append(f"def {name}_prog : List Call := {cn.lean_prog()}")
        if name in RETRY_SCENARIOS and not ev.failures:
            tr.append(f"/-- scenario `{name}`: for k = 0 … {len(calls) - 1}, the calls the RE-RUN operation issued on the state left "
                      f"by the first k calls (recorded from the real code; a retry stopped by a lock contributes what it did "
                      f"before the error) -/")
            tr.append(f"def {name}_retries : List (List Call) := [\n    " +
                      ",\n    ".join("[" + ", ".join(cn.lean_call(c) for c in q) + "]" for q in cn.extra_calls) + "]")
            retried.append(name)
        tr.append("")
        if not ev.failures:
            safe.append(name)
            ck.append(f"theorem {name}_checked : checkProgram {name}_spec {name}_prog = true := by decide +kernel")
        else:
            unsafe.append(name)
            ck.append(f"/-- the real crash states of this scenario violate the property "
                      f"({sorted({f[4] for f in ev.failures})}) -/")
            ck.append(f"theorem {name}_flagged : checkProgram {name}_spec {name}_prog = false := by decide +kernel")
            # a recorded prefix that refutes the ref clause, located on the normalised program
            bad = _ref_counterexample(cn, calls)
            if bad is not None:
                j, r = bad
                ck.append(f"theorem {name}_counterexample :\n    ¬ RefOldOrNew {name}_spec (toFS {name}_spec.known)\n"
                          f"      (run ({name}_prog.take {j}) (toFS {name}_spec.known)) {r} := by decide +kernel")
        ck.append("")
    tr.append("/-- every recorded scenario, by name (driver, summaries) -/")
    tr.append("def all : List (String × Spec × List Call) := [\n  " +
              ",\n  ".join(f'("{n}", {n}_spec, {n}_prog)' for n in fixed) + "]")
    tr.append("")
    tr.append("end Dulwich.Gen.Traces")
    ck.append("/-- the recorded scenarios whose every real crash state satisfied the oracle -/")
    ck.append("def safe : List (Spec × List Call) := [\n  " + ",\n  ".join(f"({n}_spec, {n}_prog)" for n in safe) + "]")
    ck.append("")
    ck.append("theorem safe_checked : safe.all (fun e => checkProgram e.1 e.2) = true := by decide +kernel")
    ck.append("")
    ck.append("/-- the recorded scenarios with a real crash state that violates the property (known findings) -/")
    ck.append("def flagged : List (Spec × List Call) := [\n  " + ",\n  ".join(f"({n}_spec, {n}_prog)" for n in unsafe) + "]")
    ck.append("")
    ck.append("theorem flagged_rejected : flagged.all (fun e => !checkProgram e.1 e.2) = true := by decide +kernel")
    ck.append("")
    ck.append("/-- retry after a crash (Props.C09.retry_after_crash_safe): the recorded re-runs are accepted from every crash prefix -/")
    ck.append("def retried : List (Spec × List Call × List (List Call)) := [\n  " +
              ",\n  ".join(f"({n}_spec, {n}_prog, {n}_retries)" for n in retried) + "]")
    ck.append("")
    ck.append("theorem retried_checked : retried.all (fun e => checkProgram e.1 e.2.1 && retryOK e.1 e.2.1 e.2.2) = true := by decide +kernel")
    ck.append("")
    swallows = add_object_lock_handling(repo)
    raises = _add_object_under_lock_raises()
    ck.append("/-- AST of DiskObjectStore.add_object: is the GitFile write inside a handler that swallows FileLocked / "
              "FileExistsError / OSError? -/")
    ck.append(f"def addObjectSwallowsLock : Bool := {'true' if swallows else 'false'}")
    ck.append("/-- recorded: add_object of an object whose `<sha>.lock` exists raised FileLocked and wrote nothing -/")
    ck.append(f"def addObjectUnderLockRaises : Bool := {'true' if raises else 'false'}")
    ck.append("")
    ck.append("theorem add_object_lock_propagates : addObjectSwallowsLock = false ∧ addObjectUnderLockRaises = true := by decide")
    ck.append("")
    ck.append("/-- non-vacuity: every recorded start state satisfies the (executable) precondition -/")
    ck.append("theorem all_pre : (safe ++ flagged).all (fun e => preK e.1) = true := by decide +kernel")
    ck.append("")
    ck.append("end Dulwich.Gen.TracesChecked")
    return {"Traces": "\n".join(tr) + "\n", "TracesChecked": "\n".join(ck) + "\n"}


def _add_object_under_lock_raises() -> bool:
    """Run the real add_object on a scratch store in which `<sha>.lock` already exists."""
    from dulwich.file import FileLocked
    w = os.path.join(_translate_dir(), "add-under-lock")
    shutil.rmtree(w, ignore_errors=True)
    with hermetic(Path(w) / "home"):
        r = _init(os.path.join(w, "repo"))
        b = _new_blob(b"locked object\n")
        path = r.object_store._get_shafile_path(b.id)
        os.makedirs(os.path.dirname(path), exist_ok=True)
        with open(path + ".lock", "wb"):
            pass
        before, _ = scan(r.path)
        try:
            r.object_store.add_object(b)
            raised = False
        except FileLocked:
            raised = True
        after, _ = scan(r.path)
        r.close()
    return raised and before == after


def _ref_counterexample(cn: Canon, calls: list):
    """First prefix j of `calls` and ref r with raw value neither old nor new (python mirror of `rawRef`, only
    used to LOCATE the witness; Lean re-checks it by `decide`)."""
    def raw(st, r):
        c = st.get(("ref", r))
        if c is not None:
            return ("sha", c[1]) if c[0] == "refSha" else (("sym", c[1]) if c[0] == "refSym" else ("bad",))
        p = st.get(("packedRefs",))
        if p is not None and p[0] == "packed":
            return next((("sha", o) for rr, o in p[1] if rr == r), None)
        return None
    st = {p: c for p, c in reversed(cn.known) if True}
    st = {p: c for p, c in st.items() if c is not None}
    st0 = dict(st)
    new = {r: v for r, v in cn.new_refs}
    rs = sorted(set(cn.refs.values()))
    for j in range(len(calls) + 1):
        for r in rs:
            v = raw(st, r)
            if v != raw(st0, r) and not (r in new and v == new[r]):
                return j, r
        if j < len(calls):
            c = calls[j]
            if c[0] == "write":
                st[c[1]] = c[2]
            elif c[0] == "rename":
                if c[1] in st:
                    st[c[2]] = st.pop(c[1])
            elif c[0] in ("unlink", "rmdir"):
                st.pop(c[1], None)
            elif c[0] == "mkdir":
                st[c[1]] = ("dir",)
    return None


# ------------------------------------------------------------------------------------------------
# seeded variants: random start states (built by the real code) x one random operation

def gen_variant(rng) -> dict:
    """JSON-able description of a start state (sequence of set-up actions) and ONE operation."""
    setup = []
    ncommits = 0
    branches, tags = ["refs/heads/main"], []
    for _ in range(rng.randint(1, 6)):
        a = rng.choice(["commit", "commit", "branch", "tag", "pack_objects", "pack_refs", "pack_refs_all", "blob",
                        "repack", "lwtag"])
        if a == "commit" or ncommits == 0:
            ncommits += 1
            files = {rng.choice(["a.txt", "b.txt", "d/e.txt"]): f"content {ncommits} {rng.random()}\n"
                     for _ in range(rng.randint(1, 2))}
            if ncommits == 1:
                files["a.txt"] = "first\n" * 30
            setup.append({"a": "commit", "files": files})
        elif a == "branch":
            n = "refs/heads/" + rng.choice(["b1", "b2", "f/x", "f/y/z"])
            if n not in branches and not any(b.startswith(n + "/") or n.startswith(b + "/") for b in branches):
                branches.append(n)
                setup.append({"a": "branch", "name": n, "at": rng.randrange(ncommits)})
        elif a in ("tag", "lwtag"):
            n = f"refs/tags/t{len(tags)}"
            tags.append(n)
            setup.append({"a": a, "name": n, "at": rng.randrange(ncommits)})
        else:
            setup.append({"a": a})
    refs = branches + tags
    kind = rng.choice(["commit", "stage", "set_new", "cas", "delete", "delete", "pack_refs", "pack_refs_all", "add_object",
                       "add_objects", "repack", "pack_loose", "gc", "receive", "config", "index_write"])
    op = {"k": kind}
    if kind in ("cas", "delete"):
        op["ref"] = rng.choice(refs)
        op["to"] = rng.randrange(ncommits)
    if kind == "set_new":
        op["ref"] = "refs/heads/" + rng.choice(["n1", "g/n2", "g/h/n3"])
        op["to"] = rng.randrange(ncommits)
    return {"setup": setup, "op": op, "fsync": rng.random() < 0.25}


def variant_scn(v: dict, name: str) -> Scn:
    def build(p):
        from dulwich.objects import Tag
        r = _init(p, fsync=v.get("fsync", False))
        st = {"r": r, "commits": []}
        ts = T0
        for s_ in v["setup"]:
            ts += 1
            a = s_["a"]
            if a == "commit":
                st["commits"].append(commit_files(r, {k: c.encode() for k, c in s_["files"].items()}, b"c", ts))
            elif a == "branch":
                r.refs[s_["name"].encode()] = st["commits"][s_["at"]]
            elif a == "lwtag":
                r.refs[s_["name"].encode()] = st["commits"][s_["at"]]
            elif a == "tag":
                c = st["commits"][s_["at"]]
                t = Tag()
                t.name, t.object, t.tagger, t.tag_time, t.tag_timezone, t.message = \
                    s_["name"].rsplit("/", 1)[1].encode(), (type(r[c]), c), ID, ts, 0, b"tag\n"
                r.object_store.add_object(t)
                r.refs[s_["name"].encode()] = t.id
            elif a == "pack_objects":
                r.object_store.pack_loose_objects()
            elif a == "repack":
                r.object_store.repack()
            elif a == "pack_refs":
                r.refs.pack_refs(all=False)
            elif a == "pack_refs_all":
                r.refs.pack_refs(all=True)
            elif a == "blob":
                r.object_store.add_object(_new_blob(f"unreachable {ts}\n".encode()))
        k = v["op"]["k"]
        if k in ("commit", "stage"):
            with open(os.path.join(p, "a.txt"), "wb") as f:
                f.write(b"variant change\n")
            if k == "commit":
                r.get_worktree().stage(["a.txt"])
        if k == "receive":
            from dulwich.objects import Blob, Commit, Tree
            old = r[r.refs[b"refs/heads/main"]]
            name, (mode, sha) = sorted((e.path, (e.mode, e.sha)) for e in r[old.tree].items() if e.mode & 0o100000)[0]
            base_blob = r[sha]
            nb = Blob.from_string(base_blob.data + b"received line\n")
            t = Tree()
            for e in r[old.tree].items():
                t.add(e.path, e.mode, nb.id if e.path == name else e.sha)
            c = Commit()
            c.tree, c.parents, c.author, c.committer = t.id, [old.id], ID, ID
            c.author_time = c.commit_time = ts + 9
            c.author_timezone = c.commit_timezone = 0
            c.message = b"received\n"
            st["pack"] = make_thin_pack(base_blob.id, base_blob.data, [c, t], nb.data)
            st["c3"], st["c2"] = c.id, old.id
        return st

    def op(st):
        r = st["r"]
        o = v["op"]
        k = o["k"]
        none = {"refs": {}, "plain": set()}
        if k == "commit":
            c = r.get_worktree().commit(message=b"v", committer=ID, author=ID, commit_timestamp=T0 + 99, commit_timezone=0,
                                        author_timestamp=T0 + 99, author_timezone=0)
            return {"refs": {"refs/heads/main": c.decode()}, "plain": set()}
        if k == "stage":
            r.get_worktree().stage(["a.txt"])
            return {"refs": {}, "plain": {"index"}}
        if k == "set_new":
            r.refs[o["ref"].encode()] = st["commits"][o["to"]]
            return {"refs": {o["ref"]: st["commits"][o["to"]].decode()}, "plain": set()}
        if k == "cas":
            old = r.refs.read_ref(o["ref"].encode())
            new = st["commits"][o["to"]]
            r.refs.set_if_equals(o["ref"].encode(), old, new)
            return {"refs": {o["ref"]: new.decode()}, "plain": set()}
        if k == "delete":
            del r.refs[o["ref"].encode()]
            return {"refs": {o["ref"]: None}, "plain": set()}
        if k == "pack_refs":
            r.refs.pack_refs(all=False)
            return none
        if k == "pack_refs_all":
            r.refs.pack_refs(all=True)
            return none
        if k == "add_object":
            r.object_store.add_object(_new_blob(b"variant fresh\n"))
            return none
        if k == "add_objects":
            return _sc_add_objects("loose")[1](st)
        if k == "repack":
            r.object_store.repack()
            return none
        if k == "pack_loose":
            r.object_store.pack_loose_objects()
            return none
        if k == "gc":
            from dulwich.gc import garbage_collect
            garbage_collect(r, grace_period=None)
            return none
        if k == "receive":
            return _sc_thin_pack("loose", True)[1](st)
        if k == "config":
            return _sc_config()[1](st)
        if k == "index_write":
            idx = r.open_index()
            for key in list(idx)[:1]:
                del idx[key]
            idx.write()
            return {"refs": {}, "plain": {"index"}}
        raise core.InfraError(f"unknown variant op {k}")
    return Scn(name, "variant-" + v["op"]["k"], build, op)


# ------------------------------------------------------------------------------------------------
# run: oracle + correspondence over every crash prefix

STREAM = "crash.oracle"


def _tok_ref(cn: Canon, v):
    if v is None or v == b"":
        return "-"
    if v.startswith(b"ref: "):
        n = v[5:].decode("utf-8", "replace")
        return f"y{cn.refs[n]}" if n in cn.refs else "y?"
    h = v.decode("ascii", "replace")
    return f"s{cn.objs[h]}" if h in cn.objs else "bad"


def correspond(ctx: core.Ctx, name: str, rec: Rec, cn: Canon, ev: Eval):
    """Model vs real, per crash prefix: the model's file system after j calls vs the canonicalised real
    listing; the objects / refs the model reads vs what the real Repo reads; `recoverableK` vs the oracle."""
    line = "c09.trace " + " ".join(cn.tok_spec() + [cn.tok_call(c) for c in cn.calls])
    out = ctx.driver.batch([line])[0]
    segs = out.split(" | ")
    case = {"scenario": name}
    if len(segs) != len(cn.calls) + 2 or "stuck" in segs:
        ctx.disagree("model.trace", case, out[:300], f"{len(cn.calls) + 1} prefix states", "py")
        return None
    head = dict(kv.split("=", 1) for kv in segs[0].split(" "))
    bad_js = {f[0] for f in ev.failures}
    inv = {v: k for k, v in cn.objs.items()}
    for j, seg in enumerate(segs[1:]):
        f = dict(kv.split("=", 1) for kv in seg.split(" "))
        ctx.count("model.prefix", (name, j), True, rec.scn.kind)
        real = cn.listing(ev.listings[j])
        model = dict(x.split("=", 1) for x in f["fs"].split(";") if x)
        if real is None:
            ctx.disagree("model.fs", {**case, "j": j}, "listing", "real state has a path outside the scenario's universe")
        else:
            diff = {k: (model.get(k), real.get(k)) for k in set(model) | set(real)
                    if not k.startswith("x") and model.get(k) != real.get(k)}   # `other` paths (dirs, reflogs) are not compared
            if diff:
                ctx.disagree("model.fs", {**case, "j": j}, str(sorted(diff.items()))[:300], "real listing differs")
        mvis = {int(x) for x in f["vis"].split(",") if x}
        rvis = {cn.objs[h] for h in ev.obs[j].get("vis", ())}
        if mvis != rvis and "vis" in ev.obs[j]:
            ctx.disagree("model.vis", {**case, "j": j}, sorted(mvis), sorted(rvis))
        if "refs" in ev.obs[j]:
            rrefs = {cn.refs[n]: _tok_ref(cn, v) for n, v in ev.obs[j]["refs"].items() if n in cn.refs}
            for kv in f["refs"].split(","):
                if not kv:
                    continue
                r_, v_ = kv.split(":", 1)
                if rrefs.get(int(r_), "-") != v_:
                    ctx.disagree("model.refs", {**case, "j": j, "ref": int(r_)}, v_, rrefs.get(int(r_), "-"))
        if (f["rec"] == "1") != (j not in bad_js):
            ctx.disagree("model.recoverable", {**case, "j": j}, f["rec"],
                         "oracle: " + "; ".join(x[1] + " " + x[2] for x in ev.failures if x[0] == j)[:200])
    if head["pre"] != "1":
        ctx.disagree("model.pre", case, "preK = false", "the recorded start state passes the oracle")
    if (head["check"] == "1") != (not ev.failures):
        ctx.disagree("model.check", case, f"checkProgram = {head['check']} (first rejected step {head['first']})",
                     f"oracle failures at prefixes {sorted(bad_js)}")
    return head


def power_loss_states(rec: Rec, j: int, files: dict):
    """Files whose last write before crash point j was not followed by an fsync (power-loss model: their
    data may be missing).  Only data paths matter (reflogs etc. are outside the property)."""
    dirty = set()
    marks = {}
    for pos, rel in rec.fsyncs:
        marks.setdefault(pos, []).append(rel)
    for i in range(j):
        # an fsync recorded when i calls were done happened before call i; one recorded at position j may not
        # have happened yet at this crash point (conservative: treated as not done)
        for rel in marks.get(i, []):
            dirty.discard(rel)
        c = rec.calls[i]
        if c[0] == "write":
            dirty.add(c[1])
        elif c[0] == "rename":
            if c[1] in dirty:
                dirty.discard(c[1])
                dirty.add(c[2])
            else:
                dirty.discard(c[2])
        elif c[0] == "unlink":
            dirty.discard(c[1])
    return sorted(d for d in dirty if d in files and classify_path(d)[0] not in ("other",))


def run_scenario(ctx: core.Ctx, scn: Scn, pre=None, case_extra=None, power_loss=False, no_temp=True, recover=True):
    """Record (or reuse `pre` = (rec, cn, ev)), evaluate every crash prefix, report."""
    w = os.path.join(str(ctx.scratch), "c09", scn.name)
    if pre is None or ctx.thorough:
        rec = record(scn, w) if pre is None else pre[0]
        if pre is None:
            with hermetic(Path(w) / "home"):
                cn = Canon(rec)
        else:
            cn = pre[1]
            w = os.path.dirname(rec.root)
        ev = evaluate(rec, w, ctx.thorough, universe=sorted(cn.objs))
    else:
        rec, cn, ev = pre
        w = os.path.dirname(rec.root)
    case0 = {"scenario": scn.name, **(case_extra or {})}
    for j, names in ev.fidelity:
        ctx.disagree("replay.fidelity", {**case0, "j": j}, "replayed prefix", f"live boundary state differs on {names}")
    for j in range(ev.states):
        ctx.count(STREAM, (scn.name, j, tuple(map(str, cn.calls[:j]))), True, rec.scn.kind)
    for j, clause, detail, subj, cls in ev.failures:
        ctx.oracle_fail(STREAM, {**case0, "j": j, "after_calls": [list(map(_short, c)) for c in rec.calls[max(0, j - 3):j]],
                                 "clause": clause, "subject": subj},
                        f"{scn.name}: crash after {j} calls: {clause}: {detail}", cls)
    head = correspond(ctx, scn.name, rec, cn, ev)
    if recover:
        recovery_runs(ctx, scn, rec, cn, ev, w, case0)
    # states holding stale lock/temp files: re-opening must not need them
    extra_states = 0
    with hermetic(Path(w) / "home"):
        for j, d in crash_states(rec, w):
            files = ev.listings[j]
            bad_here = {f[1] for f in ev.failures if f[0] == j}
            temps = [f for f in files if is_temp_name(f)]
            if no_temp and temps:
                d2 = os.path.join(w, "notemp")
                shutil.rmtree(d2, ignore_errors=True)
                shutil.copytree(d, d2, symlinks=True)
                for t in temps:
                    os.remove(os.path.join(control_dir(d2), t))
                res = oracle(rec, ev.before, d2, False)
                ctx.count("crash.no-temp", (scn.name, j), True, rec.scn.kind)
                extra_states += 1
                for clause, detail, subj in res:
                    if clause not in bad_here:
                        ctx.oracle_fail("crash.no-temp", {**case0, "j": j, "removed": temps, "clause": clause},
                                        f"{scn.name}: after removing the stale temp files of crash state {j}: {clause}: {detail}",
                                        f"needs-temp:{rec.scn.kind}:{clause}")
            if power_loss:
                lost = power_loss_states(rec, j, files)
                for sub in ([lost] if len(lost) <= 1 else [lost] + [[x] for x in lost]):
                    if not sub:
                        continue
                    d2 = os.path.join(w, "ploss")
                    shutil.rmtree(d2, ignore_errors=True)
                    shutil.copytree(d, d2, symlinks=True)
                    for t in sub:
                        with open(os.path.join(control_dir(d2), t), "wb"):
                            pass
                    res = oracle(rec, ev.before, d2, False)
                    ctx.count("crash.power-loss", (scn.name, j, tuple(sub)), True, rec.scn.kind)
                    for clause, detail, subj in res:
                        if clause not in bad_here:
                            ctx.oracle_fail("crash.power-loss", {**case0, "j": j, "zero_length": sub, "clause": clause},
                                            f"{scn.name}: power loss after {j} calls (unsynced files empty: {sub}): {clause}: {detail}",
                                            f"power-loss:{rec.scn.kind}:{clause}")
    return rec, cn, ev, head


def _short(x):
    return x if not isinstance(x, (bytes, bytearray)) else f"<{len(x)} bytes>"


# ------------------------------------------------------------------------------------------------
# recovery runs: what comes AFTER the crash.  On (a copy of) each crash state, in a fresh Repo object, the same
# operation is run again (the retry a user or a supervisor does) and a set of OTHER writers is run; each must
# either fail with an ordinary error or succeed — and in both cases leave a repository in which every ref names
# a present object with a complete closure, everything reachable in the crash state is still readable and
# nothing half-written is taken for valid data.  A lock file is never evidence that the object is there.

def leftover_kinds(rec: Rec, files: dict) -> tuple:
    """The kinds of stale temp/lock files a crash state holds (coverage + de-duplication key)."""
    out = set()
    for rel in files:
        if not is_temp_name(rel):
            continue
        m = re.match(r"^objects/([0-9a-f]{2})/([0-9a-f]{38})\.lock$", rel)
        if m:
            fin = rec.final_files.get(rel[:-5])
            pl = parse_loose(fin) if fin is not None else None
            out.add("objlock:" + (pl[1] if pl else "?"))
        elif rel.startswith("objects/pack/") and rel.endswith(".idx.lock"):
            out.add("idx.lock")
        elif rel.startswith("objects/tmp_pack_"):
            out.add("tmp_pack")
        elif rel.startswith("objects/pack/tmp"):
            out.add("tmp.pack")
        elif rel.startswith("refs/") and rel.endswith(".lock"):
            out.add("ref.lock")
        elif rel in ("index.lock", "packed-refs.lock", "shallow.lock", "config.lock", "HEAD.lock"):
            out.add(rel)
        else:
            out.add("other-temp")
    return tuple(sorted(out))


def _retry_state(rec: Rec, d: str) -> dict:
    R = _repo_mod()
    st = dict(rec.st_values)
    for k, path in rec.st_repos.items():
        st[k] = R.Repo(path)
    st["r"] = R.Repo(d)
    return st


def _close_state(st: dict):
    for k in sorted(st, key=lambda k: k != "served"):
        v = st[k]
        if hasattr(v, "close"):
            try:
                v.close()
            except Exception:
                pass


def _w_retry(rec, st):
    rec.scn.op(st)


def _w_commit_same_tree(rec, st):
    st["r"].get_worktree().commit(message=b"again, same tree", committer=ID, author=ID, commit_timestamp=T0 + 50,
                                  commit_timezone=0, author_timestamp=T0 + 50, author_timezone=0)


def _w_commit_other_tree(rec, st):
    r = st["r"]
    with open(os.path.join(r.path, "other.txt"), "wb") as f:
        f.write(b"another writer was here\n")
    wt = r.get_worktree()
    wt.stage(["other.txt"])
    wt.commit(message=b"other tree", committer=ID, author=ID, commit_timestamp=T0 + 51, commit_timezone=0,
              author_timestamp=T0 + 51, author_timezone=0)


def _pending_objects(rec: Rec):
    """The loose objects the recorded operation writes (from its completed run), as ShaFile objects."""
    from dulwich.objects import ShaFile
    out = []
    for c in rec.calls:
        if c[0] == "rename" and classify_path(c[2])[0] == "loose":
            pl = parse_loose(rec.final_files.get(c[2], b""))
            if pl is not None:
                tnum = {v.decode(): k for k, v in TYPE_NAMES.items()}[pl[1]]
                out.append(ShaFile.from_raw_string(tnum, pl[2]))
    return out


def _w_add_same_object(rec, st):
    objs = _pending_objects(rec) or [_new_blob()]
    for o in objs:
        st["r"].object_store.add_object(o)
    return [o.id.decode() for o in objs]


def _w_add_other_object(rec, st):
    b = _new_blob(b"a different object, from another writer\n")
    st["r"].object_store.add_object(b)
    return [b.id.decode()]


def _w_same_pack(rec, st):
    if "pack" in st:
        f = io.BytesIO(st["pack"])
        st["r"].object_store.add_thin_pack(f.read, None)
    else:
        objs = _pending_objects(rec) or [_new_blob()]
        st["r"].object_store.add_objects([(o, None) for o in objs])
        return [o.id.decode() for o in objs]


def _w_pack_loose(rec, st):
    st["r"].object_store.pack_loose_objects()


def _w_gc(rec, st):
    from dulwich.gc import garbage_collect
    garbage_collect(st["r"], grace_period=None)


WRITERS = [("retry", _w_retry), ("commit-same-tree", _w_commit_same_tree), ("commit-other-tree", _w_commit_other_tree),
           ("add-same-object", _w_add_same_object), ("add-other-object", _w_add_other_object),
           ("same-pack", _w_same_pack), ("pack-loose-objects", _w_pack_loose), ("gc", _w_gc)]

# scenarios whose crash states get ALL writers in the quick tier (they produce every leftover kind of interest);
# every scenario gets the retry on every crash state; thorough: all writers everywhere
QUICK_ALL_WRITERS = {"add_object_loose", "stage_loose", "commit_loose", "commit_mixed", "commit_initial", "set_ref_update_loose",
                     "delete_ref_both", "pack_refs_all_loose", "add_objects_pack_loose", "receive_pack_handler_mixed",
                     "thin_pack_direct_loose", "shallow_deepen_local", "config_write", "index_write"}


def recovery_run(rec: Rec, bf: Before, d: str, w: str, wname: str, wfn, baseline: dict, expected_new=()):
    """Run writer `wfn` on a copy of crash state `d`.  -> (outcome, problems)."""
    d2 = os.path.join(w, "recover")
    shutil.rmtree(d2, ignore_errors=True)
    shutil.copytree(d, d2, symlinks=True)
    st = _retry_state(rec, d2)
    outcome, added = "ok", None
    try:
        added = wfn(rec, st)
    except BaseException as e:  # noqa: BLE001 - an ordinary error is a legitimate outcome
        if isinstance(e, (KeyboardInterrupt, SystemExit)):
            raise
        outcome = "error:" + type(e).__name__
    finally:
        _close_state(st)
    problems = list(oracle(rec, bf, d2, False, post=baseline))
    if outcome == "ok":
        # success means the objects are really there (never "somebody holds the lock, so it must be there")
        R = _repo_mod()
        r = R.Repo(d2)
        try:
            for h in list(added or []) + (list(expected_new) if wname == "retry" else []):
                try:
                    tnum, raw = r.object_store.get_raw(h.encode())
                    if not _hash_ok(h, tnum, bytes(raw)):
                        problems.append(("success-without-object", f"{h}: bytes do not hash to the name", h))
                except BaseException as e:  # noqa: BLE001
                    if isinstance(e, (KeyboardInterrupt, SystemExit)):
                        raise
                    problems.append(("success-without-object",
                                     f"{wname} reported success but {h} is not readable: {type(e).__name__}", h))
        finally:
            r.close()
    return outcome, problems


# -- two-process form, without a crash: actor A (a real OS process) is paused between open(<sha>.lock) and the
#    rename, actor B performs the same operation to completion, then A is killed (SIGKILL: no cleanup runs)

def _actor_main():
    """Child process: run scenario `name`'s operation on the repository at `root`; pause for ever right before the
    rename of the lock file of the first loose object of type `otype`."""
    import time
    root, name, otype = sys.argv[1:4]
    scn = next(s_ for s_ in fixed_scenarios() if s_.name == name)
    st = json.loads(sys.argv[4])
    st = {k: (v.encode() if isinstance(v, str) else v) for k, v in st.items()}
    st["r"] = _repo_mod().Repo(root)

    def hook(k, pending):
        nm, paths = pending
        if nm in ("replace", "rename") and re.search(r"objects/[0-9a-f]{2}/[0-9a-f]{38}\.lock$", str(paths[0])):
            with open(os.path.join(root, paths[0]), "rb") as f:
                pl = parse_loose(f.read())
            if pl is not None and pl[1] == otype:
                sys.stdout.write("PAUSED " + str(paths[0]) + "\n")
                sys.stdout.flush()
                time.sleep(3600)
    with sched.Recorder(root, on_boundary=hook):
        scn.op(st)
    sys.stdout.write("DONE\n")
    sys.stdout.flush()


def two_process_runs(ctx: core.Ctx, fixed: dict):
    import select
    import signal
    import subprocess
    for name, otype in (("stage_loose", "blob"), ("commit_loose", "tree"), ("commit_loose", "commit")):
        rec, cn, ev = fixed[name]
        w = os.path.join(str(ctx.scratch), "c09", f"two-{name}-{otype}")
        shutil.rmtree(w, ignore_errors=True)
        os.makedirs(w)
        root = os.path.join(w, "repo")
        shutil.copytree(rec.start_copy, root, symlinks=True)
        case = {"scenario": name, "form": "two-process", "A_paused_before_rename_of": otype + " lock"}
        env = core.clean_env({"HOME": os.path.join(w, "home"), "XDG_CONFIG_HOME": os.path.join(w, "home", "xdg"),
                              "GIT_CONFIG_GLOBAL": os.path.join(w, "home", "gitconfig"), "GIT_AUTO_GC": "0",
                              "PYTHONPATH": os.pathsep.join([str(core.REPO), str(core.VERIF)])})
        os.makedirs(os.path.join(w, "home"), exist_ok=True)
        stj = json.dumps({k: (v.decode() if isinstance(v, bytes) else v) for k, v in rec.st_values.items()
                          if isinstance(v, (bytes, str, int))})
        a = subprocess.Popen([core.PY, "-c", "from harness.props import c09; c09._actor_main()", root, name, otype, stj],
                             stdout=subprocess.PIPE, stderr=subprocess.DEVNULL, env=env)
        try:
            rd, _, _ = select.select([a.stdout], [], [], 60)
            line = a.stdout.readline().decode() if rd else ""
            if not line.startswith("PAUSED"):
                ctx.notes.append(f"two-process {name}/{otype}: actor A did not reach the pause point ({line.strip()!r})")
                continue
            lock = line.split(" ", 1)[1].strip()
            with hermetic(Path(w) / "home"):
                st = _retry_state(rec, root)
                outcome = "ok"
                try:
                    rec.scn.op(st)
                except BaseException as e:  # noqa: BLE001
                    if isinstance(e, (KeyboardInterrupt, SystemExit)):
                        raise
                    outcome = "error:" + type(e).__name__
                finally:
                    _close_state(st)
        finally:
            a.send_signal(signal.SIGKILL)
            a.wait()
        with hermetic(Path(w) / "home"):
            problems = oracle(rec, ev.before, root, ctx.thorough, post=ev.obs[0].get("closure", {}))
        ctx.count("recovery.two-process", (name, otype), True, f"B:{outcome}")
        for clause, detail, subj in problems:
            ctx.oracle_fail("recovery.two-process", {**case, "A_lock": lock, "B_outcome": outcome, "clause": clause},
                            f"{name}: A paused holding {lock}, B ran the same operation ({outcome}), A killed: {clause}: {detail}",
                            f"two-process:{clause}")


def record_retry(rec: Rec, d: str, w: str):
    """Re-run the scenario's operation on (a copy of) crash state `d` under the recorder.
    -> (raw calls issued before it returned or raised, outcome)."""
    d2 = os.path.join(w, "retry-rec")
    shutil.rmtree(d2, ignore_errors=True)
    shutil.copytree(d, d2, symlinks=True)
    files, _ = scan(d2)
    st = _retry_state(rec, d2)
    sr = SnapRecorder(d2, files)
    outcome = "ok"
    try:
        with sr:
            try:
                rec.scn.op(st)
                sr.finish()
            except BaseException as e:  # noqa: BLE001 - an ordinary error ends the retry
                if isinstance(e, (KeyboardInterrupt, SystemExit)):
                    raise
                outcome = "error:" + type(e).__name__
                sr.pending_skip = None
    finally:
        _close_state(st)
    return sr.calls, outcome


# scenarios whose retries (one per crash prefix, the completed run excluded: its retry is a NEW operation) are
# recorded into Gen/ and discharged by `retryOK … = true`: the loose-object lock mechanism
RETRY_SCENARIOS = ["add_object_loose", "commit_loose", "commit_initial", "commit_mixed", "tag_create",
                   "shallow_initial_subprocess", "shallow_initial_local", "shallow_deepen_subprocess", "shallow_unshallow_local"]   # (stage: the index bytes of a re-run differ by stat data)


def add_object_lock_handling(repo: Path) -> bool:
    """AST obligation on DiskObjectStore.add_object: the GitFile write is not wrapped in a handler that swallows
    FileLocked / FileExistsError (a held or stale `<sha>.lock` must surface as an error, never as "already there").
    -> True when some enclosing `try` swallows it."""
    import ast
    from .. import translate as T
    fn = T.find_def(T.module_ast(Path(repo) / "dulwich" / "object_store.py"), "DiskObjectStore.add_object")
    catching = {"FileLocked", "FileExistsError", "OSError", "IOError", "EnvironmentError", "Exception", "BaseException"}
    found, swallowed = [False], [False]

    def names(t):
        if t is None:
            return {"<bare>"}
        if isinstance(t, ast.Tuple):
            return set().union(*(names(e) for e in t.elts))
        return {t.id} if isinstance(t, ast.Name) else ({t.attr} if isinstance(t, ast.Attribute) else {"?"})

    def is_gitfile_with(n):
        return isinstance(n, ast.With) and any(
            isinstance(i.context_expr, ast.Call) and getattr(i.context_expr.func, "id", getattr(i.context_expr.func, "attr", "")) == "GitFile"
            for i in n.items)

    def walk(node, handlers):
        for ch in ast.iter_child_nodes(node):
            if isinstance(ch, ast.Try):
                for b in ch.body:
                    walk_stmt(b, handlers + [ch.handlers])
                for part in (ch.handlers, ch.orelse, ch.finalbody):
                    for b in part:
                        walk(b, handlers) if isinstance(b, ast.ExceptHandler) else walk_stmt(b, handlers)
            else:
                walk_stmt(ch, handlers)

    def walk_stmt(n, handlers):
        if is_gitfile_with(n):
            found[0] = True
            for hs in handlers:
                for h in hs:
                    ns = names(h.type)
                    reraises = any(isinstance(x, ast.Raise) for x in ast.walk(h))
                    if (ns & catching or "<bare>" in ns) and not reraises:
                        swallowed[0] = True
        walk(n, handlers)
    walk(fn, [])
    if not found[0]:
        raise TranslateError("DiskObjectStore.add_object: `with GitFile(...)` write not found")
    return swallowed[0]


def classify_recovery(rec: Rec, state_files: dict, wname: str, outcome: str, clause: str) -> str:
    idx = lambda fs: {f for f in fs if f.startswith("objects/pack/") and f.endswith(".idx")}  # noqa: E731
    if wname == "retry" and outcome == "ok" and rec.scn.kind == "shallow_fetch" and rec.intent.get("refs") \
            and clause in ("object-unreadable", "history-walk-fails", "git-fsck") \
            and idx(state_files) - idx(rec.start_files) and state_files.get("shallow") == rec.start_files.get("shallow"):
        # an INITIAL depth fetch crashed after its pack was installed and before the shallow file was written; the
        # retry finds the tip in the store, wants nothing, learns no graft point — and the caller sets the ref
        # (fixed by /repo PENDING-1: graft points are written before the pack; the class names a regression)
        return "retry-depth-fetch-after-pack-before-shallow"
    return f"recovery:{wname}:{clause}"


def recovery_runs(ctx: core.Ctx, scn: Scn, rec: Rec, cn: Canon, ev: Eval, w: str, case0: dict):
    all_writers = (ctx.thorough and not scn.kind.startswith("variant-")) or scn.name in QUICK_ALL_WRITERS
    slow = scn.kind == "shallow_fetch" and rec.intent.get("via") not in ("LocalGitClient.fetch",)
    bad_js = {f[0] for f in ev.failures}
    seen_sig = set()
    last = len(rec.calls)
    vis0, visn = ev.obs[0].get("vis", set()), ev.obs[last].get("vis", set())
    expected_new = sorted(visn - vis0) if last not in bad_js else []
    kinds = ctx.extra_cov.setdefault("recovery_leftovers", {})
    outcomes = ctx.extra_cov.setdefault("recovery_outcomes", {})
    with hermetic(Path(w) / "home"):
        for j, d in crash_states(rec, w):
            if j in bad_js or "closure" not in ev.obs[j]:
                continue                      # the crash state itself already violates the property
            files = ev.listings[j]
            sig = leftover_kinds(rec, files)
            for k in sig:
                kinds[k] = kinds.get(k, 0) + 1
            first_of_sig = (sig, j == last) not in seen_sig
            seen_sig.add((sig, j == last))
            if slow and not ctx.thorough and not first_of_sig:
                continue
            for wname, wfn in WRITERS:
                if wname != "retry" and not (all_writers and first_of_sig and (sig or j in (0, last))):
                    continue
                outcome, problems = recovery_run(rec, ev.before, d, w, wname, wfn, ev.obs[j]["closure"], expected_new)
                ctx.count("recovery", (scn.name, j, wname), True, f"{wname}:{outcome.split(':')[0]}")
                key = f"{wname}:{outcome}"
                outcomes[key] = outcomes.get(key, 0) + 1
                for clause, detail, subj in problems:
                    ctx.oracle_fail("recovery", {**case0, "j": j, "crash_after": [list(map(_short, c)) for c in rec.calls[max(0, j - 3):j]],
                                                 "leftovers": [f for f in files if is_temp_name(f)], "writer": wname,
                                                 "outcome": outcome, "clause": clause},
                                    f"{scn.name}: crash after {j} calls, then {wname} ({outcome}): {clause}: {detail}",
                                    classify_recovery(rec, files, wname, outcome, clause))


def run(ctx: core.Ctx):
    ctx.assumptions += [
        "crash model: a crash leaves exactly the effects of a prefix of the operation's file-system calls "
        "(rename/unlink/mkdir/rmdir as recorded by harness/sched.py; content writes are observed at each recorded "
        "boundary and right after each open(), not per write(2) — a torn single write is not enumerated)",
        "power-loss variant: only for scenarios run with core.fsyncObjectFiles=true; files not fsynced since their last "
        "write may be empty; un-synced directory entries (renames) are assumed durable (dulwich never fsyncs directories)",
        "the checker's soundness theorem quantifies over all start states and crash points; the scenarios are a sample",
        "reflog and other files outside refs/objects/index/config are outside the property (model: `other` paths)",
        "recovery runs: on every crash state the same operation is re-run in a fresh Repo object (all scenarios, all "
        "prefixes; smart-transport shallow scenarios: one state per leftover signature in quick) and, for the scenarios "
        "in QUICK_ALL_WRITERS (thorough: all fixed scenarios), seven other writers on one state per leftover signature; "
        "an ordinary exception is an accepted outcome; the post state must pass the oracle (refs complete, everything "
        "reachable in the crash state still readable, nothing half-written listed) and a successful writer's objects "
        "must be readable; the two-process form uses a real child process killed with SIGKILL",
    ]
    fixed = recorded_fixed()
    _run_corpus(ctx, fixed)
    for name, what, rec, cn, ev in _CACHE.get("anomalies", []):
        ctx.notes.append(f"{name}: transport anomaly while recording ({what}); scenario recorded again")
        if ev is not None:
            for j, clause, detail, subj, cls in ev.failures:
                ctx.count(STREAM, (name, "anomaly", j, clause), True, "anomaly")
                ctx.oracle_fail(STREAM, {"scenario": name, "j": j, "anomaly": what, "clause": clause,
                                         "program": [list(map(_short, c)) for c in rec.calls]},
                                f"{name}: after {j} of {len(rec.calls)} calls: {clause}: {detail}", cls)
    verdicts = {}
    for scn in fixed_scenarios():
        rec, cn, ev, head = run_scenario(ctx, scn, pre=fixed[scn.name], power_loss=scn.name.endswith("_fsync"))
        verdicts[scn.name] = {"calls": len(rec.calls), "crash_states": ev.states,
                              "checker": None if head is None else head["check"],
                              "oracle_failures": sorted({f[4] for f in ev.failures})}
        if len(ctx.samples) < 3 and scn.name in ("commit_loose", "delete_ref_both", "repack_mixed"):
            ctx.sample({"scenario": scn.name, "program": [cn.tok_call(c) for c in cn.calls],
                        "oracle_failures": [list(f[:3]) for f in ev.failures][:3]})
    import gc
    gc.collect()
    two_process_runs(ctx, fixed)
    ctx.extra_cov["scenarios"] = verdicts
    ctx.extra_cov["programs_recorded"] = len(verdicts)
    ctx.extra_cov["generated_obligations"] = ("Gen/TracesChecked.lean: one `checkProgram … = true/false := by decide +kernel` per "
                                              f"recorded scenario ({len(verdicts)}), `safe_checked`, `flagged_rejected`, `all_pre`, and a "
                                              "`…_counterexample` per flagged scenario; a failing one fails the build of Props/C09.lean")
    n = ctx.budget(20, mult=40)
    _run_variants(ctx, n)


def _run_variants(ctx: core.Ctx, n: int, thorough_oracle=False):
    kinds = {}
    for i in range(n):
        v = gen_variant(ctx.rng)
        scn = variant_scn(v, f"variant{i:03d}")
        try:
            rec, cn, ev, head = run_scenario(ctx, scn, case_extra={"variant": v}, power_loss=v.get("fsync", False))
        except TranslateError as e:
            ctx.disagree("recorder", {"variant": v}, "complete program", f"TranslateError: {e}")
            continue
        kinds[v["op"]["k"]] = kinds.get(v["op"]["k"], 0) + 1
        if i % 20 == 19:
            import gc
            gc.collect()
        shutil.rmtree(os.path.join(str(ctx.scratch), "c09", scn.name), ignore_errors=True)
    ctx.extra_cov["variant_ops"] = kinds


def _run_corpus(ctx: core.Ctx, fixed: dict):
    d = core.VERIF / "corpus" / "C09"
    if not d.exists():
        return
    for f in sorted(d.glob("*.json")):
        c = json.loads(f.read_text())
        name = c.get("scenario")
        if c.get("stream") == "recovery" or c.get("class", "").startswith("retry-"):
            ctx.count("corpus", f.name, True, "documented (exercised by the recovery stream)")
            continue
        if c.get("force") == "slow-can_read":
            _forced_race(ctx, c, f.name)
            continue
        if name not in fixed:
            ctx.notes.append(f"corpus {f.name}: unknown scenario {name}")
            continue
        rec, cn, ev = fixed[name]
        hit = [x for x in ev.failures if x[4] == c.get("class")]
        expect_holds = c.get("expect") == "holds"      # witness of a FIXED finding: must not fail any more
        ctx.count("corpus", f.name, True, ("still-fails" if hit else "holds") + ("/expected-holds" if expect_holds else ""))
        if not hit and not expect_holds:
            ctx.notes.append(f"corpus witness {f.name} no longer fails (class {c.get('class')})")
        # (a regression is reported by the crash.oracle stream itself: fixed findings suppress nothing)


@contextlib.contextmanager
def slow_can_read(delay: float):
    """Make the smart-transport clients poll late (the server's answer is already there when they look): the
    deterministic way to hit the window that otherwise depends on scheduling."""
    import time
    from dulwich.client import SubprocessGitClient, TCPGitClient
    saved = []
    for cls in (TCPGitClient, SubprocessGitClient):
        orig = cls._connect
        saved.append((cls, orig))

        def _connect(self, *a, _orig=orig, **k):
            proto, can_read, err = _orig(self, *a, **k)
            if can_read is None:
                return proto, can_read, err
            return proto, (lambda: (time.sleep(delay), can_read())[1]), err
        cls._connect = _connect
    try:
        yield
    finally:
        for cls, orig in saved:
            cls._connect = orig


def _forced_race(ctx: core.Ctx, c: dict, fname: str):
    scn = next((s_ for s_ in fixed_scenarios() if s_.name == c["scenario"]), None)
    if scn is None:
        ctx.notes.append(f"corpus {fname}: unknown scenario")
        return
    w = os.path.join(str(ctx.scratch), "c09", "forced-" + scn.name)
    try:
        with slow_can_read(0.25):
            rec = record(scn, w)
    except (AssertionError, OSError, KeyError) as e:
        ctx.notes.append(f"corpus {fname}: the delayed exchange raised {type(e).__name__}: {e}")
        ctx.count("corpus", fname, True, "raised")
        return
    ev = evaluate(rec, w, False)
    hit = [x for x in ev.failures if x[4] == c.get("class")]
    expect_holds = c.get("expect") == "holds"        # regression case of a FIXED finding
    if rec.intent.get("anomaly"):
        ctx.notes.append(f"corpus {fname}: the late-polling client lost a line of the server's answer ({rec.intent['anomaly']})")
        if expect_holds and not ev.failures:
            # e.g. a dropped `unshallow` line leaves a consistent (still shallow) repository: no crash-state failure,
            # but the exchange is wrong all the same
            ctx.oracle_fail("corpus", {"scenario": scn.name, "force": c["force"]},
                            f"{scn.name} with a late-polling client: the fetch result lacks a shallow/unshallow line of the server's answer",
                            "smart-fetch-shallow-line-lost-in-negotiation")
    ctx.count("corpus", fname, True, ("still-fails" if hit else "holds") + ("/expected-holds" if expect_holds else ""))
    for j, clause, detail, subj, cls in ev.failures:
        ctx.oracle_fail("corpus", {"scenario": scn.name, "force": c["force"], "j": j, "clause": clause},
                        f"{scn.name} with a late-polling client: after {j} of {len(rec.calls)} calls: {clause}: {detail}", cls)
    if not hit and not expect_holds:
        ctx.notes.append(f"corpus witness {fname} no longer fails (class {c.get('class')})")


def search(ctx: core.Ctx):
    """Failing-input search after a broken obligation / correspondence: many more seeded variants."""
    _run_variants(ctx, ctx.budget(40, mult=4))


def replay(ctx: core.Ctx, data: dict) -> int:
    c = data.get("case", {})
    if "variant" in c:
        scn = variant_scn(c["variant"], "replay")
    else:
        scn = next((s for s in fixed_scenarios() if s.name == c.get("scenario")), None)
    if scn is None:
        print("replay: unknown scenario", c.get("scenario"))
        return 2
    scn.name = "replay"
    ctx.known = []     # a replay reports every failure, known or not
    power = data.get("stream") == "crash.power-loss" or c.get("variant", {}).get("fsync", False) \
        or str(c.get("scenario", "")).endswith("_fsync")
    rec, cn, ev, head = run_scenario(ctx, scn, power_loss=power)
    for f in ctx.oracle_failures:
        print(f"replay: [{f['stream']}] {f['what'][:300]} [{f['class']}]")
    if ctx.oracle_failures:
        print(f"VIOLATION property=C09 replay={data.get('_path', '<replayed>')}")
        return 1
    print(f"replay: property holds on all {ev.states} crash states of this scenario")
    return 0
