"""C14 — optional acceleration data (commit-graph, multi-pack-index, pack bitmaps, packed-refs, pack index
version) never changes any answer; stale / mismatched files are ignored or rejected, never trusted.

Model: lean/DulwichModel/Model/{Accel,Ewah,CommitGraphFmt,Midx}.lean; theorems: Props/C14.lean.
Tie: translate() regenerates Gen/Accel.lean (GRAPH_* markers, EWAH word layout, chunk ids, header sizes);
run() drives
  * FORMAT streams  model vs real, byte for byte and cross-decoding (EWAH, commit-graph file, MIDX lookup,
                    bitmap header gate, loose/packed ref layering), and
  * the WITH/WITHOUT oracle in the property's own words on the REAL code: twin repositories receive the same
    logical operations; one of them additionally gets acceleration files (written by dulwich or C git, left to
    go stale, or copied in from elsewhere); every query of the property's list is asked of both and the PAIR is
    compared.  Any difference is a violation.
"""
from __future__ import annotations

import ast
from pathlib import Path

from .. import core, translate as T
from ..core import hx, unhx

MOD = "c14"


# ------------------------------------------------------------------------------------------------
# translator

def _shift_consts(func: ast.AST, op) -> list[int]:
    out = []
    for n in ast.walk(func):
        if isinstance(n, ast.BinOp) and isinstance(n.op, op) and isinstance(n.right, ast.Constant) \
                and isinstance(n.right.value, int):
            out.append((n.lineno, n.col_offset, n.right.value))
    return [v for _, _, v in sorted(out)]


def _expect(cond, msg):
    if not cond:
        raise T.TranslateError(msg)


def _cg_writer_shape(wr: ast.AST) -> dict:
    """The parent-encoding `if len(entry.parents) == k … else …` ladder of CommitGraph.write_to_file:
    for each branch which parent indices are looked up and what the default of the lookup is."""
    ladder = None
    for n in ast.walk(wr):
        if isinstance(n, ast.If) and isinstance(n.test, ast.Compare) and isinstance(n.test.left, ast.Call) \
                and isinstance(n.test.left.func, ast.Name) and n.test.left.func.id == "len" \
                and ast.unparse(n.test.left.args[0]) == "entry.parents" and T.eval_literal(n.test.comparators[0]) == 0:
            ladder = n
            break
    _expect(ladder is not None, "write_to_file: `if len(entry.parents) == 0` ladder not found")
    branches = []
    node = ladder
    while True:
        k = T.eval_literal(node.test.comparators[0])
        _expect(isinstance(node.test.ops[0], ast.Eq), "write_to_file: parent ladder uses a comparison other than ==")
        branches.append((k, node.body))
        if len(node.orelse) == 1 and isinstance(node.orelse[0], ast.If):
            node = node.orelse[0]
        else:
            branches.append(("else", node.orelse))
            break

    def slots(body):
        got = {}
        for st in body:
            if isinstance(st, ast.Assign) and isinstance(st.targets[0], ast.Name) and st.targets[0].id in ("parent1_pos", "parent2_pos"):
                v = st.value
                if isinstance(v, ast.Name):
                    got[st.targets[0].id] = ("const", v.id)
                elif isinstance(v, ast.Call) and ast.unparse(v.func) == "oid_to_index.get":
                    idx = v.args[0]
                    _expect(isinstance(idx, ast.Subscript) and ast.unparse(idx.value) == "entry.parents",
                            f"write_to_file: unexpected lookup key {ast.unparse(idx)}")
                    got[st.targets[0].id] = ("lookup", T.eval_literal(idx.slice), ast.unparse(v.args[1]))
                else:
                    raise T.TranslateError(f"write_to_file: unexpected parent slot value {ast.unparse(v)}")
        _expect(set(got) == {"parent1_pos", "parent2_pos"}, f"write_to_file: branch does not set both slots: {got}")
        return got["parent1_pos"], got["parent2_pos"]
    shape = {}
    for k, body in branches:
        shape[k] = slots(body)
    return shape


def translate(repo: Path) -> dict:
    cg = T.module_ast(repo / "dulwich" / "commit_graph.py")
    bm = T.module_ast(repo / "dulwich" / "bitmap.py")
    mx = T.module_ast(repo / "dulwich" / "midx.py")
    c = lambda name: T.const_value(cg, name)  # noqa: E731
    # ---- commit-graph writer shape -------------------------------------------------------------
    wr = T.find_def(cg, "CommitGraph.write_to_file")
    shape = _cg_writer_shape(wr)
    _expect(set(shape) == {0, 1, 2, "else"}, f"write_to_file: parent ladder has branches {sorted(map(str, shape))}")
    miss = ("const", "GRAPH_PARENT_MISSING")
    _expect(shape[0] == (miss, miss), f"write_to_file: 0-parent branch is {shape[0]}")
    _expect(shape[1] == (("lookup", 0, "GRAPH_PARENT_MISSING"), miss), f"write_to_file: 1-parent branch is {shape[1]}")
    _expect(shape[2] == (("lookup", 0, "GRAPH_PARENT_MISSING"), ("lookup", 1, "GRAPH_PARENT_MISSING")),
            f"write_to_file: 2-parent branch is {shape[2]}")
    # the >2-parent branch as coded: which two parents are stored (the model's `octopusSlots`)
    oc = shape["else"]
    _expect(all(s[0] == "lookup" and s[2] == "GRAPH_PARENT_MISSING" for s in oc),
            f"write_to_file: >2-parent branch is {oc} (the model knows only 'store two looked-up parents'; "
            f"an EDGE-chunk writer needs a new model)")
    nchunks = None
    for n in ast.walk(wr):
        if isinstance(n, ast.Assign) and ast.unparse(n.targets[0]) == "toc_size":
            nchunks = T.eval_literal(n.value)
    _expect(nchunks is not None, "write_to_file: toc_size not found")
    hdr = None
    for n in ast.walk(wr):
        if isinstance(n, ast.Assign) and ast.unparse(n.targets[0]) == "header_size":
            hdr = T.eval_literal(n.value)
    _expect(hdr is not None, "write_to_file: header_size not found")
    wr_shifts = _shift_consts(wr, ast.LShift) + _shift_consts(wr, ast.RShift)
    _expect(wr_shifts == [2, 32], f"write_to_file: generation/time shifts {wr_shifts}")
    rd = T.find_def(cg, "CommitGraph._parse_chunks")
    rd_consts = T.int_constants(rd)
    _expect(rd_consts.count(16) == 2 and 8 in rd_consts, f"_parse_chunks: record layout constants {rd_consts}")
    rd_src = ast.unparse(rd)
    for frag in ("parent1_pos < GRAPH_PARENT_MISSING", "parent2_pos < GRAPH_PARENT_MISSING",
                 "parent2_pos >= GRAPH_EXTRA_EDGES_NEEDED", "parent2_pos & ~GRAPH_EXTRA_EDGES_NEEDED",
                 "parent1_pos >= len(oids)", "parent2_pos >= len(oids)"):
        _expect(frag in rd_src, f"_parse_chunks: `{frag}` not found")
    ex_src = ast.unparse(T.find_def(cg, "CommitGraph._parse_extra_edges"))
    for frag in ("offset = index * 4", "offset + 4 <= len(edge_data)", "parent_pos & GRAPH_LAST_EDGE",
                 "parent_pos &= ~GRAPH_LAST_EDGE", "parent_pos < len(oids)", "CHUNK_EXTRA_EDGE_LIST not in self.chunks"):
        _expect(frag in ex_src, f"_parse_extra_edges: `{frag}` not found")
    gp_src = ast.unparse(T.find_def(cg, "CommitGraph.get_parents"))
    _expect("entry.parents if entry else None" in gp_src, "get_parents: shape changed")
    # ---- EWAH ---------------------------------------------------------------------------------
    enc = T.find_def(bm, "_encode_ewah_words")
    enc_l = _shift_consts(enc, ast.LShift)
    _expect(enc_l == [33, 1, 33, 1], f"_encode_ewah_words: shifts {enc_l}")
    ones = {v for v in T.int_constants(enc) if v > 2 ** 32}
    _expect(len(ones) == 1, f"_encode_ewah_words: all-ones word constants {ones}")
    dec = T.find_def(bm, "EWAHBitmap._decode")
    dec_r = _shift_consts(dec, ast.RShift)
    _expect(dec_r == [1, 33], f"EWAHBitmap._decode: shifts {dec_r}")
    dec_consts = T.int_constants(dec)
    mask = [v for v in dec_consts if v > 2 ** 16]
    _expect(mask == [0xFFFFFFFF], f"EWAHBitmap._decode: running_len mask {mask}")
    _expect(dec_consts.count(64) >= 5 and 63 in dec_consts, f"EWAHBitmap._decode: word size constants {dec_consts}")
    dec_src = ast.unparse(dec)
    for frag in ("current_bit + run_bits > max_bits", "current_bit + 64 > max_bits", "(bit_count + 63) // 64 * 64"):
        _expect(frag in dec_src, f"EWAHBitmap._decode: `{frag}` not found")
    # ---- bitmap header gate ---------------------------------------------------------------------
    rb_src = ast.unparse(T.find_def(bm, "read_bitmap_file"))
    gate = "pack_checksum is not None and stored_pack_checksum != pack_checksum"
    _expect(gate in rb_src, "read_bitmap_file: checksum gate not found")
    pk = T.module_ast(repo / "dulwich" / "pack.py")
    pb_src = ast.unparse(T.find_def(pk, "Pack.bitmap"))
    _expect("pack_checksum=self.get_stored_checksum()" in pb_src and "except ChecksumMismatch" in pb_src,
            "Pack.bitmap: does not pass the pack checksum / does not handle ChecksumMismatch")
    # ---- MIDX ---------------------------------------------------------------------------------
    mo = T.find_def(mx, "MultiPackIndex.object_offset")
    mo_src = ast.unparse(mo)
    for frag in ("0 if first_byte == 0 else self._fanout_table[first_byte - 1]", "self._fanout_table[first_byte]",
                 "while start_idx < end_idx", "(start_idx + end_idx) // 2", "start_idx = mid + 1", "end_idx = mid"):
        _expect(frag in mo_src, f"object_offset: `{frag}` not found")
    gi = T.find_def(mx, "MultiPackIndex._get_pack_info")
    gi_consts = [v for v in T.int_constants(gi) if v >= 2 ** 16]
    _expect(gi_consts == [0x80000000, 0x7FFFFFFF], f"_get_pack_info: large-offset masks {gi_consts}")
    wm = T.find_def(mx, "write_midx")
    wm_src = ast.unparse(wm)
    _expect(wm_src.count("offset >= 2 ** 31") == 3 and "2147483648 | large_offset_index" in wm_src.replace("0x80000000", "2147483648"),
            "write_midx: large-offset threshold/flag changed")
    # ---- refs layering --------------------------------------------------------------------------
    rf = T.module_ast(repo / "dulwich" / "refs.py")
    rr_src = ast.unparse(T.find_def(rf, "RefsContainer.read_ref"))
    _expect("contents = self.read_loose_ref(refname)" in rr_src and "if not contents" in rr_src
            and "self.get_packed_refs().get(refname, None)" in rr_src, "RefsContainer.read_ref: loose-then-packed shape changed")

    def b(name, tree=cg):
        return T.lean_bytes(T.const_value(tree, name))
    src = T.lean_header("dulwich/commit_graph.py (GRAPH_*, chunk ids, write_to_file / _parse_chunks shapes), "
                        "dulwich/bitmap.py (EWAH layout, MAX_LITERAL_WORDS, header), dulwich/midx.py (chunk ids, masks)") + f"""
namespace Dulwich.Gen.Accel
/-! commit-graph -/
def graphParentMissing : Nat := {c("GRAPH_PARENT_MISSING")}
def graphParentNone : Nat := {c("GRAPH_PARENT_NONE")}
def graphExtraEdgesNeeded : Nat := {c("GRAPH_EXTRA_EDGES_NEEDED")}
def graphLastEdge : Nat := {c("GRAPH_LAST_EDGE")}
def cgSignature : List UInt8 := {b("COMMIT_GRAPH_SIGNATURE")}
def cgVersion : Nat := {c("COMMIT_GRAPH_VERSION")}
def hashVersionSha1 : Nat := {c("HASH_VERSION_SHA1")}
def hashVersionSha256 : Nat := {c("HASH_VERSION_SHA256")}
def chunkOidFanout : List UInt8 := {b("CHUNK_OID_FANOUT")}
def chunkOidLookup : List UInt8 := {b("CHUNK_OID_LOOKUP")}
def chunkCommitData : List UInt8 := {b("CHUNK_COMMIT_DATA")}
def chunkExtraEdges : List UInt8 := {b("CHUNK_EXTRA_EDGE_LIST")}
/-- `header_size` and `toc_size` of `write_to_file` -/
def cgHeaderSize : Nat := {hdr}
def cgTocSize : Nat := {nchunks}
/-- which parents the writer stores for a commit with more than two parents (indices into `entry.parents`) -/
def octopusSlot1 : Nat := {oc[0][1]}
def octopusSlot2 : Nat := {oc[1][1]}
/-- `entry.generation << N`, `entry.commit_time >> M` -/
def cgGenShift : Nat := {wr_shifts[0]}
def cgTimeShift : Nat := {wr_shifts[1]}
/-! EWAH -/
def maxLiteralWords : Nat := {T.const_value(bm, "MAX_LITERAL_WORDS")}
def ewahAllOnes : Nat := {ones.pop()}
/-- `len(literals) << N`, `run_length << M` in `_encode_ewah_words` -/
def ewahLitShiftEnc : Nat := {enc_l[0]}
def ewahRunShiftEnc : Nat := {enc_l[1]}
/-- `(rlw >> N) & MASK`, `rlw >> M` in `EWAHBitmap._decode` -/
def ewahRunShiftDec : Nat := {dec_r[0]}
def ewahLitShiftDec : Nat := {dec_r[1]}
def ewahRunMask : Nat := {mask[0]}
def bitmapSignature : List UInt8 := {b("BITMAP_SIGNATURE", bm)}
def bitmapVersion : Nat := {T.const_value(bm, "BITMAP_VERSION")}
/-! multi-pack-index -/
def midxSignature : List UInt8 := {b("MIDX_SIGNATURE", mx)}
def midxVersion : Nat := {T.const_value(mx, "MIDX_VERSION")}
def midxLargeFlag : Nat := {gi_consts[0]}
def midxLargeMask : Nat := {gi_consts[1]}
end Dulwich.Gen.Accel
"""
    return {"Accel": src}
