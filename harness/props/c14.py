"""C14 — optional acceleration data (commit-graph, multi-pack-index, pack bitmaps, packed-refs, pack index
version) never changes any answer; stale / mismatched files are ignored or rejected, never trusted.

Model: lean/DulwichModel/Model/{Accel,Ewah,CommitGraphFmt,Midx}.lean; theorems: Props/C14.lean.
Tie: translate() regenerates Gen/Accel.lean (GRAPH_* markers, EWAH word layout, chunk ids, header sizes);
run() drives
  * FORMAT streams  model vs real, byte for byte and cross-decoding (EWAH, commit-graph file, MIDX lookup,
                    bitmap header gate, loose/packed ref layering), and
  * the WITH/WITHOUT oracle in the property's own words on the REAL code: twin repositories receive the same
    logical operations; one of them additionally gets acceleration files (written by dulwich or C git, left to
    go stale, or copied in from elsewhere); every query of the property's list is asked of both and the PAIR is
    compared.  Any difference is a violation.
"""
from __future__ import annotations

import ast
import re
from pathlib import Path

from .. import core, translate as T
from ..core import hx, unhx

MOD = "c14"


# ------------------------------------------------------------------------------------------------
# translator

def _shift_consts(func: ast.AST, op) -> list[int]:
    out = []
    for n in ast.walk(func):
        if isinstance(n, ast.BinOp) and isinstance(n.op, op) and isinstance(n.right, ast.Constant) \
                and isinstance(n.right.value, int):
            out.append((n.lineno, n.col_offset, n.right.value))
    return [v for _, _, v in sorted(out)]


def _expect(cond, msg):
    if not cond:
        raise T.TranslateError(msg)


def _cg_writer_shape(wr: ast.AST) -> dict:
    """The parent-encoding `if entry.parents is None … elif len(entry.parents) == k … else …` ladder of
    CommitGraph.write_to_file: for each branch how the two slots are filled:
    ("const", NAME) | ("lookup", i) = parent_pos(entry.parents[i]) | ("edges",) = GRAPH_EXTRA_EDGES_NEEDED | len(extra_edges)."""
    ladder = None
    for n in ast.walk(wr):
        if isinstance(n, ast.If) and ast.unparse(n.test) == "entry.parents is None":
            ladder = n
            break
    _expect(ladder is not None, "write_to_file: `if entry.parents is None` ladder not found")
    branches = [("unknown", ladder.body)]
    _expect(len(ladder.orelse) == 1 and isinstance(ladder.orelse[0], ast.If), "write_to_file: ladder has no len() branches")
    node = ladder.orelse[0]
    while True:
        t = node.test
        _expect(isinstance(t, ast.Compare) and ast.unparse(t.left) == "len(entry.parents)" and isinstance(t.ops[0], ast.Eq),
                f"write_to_file: unexpected ladder test {ast.unparse(t)}")
        branches.append((T.eval_literal(t.comparators[0]), node.body))
        if len(node.orelse) == 1 and isinstance(node.orelse[0], ast.If):
            node = node.orelse[0]
        else:
            branches.append(("else", node.orelse))
            break

    def slots(body):
        got, rest = {}, []
        for st in body:
            if isinstance(st, ast.Assign) and isinstance(st.targets[0], ast.Name) and st.targets[0].id in ("parent1_pos", "parent2_pos"):
                v = st.value
                if isinstance(v, ast.Name):
                    got[st.targets[0].id] = ("const", v.id)
                elif isinstance(v, ast.Call) and ast.unparse(v.func) == "parent_pos":
                    _expect(len(v.args) == 1 and isinstance(v.args[0], ast.Subscript) and ast.unparse(v.args[0].value) == "entry.parents",
                            f"write_to_file: unexpected lookup {ast.unparse(v)}")
                    got[st.targets[0].id] = ("lookup", T.eval_literal(v.args[0].slice))
                elif ast.unparse(v) == "GRAPH_EXTRA_EDGES_NEEDED | len(extra_edges)":
                    got[st.targets[0].id] = ("edges",)
                else:
                    raise T.TranslateError(f"write_to_file: unexpected parent slot value {ast.unparse(v)}")
            else:
                rest.append(ast.unparse(st))
        _expect(set(got) == {"parent1_pos", "parent2_pos"}, f"write_to_file: branch does not set both slots: {got}")
        return got["parent1_pos"], got["parent2_pos"], rest
    return {k: slots(body) for k, body in branches}


def translate(repo: Path) -> dict:
    cg = T.module_ast(repo / "dulwich" / "commit_graph.py")
    bm = T.module_ast(repo / "dulwich" / "bitmap.py")
    mx = T.module_ast(repo / "dulwich" / "midx.py")
    c = lambda name: T.const_value(cg, name)  # noqa: E731
    # ---- commit-graph writer shape -------------------------------------------------------------
    wr = T.find_def(cg, "CommitGraph.write_to_file")
    shape = _cg_writer_shape(wr)
    _expect(set(shape) == {"unknown", 0, 1, 2, "else"}, f"write_to_file: parent ladder has branches {sorted(map(str, shape))}")
    none_, miss = ("const", "GRAPH_PARENT_NONE"), ("const", "GRAPH_PARENT_MISSING")
    _expect(shape["unknown"] == (miss, none_, []), f"write_to_file: unknown-parents branch is {shape['unknown']}")
    _expect(shape[0] == (none_, none_, []), f"write_to_file: 0-parent branch is {shape[0]}")
    _expect(shape[1] == (("lookup", 0), none_, []), f"write_to_file: 1-parent branch is {shape[1]}")
    _expect(shape[2] == (("lookup", 0), ("lookup", 1), []), f"write_to_file: 2-parent branch is {shape[2]}")
    # the >2-parent branch: first parent in slot 1, slot 2 points into the extra edge list which receives all
    # parents but the first, the last one flagged
    oc = shape["else"]
    _expect(oc[0] == ("lookup", 0) and oc[1] == ("edges",), f"write_to_file: >2-parent branch fills the slots with {oc[:2]}")
    _expect([r.replace(" ", "") for r in oc[2]] ==
            ["extra_edges.extend((parent_pos(parent)forparentinentry.parents[1:]))", "extra_edges[-1]|=GRAPH_LAST_EDGE"],
            f"write_to_file: >2-parent branch does {oc[2]}")
    pp = ast.unparse(T.find_def(wr, "parent_pos"))
    _expect("return oid_to_index.get(parent, GRAPH_PARENT_MISSING)" in pp,
            "write_to_file.parent_pos: a parent outside the graph must be written as GRAPH_PARENT_MISSING")
    wr_src = ast.unparse(wr)
    chunk_list = None
    for n in ast.walk(wr):
        if isinstance(n, ast.Assign) and ast.unparse(n.targets[0]) == "chunks" and isinstance(n.value, ast.List):
            chunk_list = [ast.unparse(e.elts[0]) for e in n.value.elts]
    _expect(chunk_list == ["CHUNK_OID_FANOUT", "CHUNK_OID_LOOKUP", "CHUNK_COMMIT_DATA"],
            f"write_to_file: fixed chunks are {chunk_list}")
    _expect("if extra_edges:" in wr_src and "chunks.append((CHUNK_EXTRA_EDGE_LIST, edge_data))" in wr_src,
            "write_to_file: EDGE chunk is not appended exactly when there are extra edges")
    hdr = nchunks = None
    for n in ast.walk(wr):
        if isinstance(n, ast.Assign) and ast.unparse(n.targets[0]) == "offset" and isinstance(n.value, ast.BinOp):
            _expect(ast.unparse(n.value).replace(" ", "") == "8+(len(chunks)+1)*12",
                    f"write_to_file: first chunk offset is {ast.unparse(n.value)}")
            hdr, nchunks = 8, 12
    _expect(hdr is not None, "write_to_file: `offset = 8 + (len(chunks) + 1) * 12` not found")
    gen_src = ast.unparse(T.find_def(cg, "generate_commit_graph"))
    _expect("for commit_id, commit_obj in commit_map.items():" in gen_src and "parents=parents_hex" in gen_src
            and "commit_map.pop(" not in gen_src and "del commit_map" not in gen_src,
            "generate_commit_graph: expected one entry, with the commit's own parent list, for every requested commit")
    wr_shifts = _shift_consts(wr, ast.LShift) + _shift_consts(wr, ast.RShift)
    _expect(wr_shifts == [2, 32], f"write_to_file: generation/time shifts {wr_shifts}")
    rd = T.find_def(cg, "CommitGraph._parse_chunks")
    rd_consts = T.int_constants(rd)
    _expect(rd_consts.count(16) == 2 and 8 in rd_consts, f"_parse_chunks: record layout constants {rd_consts}")
    rd_src = ast.unparse(rd)
    for frag in ("parent1_pos < GRAPH_PARENT_NONE", "parent1_pos == GRAPH_PARENT_MISSING", "parent2_pos < GRAPH_PARENT_NONE",
                 "parent2_pos == GRAPH_PARENT_MISSING", "parent2_pos >= GRAPH_EXTRA_EDGES_NEEDED",
                 "parent2_pos & ~GRAPH_EXTRA_EDGES_NEEDED", "parent1_pos >= len(oids)", "parent2_pos >= len(oids)",
                 "if extra is None or parents is None:", "None if parents is None else"):
        _expect(frag in rd_src, f"_parse_chunks: `{frag}` not found")
    ex_src = ast.unparse(T.find_def(cg, "CommitGraph._parse_extra_edges"))
    for frag in ("offset = index * 4", "offset + 4 <= len(edge_data)", "parent_pos & GRAPH_LAST_EDGE",
                 "if parent_pos & ~GRAPH_LAST_EDGE == GRAPH_PARENT_MISSING:\n            return None",
                 "parent_pos &= ~GRAPH_LAST_EDGE", "parent_pos < len(oids)", "CHUNK_EXTRA_EDGE_LIST not in self.chunks"):
        _expect(frag in ex_src, f"_parse_extra_edges: `{frag}` not found")
    gp_src = ast.unparse(T.find_def(cg, "CommitGraph.get_parents"))
    _expect("entry.parents if entry else None" in gp_src, "get_parents: shape changed")
    # ---- EWAH ---------------------------------------------------------------------------------
    enc = T.find_def(bm, "_encode_ewah_words")
    enc_l = _shift_consts(enc, ast.LShift)
    _expect(enc_l == [33, 1, 33, 1], f"_encode_ewah_words: shifts {enc_l}")
    ones = {v for v in T.int_constants(enc) if v > 2 ** 32}
    _expect(len(ones) == 1, f"_encode_ewah_words: all-ones word constants {ones}")
    dec = T.find_def(bm, "EWAHBitmap._decode")
    dec_r = _shift_consts(dec, ast.RShift)
    _expect(dec_r == [1, 33], f"EWAHBitmap._decode: shifts {dec_r}")
    dec_consts = T.int_constants(dec)
    mask = [v for v in dec_consts if v > 2 ** 16]
    _expect(mask == [0xFFFFFFFF], f"EWAHBitmap._decode: running_len mask {mask}")
    _expect(dec_consts.count(64) >= 5 and 63 in dec_consts, f"EWAHBitmap._decode: word size constants {dec_consts}")
    dec_src = ast.unparse(dec)
    for frag in ("current_bit + run_bits > max_bits", "current_bit + 64 > max_bits", "(bit_count + 63) // 64 * 64"):
        _expect(frag in dec_src, f"EWAHBitmap._decode: `{frag}` not found")
    # ---- bitmap header gate ---------------------------------------------------------------------
    rb_src = ast.unparse(T.find_def(bm, "read_bitmap_file"))
    gate = "pack_checksum is not None and stored_pack_checksum != pack_checksum"
    _expect(gate in rb_src, "read_bitmap_file: checksum gate not found")
    pk = T.module_ast(repo / "dulwich" / "pack.py")
    pb_src = ast.unparse(T.find_def(pk, "Pack.bitmap"))
    _expect("pack_checksum=self.get_stored_checksum()" in pb_src and "except ChecksumMismatch" in pb_src,
            "Pack.bitmap: does not pass the pack checksum / does not handle ChecksumMismatch")
    # ---- MIDX ---------------------------------------------------------------------------------
    mo = T.find_def(mx, "MultiPackIndex.object_offset")
    mo_src = ast.unparse(mo)
    for frag in ("0 if first_byte == 0 else self._fanout_table[first_byte - 1]", "self._fanout_table[first_byte]",
                 "while start_idx < end_idx", "(start_idx + end_idx) // 2", "start_idx = mid + 1", "end_idx = mid"):
        _expect(frag in mo_src, f"object_offset: `{frag}` not found")
    gi = T.find_def(mx, "MultiPackIndex._get_pack_info")
    gi_consts = [v for v in T.int_constants(gi) if v >= 2 ** 16]
    _expect(gi_consts == [0x80000000, 0x7FFFFFFF], f"_get_pack_info: large-offset masks {gi_consts}")
    wm = T.find_def(mx, "write_midx")
    wm_src = ast.unparse(wm)
    _expect(wm_src.count("offset >= 2 ** 31") == 3 and "2147483648 | large_offset_index" in wm_src.replace("0x80000000", "2147483648"),
            "write_midx: large-offset threshold/flag changed")
    osm = T.module_ast(repo / "dulwich" / "object_store.py")
    cp_src = ast.unparse(T.find_def(osm, "DiskObjectStore.contains_packed"))
    for frag in ("result = midx.object_offset(", "if sha in self._get_pack_by_name(result[0]):", "except (KeyError, PackFileDisappeared):",
                 "return super().contains_packed(sha)"):
        _expect(frag in cp_src, f"DiskObjectStore.contains_packed: `{frag}` not found (a MIDX entry must be checked against its pack)")
    ca = T.find_def(osm, "_collect_ancestors")
    branch = None
    for n in ast.walk(ca):
        if isinstance(n, ast.If) and ast.unparse(n.test) == "e not in commits":
            branch = n
    _expect(branch is not None, "_collect_ancestors: `elif e not in commits` not found")
    body = [ast.unparse(st) for st in branch.body]
    _expect(body[0] == "commits.add(e)" and body[1].replace("\n", " ").split() == "if e in shallow: continue".split(),
            f"_collect_ancestors: the shallow test must directly follow commits.add(e), before any parent source is asked: {body[:2]}")
    rest = "\n".join(body[2:])
    _expect("shallow" not in rest and "commit_graph.get_parents(e)" in rest and "store[e]" in rest,
            "_collect_ancestors: the shallow test must dominate BOTH parent sources (graph hit and object load)")
    rpm = T.module_ast(repo / "dulwich" / "repo.py")
    pp_src = ast.unparse(T.find_def(rpm, "ParentsProvider.get_parents"))
    pp_src = " ".join(pp_src.split())
    i_sh, i_cg, i_st = pp_src.find("if commit_id in self.shallows: return []"), pp_src.find("self.commit_graph.get_parents("), pp_src.find("self.store[commit_id]")
    _expect(0 <= i_sh < i_cg < i_st, "ParentsProvider.get_parents: the shallow test must precede the commit-graph lookup and the object load")
    mof_src = ast.unparse(T.find_def(osm, "MissingObjectFinder.__init__"))
    _expect("have_commits, exclude=None, shallow=shallow" in mof_src and "shallow=frozenset(shallow)" in mof_src,
            "MissingObjectFinder: the shallow set must reach both walks (haves closure and wants walk)")
    gr_src = ast.unparse(T.find_def(osm, "DiskObjectStore.get_raw"))
    for frag in ("result = midx.object_offset(sha)", "pack_name, _offset = result", "pack = self._get_pack_by_name(pack_name)",
                 "return pack.get_raw(sha)", "except (KeyError, PackFileDisappeared):", "return super().get_raw(name)"):
        _expect(frag in gr_src, f"DiskObjectStore.get_raw: `{frag}` not found")
    off_uses = [(n.id, type(n.ctx).__name__) for n in ast.walk(T.find_def(osm, "DiskObjectStore.get_raw"))
                if isinstance(n, ast.Name) and "offset" in n.id.lower()]
    _expect(off_uses == [("_offset", "Store")],
            f"DiskObjectStore.get_raw: the offset stored in the multi-pack-index is used ({off_uses}); the model and "
            "midx_offset_irrelevant assume the object is looked up again through the named pack's own index")
    fb_src = ast.unparse(T.find_def(bm, "find_commit_bitmaps"))
    _expect("pack_bitmap = pack.bitmap" in fb_src and "except FileNotFoundError:" in fb_src,
            "find_commit_bitmaps: packs without a .bitmap file must be skipped")
    # ---- refs layering --------------------------------------------------------------------------
    rf = T.module_ast(repo / "dulwich" / "refs.py")
    drc = T.find_def(rf, "DiskRefsContainer")
    joins = [ast.unparse(n) for n in ast.walk(drc) if isinstance(n, ast.Call) and ast.unparse(n.func) == "os.path.join"
             and any(isinstance(a, ast.Constant) and a.value == b"packed-refs" for a in n.args)]
    consts = sum(1 for n in ast.walk(drc) if isinstance(n, ast.Constant) and n.value == b"packed-refs")
    _expect(joins and consts == len(joins) and all(j.replace(" ", "") == "os.path.join(self.path,b'packed-refs')" for j in joins),
            f"DiskRefsContainer: packed-refs must be located in the COMMON dir (os.path.join(self.path, b'packed-refs')), never through "
            f"the per-worktree resolver: {joins} ({consts} occurrences)")
    pr = T.find_def(rf, "DiskRefsContainer.pack_refs")
    loop = next((n for n in ast.walk(pr) if isinstance(n, ast.For) and ast.unparse(n.iter) == "self.allkeys()"), None)
    _expect(loop is not None, "DiskRefsContainer.pack_refs: `for ref in self.allkeys()` not found")
    tests = [" ".join(ast.unparse(st).split()) for st in loop.body]
    i_wt = next((i for i, t in enumerate(tests) if t == "if is_per_worktree_ref(ref): continue"), None)
    i_sel = next((i for i, t in enumerate(tests) if t.startswith("if all or ref.startswith(")), None)
    _expect(i_wt is not None and i_sel is not None and i_wt < i_sel,
            f"DiskRefsContainer.pack_refs: per-worktree refs must be skipped (is_per_worktree_ref test) before the selection: {tests}")
    rr_src = ast.unparse(T.find_def(rf, "RefsContainer.read_ref"))
    _expect("contents = self.read_loose_ref(refname)" in rr_src and "if not contents" in rr_src
            and "self.get_packed_refs().get(refname, None)" in rr_src, "RefsContainer.read_ref: loose-then-packed shape changed")

    def b(name, tree=cg):
        return T.lean_bytes(T.const_value(tree, name))
    src = T.lean_header("dulwich/commit_graph.py (GRAPH_*, chunk ids, write_to_file / _parse_chunks shapes), "
                        "dulwich/bitmap.py (EWAH layout, MAX_LITERAL_WORDS, header), dulwich/midx.py (chunk ids, masks)") + f"""
namespace Dulwich.Gen.Accel
/-! commit-graph -/
def graphParentMissing : Nat := {c("GRAPH_PARENT_MISSING")}
def graphParentNone : Nat := {c("GRAPH_PARENT_NONE")}
def graphExtraEdgesNeeded : Nat := {c("GRAPH_EXTRA_EDGES_NEEDED")}
def graphLastEdge : Nat := {c("GRAPH_LAST_EDGE")}
def cgSignature : List UInt8 := {b("COMMIT_GRAPH_SIGNATURE")}
def cgVersion : Nat := {c("COMMIT_GRAPH_VERSION")}
def hashVersionSha1 : Nat := {c("HASH_VERSION_SHA1")}
def hashVersionSha256 : Nat := {c("HASH_VERSION_SHA256")}
def chunkOidFanout : List UInt8 := {b("CHUNK_OID_FANOUT")}
def chunkOidLookup : List UInt8 := {b("CHUNK_OID_LOOKUP")}
def chunkCommitData : List UInt8 := {b("CHUNK_COMMIT_DATA")}
def chunkExtraEdges : List UInt8 := {b("CHUNK_EXTRA_EDGE_LIST")}
/-- `offset = HDR + (len(chunks) + 1) * ENTRY` in `write_to_file` -/
def cgHeaderSize : Nat := {hdr}
def cgTocEntrySize : Nat := {nchunks}
/-- `entry.generation << N`, `entry.commit_time >> M` -/
def cgGenShift : Nat := {wr_shifts[0]}
def cgTimeShift : Nat := {wr_shifts[1]}
/-! EWAH -/
def maxLiteralWords : Nat := {T.const_value(bm, "MAX_LITERAL_WORDS")}
def ewahAllOnes : Nat := {ones.pop()}
/-- `len(literals) << N`, `run_length << M` in `_encode_ewah_words` -/
def ewahLitShiftEnc : Nat := {enc_l[0]}
def ewahRunShiftEnc : Nat := {enc_l[1]}
/-- `(rlw >> N) & MASK`, `rlw >> M` in `EWAHBitmap._decode` -/
def ewahRunShiftDec : Nat := {dec_r[0]}
def ewahLitShiftDec : Nat := {dec_r[1]}
def ewahRunMask : Nat := {mask[0]}
def bitmapSignature : List UInt8 := {b("BITMAP_SIGNATURE", bm)}
def bitmapVersion : Nat := {T.const_value(bm, "BITMAP_VERSION")}
/-! multi-pack-index -/
def midxSignature : List UInt8 := {b("MIDX_SIGNATURE", mx)}
def midxVersion : Nat := {T.const_value(mx, "MIDX_VERSION")}
def midxLargeFlag : Nat := {gi_consts[0]}
def midxLargeMask : Nat := {gi_consts[1]}
end Dulwich.Gen.Accel
"""
    return {"Accel": src}


# ================================================================================================
# WITH / WITHOUT oracle: twin repositories
# ================================================================================================
#
# A scenario is a list of ops (JSON-able), interpreted against two bare repositories:
#   N  never receives an acceleration file (the "without" run);
#   A  receives the same logical ops plus the accelerator ops (the "with" run).
# Both are driven through a long-lived Repo object (so caches inside dulwich are exercised: the
# stat-identity cache of packed-refs, the cached commit graph / MIDX / bitmaps) and, at every
# checkpoint, additionally opened afresh.  Queries are asked of N and A and the PAIR is compared.
#
# ops:
#   ["commit", name, [parent names], "loose"|"pack"]
#   ["tag", name, target name, "loose"|"pack"]           annotated tag object
#   ["ref", refname, target name | None, "dulwich"|"git"]  set / delete a ref
#   ["repack", "dulwich"|"git"]   ["pack-loose"]   ["prune"]
#   ["accel", kind, writer, variant]      A only; kind in ACCEL_KINDS
#   ["snapshot", label]  ["restore", label, kind]   A only: save / put back acceleration files (staleness, mismatch)
#   ["donor", kind]                        A only: copy the file from an unrelated repository
#   ["rm", kind]                           A only: delete the files of one kind
#   ["relayout", n]                        both: every pack replaced by one of the SAME NAME (same objects) with other offsets
#   ["midx-sibling", writer]               A only: MIDX from a sibling repository with the same pack names, other layouts
#   ["check", label]

ACCEL_KINDS = ["commit-graph", "midx", "bitmap", "packed-refs", "idx-version"]


def _git(path, *args, check=True, extra_cfg=()):
    import subprocess
    cmd = ["git", "-C", str(path), "-c", "gc.auto=0", "-c", "maintenance.auto=false"]
    for c in extra_cfg:
        cmd += ["-c", c]
    p = subprocess.run(cmd + list(args), env=core.clean_env(), stdout=subprocess.PIPE, stderr=subprocess.STDOUT,
                       text=True, errors="replace", timeout=120)
    if check and p.returncode != 0:
        raise core.InfraError(f"git {' '.join(args)} failed in {path}: {p.stdout[-500:]}")
    return p.returncode, p.stdout


class Side:
    """One of the two repositories."""

    def __init__(self, path: Path, accelerated: bool):
        from dulwich.repo import Repo
        self.path = Path(path)
        self.accelerated = accelerated
        self.path.mkdir(parents=True)
        self.ll = Repo.init_bare(str(self.path))   # long-lived handle

    def fresh(self):
        from dulwich.repo import Repo
        return Repo(str(self.path))

    def close(self):
        try:
            self.ll.close()
        except Exception:
            pass


def _install(src: Path, dst: Path):
    """Put a file in place the way every git tool does: write beside, then rename (a reader that has the old
    file mapped keeps seeing the old, complete file)."""
    import os
    import shutil
    tmp = Path(str(dst) + ".verif-tmp")
    shutil.copy2(src, tmp)
    os.replace(tmp, dst)


def _accel_files(path: Path) -> dict:
    """kind -> list of files of that kind currently present (packed-refs and idx are not 'removable')."""
    path = Path(path)
    out = {"commit-graph": [], "midx": [], "bitmap": []}
    p = path / "objects" / "info" / "commit-graph"
    if p.exists():
        out["commit-graph"].append(p)
    d = path / "objects" / "info" / "commit-graphs"
    if d.exists():
        out["commit-graph"] += sorted(x for x in d.iterdir())
    p = path / "objects" / "pack" / "multi-pack-index"
    if p.exists():
        out["midx"].append(p)
    pd = path / "objects" / "pack"
    if pd.exists():
        out["bitmap"] += sorted(pd.glob("*.bitmap"))
        out["midx"] += sorted(pd.glob("multi-pack-index*.rev"))
        out["bitmap"] += sorted(pd.glob("multi-pack-index*.bitmap"))
    return out


class Twin:
    def __init__(self, root: Path, donor: Path | None = None):
        self.root = Path(root)
        self.N = Side(self.root / "N", False)
        self.A = Side(self.root / "A", True)
        self.sides = [self.N, self.A]
        self.donor = donor
        self.ids: dict[str, bytes] = {}          # logical name -> object id
        self.kind: dict[bytes, str] = {}         # object id -> commit/tree/blob/tag
        self.parents: dict[bytes, list] = {}     # commit id -> parent ids (ground truth, by construction)
        self.tree_of: dict[bytes, bytes] = {}    # commit id -> tree id
        self.tree_entries: dict[bytes, list] = {}  # tree id -> child ids
        self.tag_target: dict[bytes, bytes] = {}
        self.files: dict[str, dict] = {}         # commit name -> {path: content}
        self.refs: dict[bytes, bytes] = {}       # logical ref state (ground truth)
        self.refnames: set[bytes] = set()
        self.counter = 0
        self.accel_log: list = []                # accelerator ops applied so far (for classification)
        self.extra_ids: list[bytes] = []         # ids of objects of the donor repository (absent here)
        self.written: set[str] = set()

    def _each_side(self):
        """N first, then A; remembers which side an operation is working on (a logical operation that fails on A
        only fails BECAUSE of the acceleration data)."""
        for s in self.sides:
            self._side = s
            yield s
        self._side = None

    # ---- object construction (deterministic) --------------------------------------------------
    def _mk_tree_objs(self, files: dict):
        from dulwich.objects import Blob, Tree
        objs = []
        root = {}
        for p, content in sorted(files.items()):
            parts = p.split("/")
            d = root
            for q in parts[:-1]:
                d = d.setdefault(q, {})
            d[parts[-1]] = content

        def build(d):
            t = Tree()
            kids = []
            for name, v in sorted(d.items()):
                if isinstance(v, dict):
                    sub = build(v)
                    t.add(name.encode(), 0o40000, sub.id)
                    kids.append(sub.id)
                else:
                    b = Blob.from_string(v)
                    objs.append(b)
                    self.kind[b.id] = "blob"
                    t.add(name.encode(), 0o100644, b.id)
                    kids.append(b.id)
            objs.append(t)
            self.kind[t.id] = "tree"
            self.tree_entries[t.id] = kids
            return t
        t = build(root)
        return t, objs

    def _store(self, objs, storage):
        for s in self._each_side():
            st = s.ll.object_store
            if storage == "loose":
                for o in objs:
                    st.add_object(o)
            else:
                st.add_objects([(o, None) for o in objs])

    def op_commit(self, name, parents, storage):
        from dulwich.objects import Commit
        self.counter += 1
        n = self.counter
        files = dict(self.files[parents[0]]) if parents else {}
        files[f"f{n % 4}"] = b"content %d\n" % n
        if n % 3 == 0:
            files[f"d/x{n % 2}"] = b"sub %d\n" % (n // 3)
        if n % 7 == 0 and len(files) > 2:
            files.pop(sorted(files)[0])
        self.files[name] = files
        tree, objs = self._mk_tree_objs(files)
        c = Commit()
        c.tree = tree.id
        c.parents = [self.ids[p] for p in parents]
        c.author = c.committer = b"V <v@example.com>"
        # deliberately non-monotonic clocks (C13 says walks must not depend on them)
        c.author_time = c.commit_time = 1_600_000_000 + (n * 37) % 500
        c.author_timezone = c.commit_timezone = 0
        c.message = b"commit %d\n" % n
        self.ids[name] = c.id
        self.kind[c.id] = "commit"
        self.parents[c.id] = list(c.parents)
        self.tree_of[c.id] = tree.id
        self._store(objs + [c], storage)

    def op_tag(self, name, target, storage):
        from dulwich.objects import Tag, Commit as C, Tag as TG
        t = Tag()
        tid = self.ids[target]
        t.name = name.encode()
        t.object = (C if self.kind[tid] == "commit" else TG, tid)
        t.tagger = b"V <v@example.com>"
        t.tag_time = 1_600_000_000
        t.tag_timezone = 0
        t.message = b"tag " + name.encode() + b"\n"
        self.ids[name] = t.id
        self.kind[t.id] = "tag"
        self.tag_target[t.id] = tid
        self._store([t], storage)

    def _tick(self):
        """The packed-refs cache identifies a file by (inode, size, mtime_ns); file timestamps advance with the
        kernel tick.  The property's idealisation is that two different files never share an identity, so
        rewrites by 'another process' are kept at least one tick apart."""
        import time
        time.sleep(0.012)

    def op_ref(self, refname, target, actor):
        rn = refname.encode() if isinstance(refname, str) else refname
        if actor != "dulwich":
            self._tick()
        self.refnames.add(rn)
        val = self.ids[target] if target is not None else None
        for s in self._each_side():
            if actor == "git":
                if val is None:
                    _git(s.path, "update-ref", "-d", rn.decode())
                else:
                    _git(s.path, "update-ref", rn.decode(), val.decode())
            else:
                # "other" = another dulwich process: a fresh handle, closed afterwards
                h = s.fresh() if actor == "other" else s.ll
                try:
                    if val is None:
                        try:
                            del h.refs[rn]
                        except KeyError:
                            pass
                    else:
                        h.refs[rn] = val
                finally:
                    if actor == "other":
                        h.close()
        if val is None:
            self.refs.pop(rn, None)
        else:
            self.refs[rn] = val

    def op_repack(self, actor):
        for s in self._each_side():
            if actor == "git":
                # -A: unreachable objects are kept (loose); later commits may name them as parents
                # (bare repositories default to repack.writeBitmaps=true: switched off, the op is purely logical)
                _git(s.path, "repack", "-A", "-d", "-q", extra_cfg=["repack.writeBitmaps=false"])
                s.ll.object_store._update_pack_cache()   # pack-cache staleness of a long-lived handle is C10's topic
            else:
                s.ll.object_store.repack()

    def op_pack_loose(self):
        for s in self._each_side():
            s.ll.object_store.pack_loose_objects()

    def op_prune(self):
        """repack excluding what is unreachable from the refs (what gc does, without its pack_refs step)."""
        from dulwich.gc import find_unreachable_objects
        res = []
        for s in self._each_side():
            un = find_unreachable_objects(s.ll.object_store, s.ll.refs)
            res.append(un)
            s.ll.object_store.repack(exclude=un)
        return res

    # ---- accelerators (A only) ------------------------------------------------------------------
    def op_accel(self, kind, writer, variant):
        A = self.A
        st = A.ll.object_store
        self.accel_log.append([kind, writer, variant])
        self.written.add(kind)
        if kind == "commit-graph":
            if writer == "git":
                args = ["commit-graph", "write", "--reachable"]
                if variant == "split":
                    args.append("--split")
                _git(A.path, *args)
            elif variant == "all":
                st.write_commit_graph()
            elif variant == "tips-only":
                from dulwich import porcelain
                porcelain.write_commit_graph(str(A.path), reachable=False)
            else:
                from dulwich import porcelain
                porcelain.write_commit_graph(str(A.path), reachable=True)
        elif kind == "midx":
            if writer == "git":
                _git(A.path, "multi-pack-index", "write")
            else:
                st.write_midx()
        elif kind == "bitmap":
            if writer == "git":
                cfg = ["pack.writeBitmapHashCache=" + ("true" if "hash" in variant else "false"),
                       "pack.writeBitmapLookupTable=" + ("true" if "lookup" in variant else "false")]
                _git(A.path, "repack", "-A", "-d", "-b", "-q", extra_cfg=cfg)
                _git(self.N.path, "repack", "-A", "-d", "-q", extra_cfg=["repack.writeBitmaps=false"])   # the logical part of the op
                for sd in self.sides:
                    sd.ll.object_store._update_pack_cache()
            else:
                refs = A.ll.refs.as_dict()
                if variant == "generate":
                    st.generate_pack_bitmaps(refs)
                else:
                    from dulwich.bitmap import generate_bitmap, write_bitmap
                    for p in list(st.packs):
                        bm = generate_bitmap(p.index, st, refs, p.get_stored_checksum(),
                                             include_hash_cache="hash" in variant,
                                             include_lookup_table="lookup" in variant, commit_interval=3)
                        write_bitmap(p._bitmap_path, bm)
                        p._bitmap = None
        elif kind == "packed-refs":
            self._tick()
            if writer == "git":
                _git(A.path, "pack-refs", *(["--all"] if variant == "all" else []))
            elif writer == "other":
                h = A.fresh()
                try:
                    h.refs.pack_refs(all=(variant == "all"))
                finally:
                    h.close()
            else:
                A.ll.refs.pack_refs(all=(variant == "all"))
        elif kind == "idx-version":
            self._reindex(A, int(variant))
        else:
            raise ValueError(kind)

    def _reindex(self, side: Side, version: int):
        """Rewrite every pack index of `side` in another index version; future packs use it too."""
        import os
        from dulwich.object_format import SHA1
        from dulwich.pack import load_pack_index, write_pack_index
        pd = side.path / "objects" / "pack"
        for idxp in sorted(pd.glob("*.idx")):
            idx = load_pack_index(str(idxp), SHA1)
            try:
                entries = list(idx.iterentries())
                cks = idx.get_pack_checksum()
            finally:
                idx.close()
            tmp = idxp.with_suffix(".idx.tmp")
            with open(tmp, "wb") as f:
                write_pack_index(f, entries, cks, version=version)
            os.chmod(tmp, 0o644)
            os.replace(tmp, idxp)
        side.ll.object_store.pack_index_version = version
        cfg = side.ll.get_config()
        cfg.set((b"pack",), b"indexVersion", str(version).encode())
        cfg.write_to_path()

    def op_snapshot(self, label):
        import shutil
        d = self.root / ("snap-" + label)
        d.mkdir(exist_ok=True)
        for kind, files in _accel_files(self.A.path).items():
            for f in files:
                if f.is_file():
                    shutil.copy2(f, d / (kind + "@" + f.name))

    def op_restore(self, label, kind):
        """Put saved files of `kind` back: commit-graph / midx at their place; a saved bitmap is copied onto the
        name of a pack that exists NOW (its own pack if that still exists, else another one = mismatched)."""
        import shutil
        d = self.root / ("snap-" + label)
        if not d.exists():
            return
        pd = self.A.path / "objects" / "pack"
        self.accel_log.append(["restore", label, kind])
        for f in sorted(d.iterdir()):
            k, name = f.name.split("@", 1)
            if k != kind:
                continue
            if kind == "commit-graph":
                (self.A.path / "objects" / "info").mkdir(exist_ok=True)
                _install(f, self.A.path / "objects" / "info" / "commit-graph")
            elif kind == "midx":
                _install(f, pd / name)
            elif kind == "bitmap":
                packs = sorted(pd.glob("pack-*.pack"))
                if not packs:
                    continue
                own = pd / (name[:-len(".bitmap")] + ".pack")
                target = own if own.exists() else packs[0]
                _install(f, target.with_suffix(".bitmap"))
        self._drop_ll_caches()

    def op_donor(self, kind):
        import shutil
        if self.donor is None:
            return
        self.accel_log.append(["donor", kind])
        files = _accel_files(self.donor)[kind]
        pd = self.A.path / "objects" / "pack"
        for f in files:
            if kind == "commit-graph" and f.name == "commit-graph":
                (self.A.path / "objects" / "info").mkdir(exist_ok=True)
                _install(f, self.A.path / "objects" / "info" / "commit-graph")
            elif kind == "midx" and f.name == "multi-pack-index":
                _install(f, pd / f.name)
            elif kind == "bitmap" and f.name.startswith("pack-"):
                packs = sorted(pd.glob("pack-*.pack"))
                if packs:
                    _install(f, packs[-1].with_suffix(".bitmap"))
                break
        self._drop_ll_caches()

    # ---- same pack name, other layout ---------------------------------------------------------------
    def _relayout_pack(self, base: Path, how: int) -> bool:
        """Rewrite <base>.pack/.idx in place with the SAME objects in another order / compression (no deltas): the
        file name stays (dulwich names a pack after its set of object ids), the offsets change.  Returns True iff
        at least one offset differs from before (checked here, not assumed)."""
        import os
        from dulwich.object_format import SHA1
        from dulwich.pack import Pack, write_pack
        p = Pack(str(base), object_format=SHA1)
        try:
            objs = list(p.iterobjects())
            old = {sha: off for sha, off, _crc in p.index.iterentries()}
        finally:
            p.close()
        orders = [lambda o: list(reversed(o)), lambda o: sorted(o, key=lambda x: x.id),
                  lambda o: sorted(o, key=lambda x: (-x.type_num, x.id)), lambda o: o[1:] + o[:1]]
        tmp = self.root / "relayout-tmp"
        for k in range(len(orders)):
            new_order = orders[(how + k) % len(orders)](objs)
            for ext in (".pack", ".idx"):
                Path(str(tmp) + ext).unlink(missing_ok=True)
            write_pack(str(tmp), [(o, None) for o in new_order], SHA1, deltify=False, compression_level=[0, 9, 1][(how + k) % 3])
            q = Pack(str(tmp), object_format=SHA1)
            try:
                new = {sha: off for sha, off, _crc in q.index.iterentries()}
            finally:
                q.close()
            if set(new) != set(old):
                raise core.InfraError("harness bug: relayout changed the object set of a pack")
            if any(new[sha] != old[sha] for sha in old):
                for ext in (".pack", ".idx"):
                    os.chmod(str(tmp) + ext, 0o644)
                    os.replace(str(tmp) + ext, str(base) + ext)
                return True
        return False

    def _relayout_repo(self, path: Path, how: int) -> int:
        n = 0
        for packf in sorted((Path(path) / "objects" / "pack").glob("*.pack")):
            if self._relayout_pack(packf.with_suffix(""), how):
                n += 1
        return n

    def op_relayout(self, how: int):
        """Both sides: every pack is replaced by a pack of the same name with another layout (the objects "arrive
        again in another order / compression").  Acceleration files are left alone, so a MIDX in A now holds the
        offsets of a pack file that no longer exists under that name.  Odd `how`: the long-lived handles drop
        their open pack files (as after an eviction) and read the new ones; even: they keep the old files mapped."""
        changed = [self._relayout_repo(s.path, how) for s in self._each_side()]
        if changed[0] != changed[1]:
            raise core.InfraError(f"harness bug: relayout differs between the twins: {changed}")
        self.accel_log.append(["relayout", how, changed[1]])
        if how % 2:
            for s in self._each_side():
                for p in list(s.ll.object_store.packs):
                    p.close()
        return changed[1]

    def op_midx_sibling(self, writer: str):
        """A only: a MIDX written in a sibling repository that holds the same packs (same names) in another
        layout is copied in: every entry names an existing pack, the offsets describe other files."""
        import shutil
        from dulwich.repo import Repo
        sib = self.root / "sibling"
        if sib.exists():
            shutil.rmtree(sib)
        shutil.copytree(self.A.path, sib)
        try:
            n = self._relayout_repo(sib, 0)
            (sib / "objects" / "pack" / "multi-pack-index").unlink(missing_ok=True)
            if writer == "git":
                _git(sib, "multi-pack-index", "write")
            else:
                r = Repo(str(sib))
                try:
                    r.object_store.write_midx()
                finally:
                    r.close()
            src = sib / "objects" / "pack" / "multi-pack-index"
            if src.exists():
                _install(src, self.A.path / "objects" / "pack" / "multi-pack-index")
                self.accel_log.append(["midx-sibling", writer, n])
                self.written.add("midx")
        finally:
            shutil.rmtree(sib, ignore_errors=True)

    def op_rm(self, kind):
        for f in _accel_files(self.A.path)[kind]:
            try:
                f.unlink()
            except OSError:
                pass

    def _drop_ll_caches(self):
        """Files were swapped underneath the long-lived handle by 'another process'.  dulwich offers no
        invalidation for these caches and the property does not promise one for a cached-but-correct
        file; we only drop per-pack bitmap objects so that the swapped-in file is actually read."""
        for p in list(self.A.ll.object_store.packs):
            p._bitmap = None

    # ---- interpreter ----------------------------------------------------------------------------
    def apply(self, op):
        k = op[0]
        if k == "commit":
            self.op_commit(op[1], op[2], op[3])
        elif k == "tag":
            self.op_tag(op[1], op[2], op[3])
        elif k == "ref":
            self.op_ref(op[1], op[2], op[3])
        elif k == "repack":
            self.op_repack(op[1])
        elif k == "pack-loose":
            self.op_pack_loose()
        elif k == "prune":
            self.op_prune()
        elif k == "accel":
            self.op_accel(op[1], op[2], op[3])
        elif k == "snapshot":
            self.op_snapshot(op[1])
        elif k == "restore":
            self.op_restore(op[1], op[2])
        elif k == "donor":
            self.op_donor(op[1])
        elif k == "rm":
            self.op_rm(op[1])
        elif k == "relayout":
            self.op_relayout(op[1])
        elif k == "midx-sibling":
            self.op_midx_sibling(op[1])
        else:
            raise ValueError(f"unknown op {op}")

    def close(self):
        for s in self._each_side():
            s.close()

    # ---- ground truth helpers (from construction, independent of dulwich's readers) --------------
    def closure(self, starts, stop=()):
        """all objects reachable from `starts` (commits, trees, blobs, tags), never entering `stop`."""
        seen, todo = set(), list(starts)
        while todo:
            x = todo.pop()
            if x in seen or x in stop:
                continue
            seen.add(x)
            k = self.kind.get(x)
            if k == "commit":
                todo.append(self.tree_of[x])
                todo.extend(self.parents[x])
            elif k == "tree":
                todo.extend(self.tree_entries[x])
            elif k == "tag":
                todo.append(self.tag_target[x])
        return seen

    def ancestors(self, starts):
        seen, todo = set(), list(starts)
        while todo:
            x = todo.pop()
            if x in seen:
                continue
            seen.add(x)
            todo.extend(self.parents.get(x, []))
        return seen

    def peel(self, oid):
        while self.kind.get(oid) == "tag":
            oid = self.tag_target[oid]
        return oid


# ------------------------------------------------------------------------------------------------
# queries (the property's list), canonicalised

def _canon_exc(e: BaseException) -> list:
    return ["EXC", type(e).__name__]


# Robustness of the oracle itself: a wrong accelerator can make a walk of the REAL code run away (e.g. get_depth on a
# parent relation with a cycle never terminates and grows without bound).  Every real-code query therefore runs under
# a wall-clock limit and a result-size cap; hitting either is an ANSWER ("does not terminate") that takes part in the
# pair comparison like any other, never a hang of the harness.
QUERY_TIME_LIMIT = 3.0          # seconds per query (they take milliseconds on these repositories)
ABLATION_TIME_LIMIT = 1.0       # per query while re-asking for attribution
RESULT_SIZE_CAP = 50_000        # elements
MAX_UNMATCHED_PER_SCENARIO = 4  # unexplained differing pairs reported per scenario, then the scenario is abandoned
MAX_UNMATCHED_TOTAL = 12        # … per run, then the twin stream stops: the verdict is already a violation
ATTRIBUTION_BUDGET_S = 25.0     # wall time spent re-asking for attribution per scenario
TIMEOUT = ["EXC", "TIMEOUT"]
SKIPPED = ["SKIPPED"]


class _QueryTimeout(BaseException):
    """Raised by SIGALRM inside a query (a BaseException, so that `except Exception` in the code under test does
    not swallow it)."""


def _timed(fn, limit: float):
    import signal

    def on_alarm(signum, frame):
        raise _QueryTimeout()
    old = signal.signal(signal.SIGALRM, on_alarm)
    signal.setitimer(signal.ITIMER_REAL, limit)
    try:
        return fn()
    finally:
        signal.setitimer(signal.ITIMER_REAL, 0)
        signal.signal(signal.SIGALRM, old)


def _runaway(ans) -> bool:
    return isinstance(ans, list) and len(ans) >= 2 and ans[0] == "EXC" and ans[1] in ("TIMEOUT", "RESULT-TOO-LARGE")


def _try(fn, limit: float | None = None):
    """Run a call of the real code: its result, or ["EXC", <class>] (the pair must agree on failures too), or
    TIMEOUT when it does not come back within the limit."""
    try:
        return _timed(fn, QUERY_TIME_LIMIT if limit is None else limit)
    except _QueryTimeout:
        return list(TIMEOUT)
    except Exception as e:
        return _canon_exc(e)


def make_plan(tw: Twin, rng, n_each=5) -> dict:
    """Which queries to ask at a checkpoint (same plan for both sides)."""
    commits = sorted(tw.parents)
    tags = sorted(o for o, k in tw.kind.items() if k == "tag")
    tips = sorted({tw.peel(v) for v in tw.refs.values()} & set(commits))
    pick = lambda pool, k: [rng.choice(pool) for _ in range(k)] if pool else []   # noqa: E731
    plan = {"anc": [], "mb": [], "ff": [], "shallow": [], "depth": [], "walk": [], "reachc": [], "reacho": [], "mof": [],
            "anc_sh": [], "reachc_sh": [], "mof_sh": []}
    if not commits:
        return plan
    bias = lambda: rng.choice(tips) if tips and rng.random() < 0.6 else rng.choice(commits)   # noqa: E731
    plan["anc"].append([tips or commits[:1], []])
    for _ in range(n_each):
        heads = sorted({bias() for _ in range(rng.randint(1, 3))})
        common = sorted({rng.choice(commits) for _ in range(rng.randint(0, 2))})
        plan["anc"].append([heads, common])
        plan["mb"].append(sorted({bias() for _ in range(rng.choice([2, 2, 2, 3]))}))
        plan["ff"].append([rng.choice(commits), bias()])
        plan["reachc"].append([heads, common])
        plan["reacho"].append([sorted({bias() for _ in range(rng.randint(1, 2))}),
                               sorted({rng.choice(commits) for _ in range(rng.randint(0, 1))})])
        haves = sorted({rng.choice(commits + tags) for _ in range(rng.randint(0, 2))})
        wants = sorted({rng.choice((tips or commits) + tags) for _ in range(rng.randint(1, 2))})
        plan["mof"].append([haves, wants])
    plan["mof"].append([[], tips or commits[:1]])
    # shallow = the OTHER side's boundary, in a repository that has the full history: every single commit, a few
    # pairs, the empty set; heads = all tips and one random head
    heads_all = tips or commits[:1]
    sh_sets = [[]] + [[c] for c in commits[:14]] + [sorted(rng.sample(commits, 2)) for _ in range(3) if len(commits) >= 2]
    for sh in sh_sets:
        plan["anc_sh"].append([heads_all, [], sh])
    for sh in rng.sample(sh_sets, min(5, len(sh_sets))):
        plan["anc_sh"].append([[bias()], sorted({rng.choice(commits) for _ in range(rng.randint(0, 1))}), sh])
        plan["reachc_sh"].append([heads_all, [], sh])
        plan["mof_sh"].append([sorted({rng.choice(commits) for _ in range(rng.randint(0, 1))}), heads_all, sh])
    for _ in range(max(2, n_each // 2)):
        plan["shallow"].append([sorted({bias() for _ in range(rng.randint(1, 2))}), rng.randint(1, 4)])
        plan["depth"].append(bias())
        plan["walk"].append([[bias()], pick(commits, rng.randint(0, 1))])
    return plan


def ask(repo, tw: Twin, plan: dict, limit: float = QUERY_TIME_LIMIT) -> dict:
    """Answers of one repository handle to every query of the plan.  Keys are JSON strings.  Each query runs under
    `limit` seconds and the result-size cap; after one query of a kind ran away the remaining queries of that kind are
    skipped in this pass (SKIPPED is ignored by the comparison), so a pass costs at most one limit per kind."""
    import hashlib
    import json
    from dulwich.graph import can_fast_forward, find_merge_base, find_octopus_base
    from dulwich.object_store import MissingObjectFinder, _collect_ancestors, find_shallow, get_depth
    from dulwich.gc import find_unreachable_objects
    st = repo.object_store
    out = {}

    ran_away: set = set()

    def put(key, fn):
        if key[0] in ran_away:
            out[json.dumps(key)] = SKIPPED
            return
        ans = _try(fn, limit)
        if isinstance(ans, list) and len(ans) > RESULT_SIZE_CAP:
            ans = ["EXC", "RESULT-TOO-LARGE", len(ans)]
        if _runaway(ans):
            ran_away.add(key[0])
        out[json.dumps(key)] = ans
    absent = [hashlib.sha1(b"absent%d" % i).hexdigest().encode() for i in range(2)]
    # 1. object lookup
    for oid in sorted(tw.kind) + absent + tw.extra_ids:
        put(["in", oid.decode()], lambda: oid in st)

        def get():
            o = st[oid]
            return [o.type_name.decode(), hashlib.sha1(o.as_raw_string()).hexdigest()]
        put(["get", oid.decode()], get)
        put(["raw", oid.decode()], lambda: hashlib.sha1(repr(st.get_raw(oid)).encode()).hexdigest())
    put(["iter"], lambda: sorted(x.decode() for x in st))
    # 2. parents of every commit
    for c in sorted(tw.parents):
        put(["parents", c.decode()], lambda: [p.decode() for p in repo.parents_provider().get_parents(c)])
    # 3. ancestry
    for heads, common in plan["anc"]:
        def anc():
            a, b = _collect_ancestors(st, list(heads), frozenset(common))
            return [sorted(x.decode() for x in a), sorted(x.decode() for x in b)]
        put(["anc", [h.decode() for h in heads], [c.decode() for c in common]], anc)
    for heads, common, sh in plan["anc_sh"]:
        def anc_sh():
            a, b = _collect_ancestors(st, list(heads), frozenset(common), frozenset(sh))
            return [sorted(x.decode() for x in a), sorted(x.decode() for x in b)]
        put(["anc-shallow", [h.decode() for h in heads], [c.decode() for c in common], [c.decode() for c in sh]], anc_sh)
    for heads, excl, sh in plan["reachc_sh"]:
        put(["reach-commits-shallow", [h.decode() for h in heads], [c.decode() for c in excl], [c.decode() for c in sh]],
            lambda: sorted(x.decode() for x in st.get_reachability_provider().get_reachable_commits(list(heads), list(excl) or None, set(sh))))
    for haves, wants, sh in plan["mof_sh"]:
        put(["mof-shallow", [h.decode() for h in haves], [w.decode() for w in wants], [c.decode() for c in sh]],
            lambda: sorted(sha.decode() for sha, _ in MissingObjectFinder(st, list(haves), list(wants), shallow=set(sh))))
    for cs in plan["mb"]:
        put(["merge-base", [c.decode() for c in cs]], lambda: sorted(x.decode() for x in find_merge_base(repo, list(cs))))
        put(["octopus-base", [c.decode() for c in cs]], lambda: sorted(x.decode() for x in find_octopus_base(repo, list(cs))))
    for c1, c2 in plan["ff"]:
        put(["can-ff", c1.decode(), c2.decode()], lambda: bool(can_fast_forward(repo, c1, c2)))
    for heads, depth in plan["shallow"]:
        def sh():
            a, b = find_shallow(st, list(heads), depth)
            return [sorted(x.decode() for x in a), sorted(x.decode() for x in b)]
        put(["shallow", [h.decode() for h in heads], depth], sh)
    for h in plan["depth"]:
        put(["depth", h.decode()], lambda: get_depth(st, h))
    for inc, exc in plan["walk"]:
        put(["walk", [h.decode() for h in inc], [h.decode() for h in exc]],
            lambda: [e.commit.id.decode() for e in repo.get_walker(include=list(inc), exclude=list(exc))])
    # 4. reachable-object sets
    for heads, excl in plan["reachc"]:
        put(["reach-commits", [h.decode() for h in heads], [c.decode() for c in excl]],
            lambda: sorted(x.decode() for x in st.get_reachability_provider().get_reachable_commits(list(heads), list(excl) or None)))
    for cs, excl in plan["reacho"]:
        put(["reach-objects", [h.decode() for h in cs], [c.decode() for c in excl]],
            lambda: sorted(x.decode() for x in st.get_reachability_provider().get_reachable_objects(list(cs), list(excl) or None)))
    # 5. objects chosen for a transfer
    for haves, wants in plan["mof"]:
        put(["mof", [h.decode() for h in haves], [w.decode() for w in wants]],
            lambda: sorted(sha.decode() for sha, _ in MissingObjectFinder(st, list(haves), list(wants))))
    put(["unreachable"], lambda: sorted(x.decode() for x in find_unreachable_objects(st, repo.refs)))
    # 6. refs
    put(["refs.as_dict"], lambda: sorted((k.decode(), v.decode()) for k, v in repo.refs.as_dict().items()))
    put(["refs.keys"], lambda: sorted(k.decode() for k in repo.refs.keys()))
    put(["head"], lambda: repo.head().decode())
    for rn in sorted(tw.refnames) + [b"refs/heads/never-existed"]:
        put(["ref", rn.decode()], lambda: repo.refs[rn].decode())
        put(["ref-in", rn.decode()], lambda: rn in repo.refs)
        put(["read_ref", rn.decode()], lambda: (repo.refs.read_ref(rn) or b"<none>").decode())
        put(["peeled", rn.decode()], lambda: repo.get_peeled(rn).decode())
    return out


# ------------------------------------------------------------------------------------------------
# attribution (which accelerator is responsible) and narrow failure classes

def _copy_without(tw: Twin, kinds, tag: str) -> Path:
    """Copy of A with the files of some accelerator kinds removed ("with the files present vs removed")."""
    import shutil
    dst = tw.root / f"ablate-{tag}"
    if dst.exists():
        shutil.rmtree(dst)
    shutil.copytree(tw.A.path, dst)
    for kind in kinds:
        _remove_kind(tw, dst, kind)
    return dst


def _remove_kind(tw: Twin, dst: Path, kind: str):
    import shutil
    if kind in ("commit-graph", "midx", "bitmap"):
        for f in _accel_files(dst)[kind]:
            if f.is_dir():
                shutil.rmtree(f)
            else:
                f.unlink()
    elif kind == "packed-refs":
        # removing packed-refs = the same refs as loose files (values taken from the ground truth of the
        # scenario, not from dulwich's reader)
        (dst / "packed-refs").unlink(missing_ok=True)
        for rn, v in tw.refs.items():
            p = dst / rn.decode()
            p.parent.mkdir(parents=True, exist_ok=True)
            if not p.exists():
                p.write_bytes(v + b"\n")
    elif kind == "idx-version":
        import os
        from dulwich.object_format import SHA1
        from dulwich.pack import PackData
        for idxp in sorted((dst / "objects" / "pack").glob("*.idx")):
            pdat = PackData(str(idxp.with_suffix(".pack")), object_format=SHA1)
            try:
                os.unlink(idxp)
                pdat.create_index_v2(str(idxp))
            finally:
                pdat.close()


def _present_kinds(tw: Twin) -> list[str]:
    files = _accel_files(tw.A.path)
    kinds = [k for k in ("commit-graph", "midx", "bitmap") if files[k]]
    if (tw.A.path / "packed-refs").exists():
        kinds.append("packed-refs")
    if "idx-version" in tw.written:
        kinds.append("idx-version")
    return kinds


class Ablation:
    """Answers of A with some accelerator kinds removed / switched off (computed lazily, once per checkpoint
    and combination).  `responsible` = the smallest combination whose removal gives N's answer."""

    def __init__(self, tw: Twin, plan, ll: bool, budget: list | None = None):
        self.tw, self.plan, self.ll = tw, plan, ll
        self.cache: dict[tuple, dict] = {}
        self.budget = budget if budget is not None else [ATTRIBUTION_BUDGET_S]   # seconds left, shared per scenario

    def kinds(self):
        return ["commit-graph", "midx", "bitmap"] if self.ll else _present_kinds(self.tw)

    def answers(self, kinds: tuple) -> dict:
        import time
        if kinds not in self.cache:
            if self.budget[0] <= 0:
                return {}           # attribution budget of this scenario is spent: "not attributable"
            t0 = time.time()
            self.cache[kinds] = self._ll(kinds) if self.ll else self._fresh(kinds)
            self.budget[0] -= time.time() - t0
        return self.cache[kinds]

    def responsible(self, key: str, want) -> list[str]:
        """Smallest combination of kinds whose removal gives N's answer: single kinds, then pairs, then all."""
        import itertools
        ks = self.kinds()
        sizes = sorted({1, 2, len(ks)} & set(range(1, len(ks) + 1)))
        for n in sizes:
            hits = [c for c in itertools.combinations(ks, n) if self.answers(c).get(key) == want]
            if hits:
                return sorted({k for c in hits for k in c}) if n == 1 else list(hits[0])
        return []

    def _fresh(self, kinds):
        import shutil
        from dulwich.repo import Repo
        dst = _copy_without(self.tw, kinds, "f")
        r = Repo(str(dst))
        try:
            return ask(r, self.tw, self.plan, ABLATION_TIME_LIMIT)
        finally:
            r.close()
            shutil.rmtree(dst, ignore_errors=True)

    def _ll(self, kinds):
        """Same for the long-lived handle, by switching in-memory accelerators off."""
        tw = self.tw
        st = tw.A.ll.object_store
        undo = []
        if "commit-graph" in kinds:
            s = (st._use_commit_graph, st._commit_graph)
            st._use_commit_graph, st._commit_graph = False, None
            undo.append(lambda s=s: (setattr(st, "_use_commit_graph", s[0]), setattr(st, "_commit_graph", s[1])))
        if "midx" in kinds:
            m = (st._use_midx, st._midx)
            st._use_midx, st._midx = False, None
            undo.append(lambda m=m: (setattr(st, "_use_midx", m[0]), setattr(st, "_midx", m[1])))
        if "bitmap" in kinds:
            saved = []
            for p in list(st.packs):
                saved.append((p, p._bitmap, p._bitmap_path))
                p._bitmap, p._bitmap_path = None, p._bitmap_path + ".absent"

            def back():
                for p, b, path in saved:
                    p._bitmap, p._bitmap_path = b, path
            undo.append(back)
        try:
            return ask(tw.A.ll, tw, self.plan, ABLATION_TIME_LIMIT)
        finally:
            for u in undo:
                u()


def _graph_in_use(tw: Twin, ll: bool):
    """The CommitGraph object A answers from (cached one for the long-lived handle)."""
    from dulwich.commit_graph import read_commit_graph
    if ll:
        return tw.A.ll.object_store.get_commit_graph()
    p = tw.A.path / "objects" / "info" / "commit-graph"
    return read_commit_graph(str(p)) if p.exists() else None


def commit_graph_causes(tw: Twin, ll: bool, only: bytes | None = None) -> set:
    """Compare every entry (or the entry of commit `only`) of the commit graph in use with the ground truth of
    the scenario."""
    g = _graph_in_use(tw, ll)
    causes = set()
    if g is None:
        return causes
    inside = {e.commit_id for e in g.entries}
    for e in g.entries:
        if only is not None and e.commit_id != only:
            continue
        real = tw.parents.get(e.commit_id)
        if real is None or e.parents is None or list(e.parents) == real:
            continue
        octo = len(real) > 2
        stored = real[:2] if octo else real
        if list(e.parents) == [p for p in stored if p in inside]:
            if octo:
                causes.add("commit-graph-octopus-parents-truncated")
            if any(p not in inside for p in stored):
                causes.add("commit-graph-parent-outside-set-dropped")
        else:
            causes.add(None)
    return causes


def midx_causes(tw: Twin, q: list, ansN: dict, ansA: dict) -> set:
    """An id the MIDX lists although the object is gone (its pack was repacked / pruned away after the MIDX was
    written, or the MIDX came from elsewhere): without the file `in` is False and `[]` raises KeyError; with it
    `in` says True while `[]` still raises KeyError.  A differing `in` query must be about such an id itself;
    `[]` / `get_raw` differences are never in this class."""
    import json

    def stale(oid: str) -> bool:
        return (ansN.get(json.dumps(["in", oid])) is False and ansN.get(json.dumps(["get", oid])) == ["EXC", "KeyError"]
                and ansA.get(json.dumps(["in", oid])) is True and ansA.get(json.dumps(["get", oid])) == ["EXC", "KeyError"])
    if q[0] in ("get", "raw"):
        return {None}
    if q[0] == "in":
        return {"midx-entry-trusted-without-pack"} if stale(q[1]) else {None}
    if any(stale(o.decode()) for o in list(tw.kind) + tw.extra_ids):
        return {"midx-entry-trusted-without-pack"}
    return {None}


def _mem_bitmap_packs(tw: Twin):
    """Packs of the long-lived handle whose bitmap object is consulted (entries keyed by hex ids)."""
    from dulwich.objects import sha_to_hex
    out = []
    for p in list(tw.A.ll.object_store.packs):
        b = p._bitmap
        if b is None:
            continue
        ents = {k for k in b.entries if len(k) == 40}
        if ents:
            out.append({"pack": p, "bm": b, "pids": {sha_to_hex(s) for s, _, _ in p.index.iterentries()}, "ents": ents})
    return out


def _xor_chain_broken(tw: Twin, bm, key, pids) -> bool:
    """generate_bitmap computes XOR offsets over ALL selected commits and then drops the entries of commits that
    are not in this pack: an offset then points at the wrong entry or before the start of the list."""
    ent = bm.entries.get(key)
    return ent is not None and ent.xor_offset > 0 and any(c not in pids for c in tw.parents)


def bitmap_causes(tw: Twin, q: list, aN, aA) -> set:
    from dulwich.bitmap import bitmap_to_object_shas
    if q[0] == "reach-commits-shallow" and not q[3]:
        q = ["reach-commits", q[1], q[2]]      # no boundary given: the same query
    if q[0] == "mof-shallow" and not q[3]:
        # MissingObjectFinder(shallow=∅): BitmapReachability only answers when no boundary is given (`if shallow:` falls
        # back to the traversal), so this is the plain `mof` query and the mechanism check below (haves with in-memory
        # bitmap entries in a pack that does not contain their ancestry) applies unchanged.  With a non-empty
        # boundary the bitmaps are not consulted and a difference stays unclassified.
        q = ["mof", q[1], q[2]]
    if aA == ["EXC", "FileNotFoundError"]:
        pd = tw.A.path / "objects" / "pack"
        if any(not p.with_suffix(".bitmap").exists() for p in pd.glob("*.pack")):
            return {"bitmap-missing-on-some-pack-raises"}
        return {None}
    if not isinstance(aA, list) or not isinstance(aN, list) or (aA and aA[0] == "EXC"):
        return {None}
    packs = _mem_bitmap_packs(tw)
    if q[0] in ("reach-commits", "reach-objects"):
        heads = [h.encode() for h in q[1]]
        excl = [h.encode() for h in q[2]]
        only_commits = q[0] == "reach-commits"
        got = {x.encode() for x in aA}
        for P in packs:
            pids, ents, bm = P["pids"], P["ents"], P["bm"]
            if not all(h in ents and h in pids for h in heads):
                continue
            applied = bool(excl) and all(e in ents and e in pids for e in excl)
            involved = heads + (excl if applied else [])
            actual = {h: bitmap_to_object_shas(bm.get_bitmap(h), P["pack"].index) for h in involved}
            ideal = {h: tw.closure([h]) & pids for h in involved}

            def combine(sets):
                inc = set().union(*[sets[h] for h in heads])
                if applied:
                    inc -= set().union(*[sets[e] for e in excl])
                return {x for x in inc if tw.kind.get(x) == "commit"} if only_commits else inc
            if got != combine(actual):
                continue
            causes = set()
            if any(actual[h] != ideal[h] for h in involved):
                # the stored bitmaps themselves are wrong
                if all(actual[h] == ideal[h] or _xor_chain_broken(tw, bm, h, pids) for h in involved):
                    return {"bitmap-xor-base-entry-skipped"}
                return {None}
            full = (lambda xs: tw.ancestors(xs)) if only_commits else (lambda xs: tw.closure(xs))
            inc, exc = full(heads), (full(excl) if applied else set())
            if (inc & pids) != inc or (exc & pids) != exc:
                causes.add("bitmap-pack-not-closed")
            if {x.encode() for x in aN} != inc - exc:
                causes.add("reachability-exclude-semantics-differ" if only_commits
                           else "reachable-objects-provider-semantics-differ")
            return causes or {None}
        return {None}
    if q[0] == "mof":
        haves = {tw.peel(h.encode()) for h in q[1]}
        haves = {h for h in haves if tw.kind.get(h) == "commit"}
        for P in packs:
            pids, ents, bm = P["pids"], P["ents"], P["bm"]
            if haves and all(h in ents and h in pids for h in haves):
                if any(_xor_chain_broken(tw, bm, h, pids) for h in haves):
                    return {"bitmap-xor-base-entry-skipped"}
                if not tw.ancestors(haves) <= pids:
                    return {"bitmap-pack-not-closed"}
        return {None}
    return {None}


def packed_refs_causes(tw: Twin, q: list, aN, aA) -> set:
    """Only the peeled value of a ref is cached in packed-refs beside the value itself."""
    if q[0] != "peeled" or not isinstance(aA, str) or not isinstance(aN, str):
        return {None}
    rn = q[1].encode()
    text = (tw.A.path / "packed-refs").read_bytes() if (tw.A.path / "packed-refs").exists() else b""
    lines = text.split(b"\n")
    header_peeled = bool(lines) and lines[0].startswith(b"# pack-refs") and b" peeled" in lines[0]
    packed_val = packed_peel = None
    for i, ln in enumerate(lines):
        if ln.endswith(b" " + rn) and not ln.startswith(b"#"):
            packed_val = ln.split(b" ")[0]
            if i + 1 < len(lines) and lines[i + 1].startswith(b"^"):
                packed_peel = lines[i + 1][1:]
    loose = (tw.A.path / rn.decode()).exists()
    cur = tw.refs.get(rn)
    if packed_val is None or cur is None:
        return {None}
    true_peel = tw.peel(cur)
    if aN.encode() != true_peel:
        return {None}
    if loose and packed_val != cur and aA.encode() == (packed_peel if packed_peel is not None else cur):
        return {"packed-refs-peeled-stale-under-loose-override"}
    if header_peeled and packed_peel is None and tw.kind.get(cur) == "tag" and aA.encode() == cur:
        return {"packed-refs-peeled-line-missing"}
    if packed_peel is not None and packed_peel != true_peel and packed_val == cur and aA.encode() == packed_peel:
        return {"packed-refs-peeled-line-stale"}
    return {None}


def classify(tw: Twin, abl: Ablation, key: str, aN, aA, ansN: dict, ansA: dict):
    """Narrow failing-input classes for one differing pair; a None class = unclassified (always a violation).
    Returns (classes, responsible kinds)."""
    import json
    q = json.loads(key)
    resp = abl.responsible(key, aN)
    causes = set()
    for kind in resp:
        if kind == "commit-graph":
            only = q[1].encode() if q[0] == "parents" else None
            found = commit_graph_causes(tw, abl.ll, only)
            if aN == ["EXC", "KeyError"]:
                # without the graph the walk touches a commit the store no longer has; with it either that commit
                # is answered from the graph, or the walk ends early on a truncated parent list
                found |= absent_commit_causes(tw, abl.ll, ansN)
            causes |= found or {None}
        elif kind == "midx":
            causes |= midx_causes(tw, q, ansN, ansA)
        elif kind == "bitmap":
            causes |= bitmap_causes(tw, q, aN, aA)
        elif kind == "packed-refs":
            causes |= packed_refs_causes(tw, q, aN, aA)
        else:
            causes.add(None)
    if not resp:
        causes.add(None)
    return sorted(causes, key=lambda c: (c is None, c or "")), resp


def absent_commit_causes(tw: Twin, ll: bool, ansN: dict) -> set:
    """The graph still lists a commit that the object store no longer has (pruned after the graph was written,
    or the graph came from another repository): with the graph `get_parents` answers, without it raises."""
    import json
    g = _graph_in_use(tw, ll)
    if g is None:
        return set()
    for e in g.entries:
        if ansN.get(json.dumps(["in", e.commit_id.decode()])) is False:
            return {"commit-graph-answers-for-absent-commit"}
    return set()


# ------------------------------------------------------------------------------------------------
# scenario generator (random op lists) and the checkpoint comparison

WRITER_VARIANTS = {
    "commit-graph": {"dulwich": ["all", "reachable", "reachable", "tips-only"], "git": ["plain", "plain", "split"]},
    "midx": {"dulwich": ["-"], "git": ["-"]},
    "bitmap": {"dulwich": ["generate", "generate", "files-hash-lookup", "files-hash", "files-lookup", "files-plain"],
               "git": ["hash-lookup", "hash", "lookup", "plain"]},
    "packed-refs": {"dulwich": ["all", "all", "tags"], "git": ["all", "all", "tags"]},
    "idx-version": {"dulwich": ["1"], "git": ["1"]},
}


def gen_scenario(rng, subset, use_git: bool, size: int = 10) -> list:
    """Random op list: history (merges incl. octopus, several packs + loose objects, tags, deleted refs),
    accelerator writes for `subset`, then staleness (more history, repack, prune, deleted refs), stale /
    mismatched files put back, and re-writes."""
    ops = []
    names, tags = [], []
    nref = [0]

    git_ok = [use_git]   # C git itself trusts MIDX offsets (it names packs by content): no git ops once they are stale

    def actor():
        r = rng.random()
        return "git" if git_ok[0] and r < 0.3 else "other" if r > 0.8 else "dulwich"

    def add_commit():
        name = f"c{len(names)}"
        r = rng.random()
        if not names or r < 0.08:
            parents = []
        elif r < 0.55 or len(names) < 2:
            parents = [rng.choice(names[-3:])]
        elif r < 0.82 or len(names) < 3:
            parents = rng.sample(names[-6:], 2) if len(names[-6:]) >= 2 else [names[-1]]
        else:
            k = min(len(names), rng.choice([3, 3, 4, 5]))
            parents = rng.sample(names[-8:], min(k, len(names[-8:])))
        ops.append(["commit", name, parents, rng.choice(["loose", "pack", "pack"])])
        names.append(name)
        if rng.random() < 0.5:
            ops.append(["ref", f"refs/heads/b{rng.randint(0, 3)}", name, actor()])
        return name

    def add_tag():
        if not names:
            return
        target = rng.choice(tags) if tags and rng.random() < 0.2 else rng.choice(names[-4:])
        name = f"t{len(tags)}"
        ops.append(["tag", name, target, rng.choice(["loose", "pack"])])
        tags.append(name)
        ops.append(["ref", f"refs/tags/v{rng.randint(0, 2)}", name, actor()])
        if rng.random() < 0.3:
            ops.append(["ref", f"refs/tags/lw{rng.randint(0, 1)}", rng.choice(names), actor()])

    def write_accels(kinds):
        kinds = list(kinds)
        rng.shuffle(kinds)
        for k in kinds:
            w = "git" if git_ok[0] and rng.random() < 0.5 else "dulwich"
            ops.append(["accel", k, w, rng.choice(WRITER_VARIANTS[k][w])])

    # phase 1: history
    for _ in range(rng.randint(max(3, size // 2), size)):
        add_commit()
        if rng.random() < 0.25:
            add_tag()
    ops.append(["ref", "refs/heads/b0", names[-1], "dulwich"])
    if rng.random() < 0.6:
        ops.append(["ref", "refs/heads/master", rng.choice(names), "dulwich"])
    if rng.random() < 0.3:
        ops.append(["repack", actor()])
    elif rng.random() < 0.3:
        ops.append(["pack-loose"])
    # phase 2: write the accelerators of the subset
    write_accels(subset)
    ops.append(["snapshot", "s1"])
    ops.append(["check", "fresh"])
    # phase 3: continue the history
    for _ in range(rng.randint(2, max(3, size // 2))):
        add_commit()
        if rng.random() < 0.3:
            add_tag()
    if rng.random() < 0.7:
        ops.append(["ref", f"refs/heads/b{rng.randint(0, 3)}", None, actor()])
    if tags and rng.random() < 0.5:
        ops.append(["ref", f"refs/tags/v{rng.randint(0, 2)}", rng.choice(tags + names[-2:]), actor()])
    if rng.random() < 0.4:
        ops.append(["ref", f"refs/tags/v{rng.randint(0, 2)}", None, actor()])
    ops.append(["check", "stale-continued"])
    # phase 4: maintenance after the files were written
    r = rng.random()
    if "midx" in subset and rng.random() < 0.4:
        # same pack names, other layouts: the MIDX offsets no longer describe the files
        if rng.random() < 0.6:
            ops.append(["relayout", rng.randint(0, 5)])
        else:
            ops.append(["midx-sibling", "git" if use_git and rng.random() < 0.5 else "dulwich"])
        ops.append(["check", "stale-relayout"])
        git_ok[0] = False
    if r < 0.4:
        ops.append(["repack", actor()])
    elif r < 0.8:
        ops.append(["ref", f"refs/heads/b{rng.randint(0, 3)}", None, "dulwich"])
        ops.append(["prune"])
    else:
        ops.append(["pack-loose"])
    if "packed-refs" in subset and rng.random() < 0.6:
        ops.append(["accel", "packed-refs", "git" if git_ok[0] and rng.random() < 0.5 else rng.choice(["dulwich", "other"]), "all"])
    ops.append(["check", "stale-maintained"])
    # phase 5: stale / mismatched files put back, or everything rewritten
    r = rng.random()
    cand = [k for k in ("commit-graph", "midx", "bitmap") if k in subset]
    if cand and r < 0.45:
        for k in cand:
            ops.append(["restore", "s1", k])
        ops.append(["check", "stale-restored"])
    elif r < 0.75:
        for k in rng.sample(["commit-graph", "midx", "bitmap"], rng.randint(1, 3)):
            ops.append(["donor", k])
        ops.append(["check", "mismatched-donor"])
    else:
        write_accels(subset)
        ops.append(["check", "rewritten"])
    return ops


_FAIL_CAP = 3   # reported failing pairs per (scenario, class)


def walk_definition(tw: Twin, heads, common, shallow):
    """The definition, from the ground truth of the scenario: breadth-first from the heads; a commit in `common` is
    a base, not entered; a shallow commit is reported and never expanded."""
    commits, bases, queue = set(), set(), list(heads)
    while queue:
        e = queue.pop(0)
        if e in common:
            bases.add(e)
        elif e not in commits:
            commits.add(e)
            if e in shallow:
                continue
            queue.extend(tw.parents[e])
    return commits, bases


def check_shallow_definition(ctx, tw: Twin, answers: dict, ops_so_far, label, sid):
    """`_collect_ancestors(heads, common, shallow)` and `get_reachable_commits(shallow=)` against the brute-force
    definition, for the repository WITH acceleration data (fresh and long-lived handle).  The side without is
    checked too but only noted: a wrong answer there is not about acceleration data."""
    import json
    for hname in ("Af", "Al", "Nf"):
        for key, got in answers[hname].items():
            q = json.loads(key)
            if q[0] not in ("anc-shallow", "reach-commits-shallow") or not isinstance(got, list) or (got and got[0] in ("EXC", "SKIPPED")):
                continue
            if q[0] == "reach-commits-shallow" and not q[3]:
                continue    # without a boundary the bitmap provider may answer: its known differences are classified in the pair oracle
            heads, common, sh = ([x.encode() for x in q[i]] for i in (1, 2, 3))
            if any(c not in tw.parents for c in heads + common + sh):
                continue
            try:
                commits, bases = walk_definition(tw, heads, set(common), set(sh))
            except KeyError:
                continue
            want = [sorted(x.decode() for x in commits), sorted(x.decode() for x in bases)] if q[0] == "anc-shallow" \
                else sorted(x.decode() for x in commits)
            ctx.count("shallow.definition", (sid, label, hname, key), True, q[0])
            if got != want and answers["Nf"].get(key) == want and hname != "Nf":
                ctx.oracle_fail("shallow.definition", {"ops": ops_so_far, "sid": sid, "checkpoint": label, "handle": hname,
                                                       "query": q, "got": _clip(got), "definition": _clip(want),
                                                       "accelerators": list(tw.accel_log)},
                                f"walk with shallow={q[3]} goes wrong with acceleration data present: {str(got)[:200]} vs definition {str(want)[:200]}",
                                None)
                return
            if got != want and hname == "Nf":
                ctx.notes.append(f"shallow walk differs from the definition WITHOUT acceleration data (not C14): {key[:160]}")
                return


def _clip(ans, n=40):
    """Answers are stored in replay files: keep them small."""
    if isinstance(ans, list) and len(ans) > n:
        return ans[:n] + [f"… {len(ans) - n} more"]
    return ans


def checkpoint(ctx, tw: Twin, ops_so_far: list, label: str, sid: str, plan_rng, seen_cls: dict, extra_plan=None):
    import json
    plan = make_plan(tw, plan_rng, n_each=4)
    stray = [str(f) for fs in _accel_files(tw.N.path).values() for f in fs]
    if stray or (tw.N.path / "packed-refs").exists():
        raise core.InfraError(f"harness bug: the 'without' repository acquired acceleration files: {stray or 'packed-refs'}")
    for k, items in (extra_plan or {}).items():
        # corpus witnesses name their queries by logical object names
        def conv(x):
            if isinstance(x, list):
                return [conv(y) for y in x]
            return tw.ids[x] if isinstance(x, str) else x
        plan.setdefault(k, [])
        plan[k] += [conv(it) for it in items]
    answers = {}
    for side, name in ((tw.N, "N"), (tw.A, "A")):
        r = side.fresh()
        try:
            answers[name + "f"] = ask(r, tw, plan)
        finally:
            r.close()
        answers[name + "l"] = ask(side.ll, tw, plan)
    check_shallow_definition(ctx, tw, answers, ops_so_far, label, sid)
    fresh_cls = {}
    budget = seen_cls.setdefault("_attribution_budget", [ATTRIBUTION_BUDGET_S])
    for mode, ll in (("fresh", False), ("ll", True)):
        aNs, aAs = answers["N" + ("l" if ll else "f")], answers["A" + ("l" if ll else "f")]
        abl = Ablation(tw, plan, ll, budget)
        stream = "pair." + mode
        for key, aN in aNs.items():
            aA = aAs.get(key)
            q0 = json.loads(key)[0]
            if aN == SKIPPED or aA == SKIPPED:
                continue        # a query of this kind ran away earlier in one of the passes
            ctx.count(stream, (sid, label, key), True, q0)
            if aN == aA:
                continue
            if seen_cls.get("_unmatched", 0) >= MAX_UNMATCHED_PER_SCENARIO:
                return answers  # enough unexplained differences in this scenario: it is abandoned
            if _runaway(aA) and not _runaway(aN):
                # no attribution by removal for a query that does not come back: it would run away again
                classes, resp = ["with-accel-query-does-not-terminate"], []
            elif ll and key in fresh_cls and answers["Nf"][key] == aN and answers["Af"][key] == aA:
                classes, resp = fresh_cls[key]
            else:
                classes, resp = classify(tw, abl, key, aN, aA, aNs, aAs)
                if not ll:
                    fresh_cls[key] = (classes, resp)
            for cls in classes:
                k = (mode, cls)
                seen_cls[k] = seen_cls.get(k, 0) + 1
                if seen_cls[k] > _FAIL_CAP:
                    continue
                nfail = len(ctx.oracle_failures)
                what = (f"query does not terminate within {QUERY_TIME_LIMIT:g} s / {RESULT_SIZE_CAP} results with acceleration data present "
                        f"(it answers without): {key[:160]}: without={str(aN)[:160]}" if _runaway(aA) and not _runaway(aN) else
                        f"answer differs with acceleration data present ({', '.join(resp) or 'unattributed'}): "
                        f"{key[:120]}: without={str(aN)[:160]} with={str(aA)[:160]}")
                ctx.oracle_fail(stream, {"ops": ops_so_far, "sid": sid, "plan_seed": getattr(plan_rng, "_c14_seed", None),
                                         "extra_plan": extra_plan, "checkpoint": label, "mode": mode, "query": json.loads(key),
                                         "without": _clip(aN), "with": _clip(aA), "responsible": resp,
                                         "accelerators": list(tw.accel_log)}, what, cls)
                if len(ctx.oracle_failures) > nfail:
                    seen_cls["_unmatched"] = seen_cls.get("_unmatched", 0) + 1
    if ctx.thorough or plan_rng.random() < 0.5:
        check_bitmap_entries(ctx, tw, ops_so_far, label, sid)
    return answers


def check_bitmap_entries(ctx, tw: Twin, ops_so_far, label, sid):
    """Sound-cache obligation of the bitmap files themselves, one level below the provider: a bitmap that
    `Pack.bitmap` accepts must (a) carry this pack's checksum and (b) answer, for each commit it has an entry
    for, exactly the objects of this pack reachable from that commit."""
    from dulwich.bitmap import bitmap_to_object_shas
    from dulwich.objects import sha_to_hex
    r = tw.A.fresh()
    try:
        for p in list(r.object_store.packs):
            try:
                bm = p.bitmap
            except FileNotFoundError:
                continue
            except Exception as e:
                ctx.count("bitmap.entries", (sid, label, p.name(), "rejected"), True, "rejected:" + type(e).__name__)
                continue
            if bm is None:
                ctx.count("bitmap.entries", (sid, label, p.name(), "ignored"), True, "ignored")
                continue
            case = {"ops": ops_so_far, "sid": sid, "checkpoint": label, "pack": p.name().decode(), "accelerators": list(tw.accel_log),
                    "entries_check": True}
            if bm.pack_checksum != p.get_stored_checksum():
                ctx.oracle_fail("bitmap.entries", case, "a bitmap recording another pack's checksum was loaded and is "
                                "trusted for this pack", "bitmap-for-other-pack-trusted")
                continue
            entries = list(p.index.iterentries())
            pids = {sha_to_hex(s) for s, _, _ in entries}
            by_off = [sha_to_hex(s) for s, _, _ in sorted(entries, key=lambda e: e[1])]
            for key in list(bm.entries):
                cid = sha_to_hex(key) if len(key) == 20 else key
                if cid not in tw.kind:
                    continue
                got = bitmap_to_object_shas(bm.get_bitmap(key), p.index)
                exp = tw.closure([cid]) & pids
                ctx.count("bitmap.entries", (sid, label, p.name(), cid), True, "entry")
                if got != exp:
                    bits = bm.get_bitmap(key).bits
                    pack_order = {by_off[b] for b in bits if b < len(by_off)}
                    cls = "bitmap-pack-order-read-as-index-order" if pack_order == exp else None
                    if cls is None and _xor_chain_broken(tw, bm, key, pids):
                        cls = "bitmap-xor-base-entry-skipped"
                    ctx.oracle_fail("bitmap.entries", dict(case, commit=cid.decode(), got=sorted(x.decode() for x in got)[:6],
                                                            expected=sorted(x.decode() for x in exp)[:6]),
                                    f"bitmap entry for {cid.decode()[:10]} names {len(got)} objects, reachable in this pack "
                                    f"are {len(exp)} (differing sets)", cls)
                    break
    finally:
        r.close()


def run_scenario(ctx, ops: list, sid: str, donor: Path | None, plan_seed: str, extra_plan=None, always_entries=False):
    """Interpret an op list against a fresh twin; compare at every checkpoint."""
    import random
    import shutil
    root = ctx.scratch / ("tw-" + sid)
    if root.exists():
        shutil.rmtree(root)
    tw = Twin(root, donor)
    if donor is not None:
        tw.extra_ids = list(getattr(run_scenario, "_donor_ids", {}).get(str(donor), []))
    prng = random.Random(plan_seed)
    prng._c14_seed = plan_seed
    seen_cls: dict = {}
    done = []
    try:
        for op in ops:
            done.append(op)
            if op[0] == "check":
                checkpoint(ctx, tw, list(done), op[1], sid, prng, seen_cls, extra_plan)
                if seen_cls.get("_unmatched", 0) >= MAX_UNMATCHED_PER_SCENARIO:
                    break       # unexplained differences found: no need to drive this scenario further
                if always_entries:
                    check_bitmap_entries(ctx, tw, list(done), op[1], sid)
            elif op[0] == "accel" and op[2] != "git":
                try:
                    try:
                        _timed(lambda: tw.apply(op), 90.0)
                    except _QueryTimeout:
                        raise TimeoutError("writer does not terminate within 90 s") from None
                except core.InfraError:
                    raise
                except Exception as e:
                    # writers of acceleration files do not fail on the unchanged tree
                    import traceback
                    ctx.disagree("twins.writer", {"ops": list(done), "trace": traceback.format_exc()[-1200:]},
                                 "writer completes", f"{type(e).__name__}: {e}")
                    break
            else:
                try:
                    try:
                        _timed(lambda: tw.apply(op), 90.0)
                    except _QueryTimeout:
                        raise TimeoutError("operation does not terminate within 90 s") from None
                except core.InfraError:
                    raise
                except Exception as e:
                    if getattr(tw, "_side", None) is not tw.A:
                        raise
                    # the same logical operation succeeded on the twin without acceleration files
                    import traceback
                    ctx.oracle_fail("twins.op", {"ops": list(done), "sid": sid, "accelerators": list(tw.accel_log),
                                                 "trace": traceback.format_exc()[-1200:]},
                                    f"operation {op} raises {type(e).__name__}: {str(e)[:200]} in the repository with acceleration "
                                    "data; the same operation succeeds without", None)
                    break
    finally:
        tw.close()
        shutil.rmtree(root, ignore_errors=True)
    return tw


def build_donor(ctx, use_git: bool, seed=None) -> Path:
    """An unrelated repository with every acceleration file, to copy mismatched files from."""
    import random
    import shutil
    rng = random.Random(f"donor:{ctx.seed if seed is None else seed}")
    ops = []
    names = []
    for i in range(8):
        parents = [] if i == 0 else rng.sample(names, min(len(names), rng.choice([1, 1, 2])))
        ops.append(["commit", f"d{i}", parents, "pack" if i % 3 else "loose"])
        names.append(f"d{i}")
    ops += [["ref", "refs/heads/donor", names[-1], "dulwich"], ["repack", "dulwich"],
            ["accel", "commit-graph", "dulwich", "all"], ["accel", "midx", "git" if use_git else "dulwich", "-"],
            ["accel", "bitmap", "dulwich", "files-hash"]]
    root = ctx.scratch / "donor"
    if root.exists():
        shutil.rmtree(root)
    tw = Twin(root, None)
    # make the donor's objects different from every scenario's (content depends on the counter)
    tw.counter = 1000
    try:
        for op in ops:
            tw.apply(op)
    finally:
        tw.close()
    ids = sorted(tw.kind)
    if not hasattr(run_scenario, "_donor_ids"):
        run_scenario._donor_ids = {}
    run_scenario._donor_ids[str(tw.A.path)] = ids[:6]
    return tw.A.path


def all_subsets():
    import itertools
    out = []
    for k in range(len(ACCEL_KINDS) + 1):
        for c in itertools.combinations(ACCEL_KINDS, k):
            out.append(list(c))
    return out


def stream_twins(ctx):
    import random
    subsets = all_subsets()
    # order: singletons and the full set first, so that a small budget still sees each accelerator alone
    subsets.sort(key=lambda s: (len(s) not in (1, 5), len(s)))
    n = ctx.budget(32, mult=6)
    donor = build_donor(ctx, use_git=True)
    for i in range(n):
        if len(ctx.oracle_failures) >= MAX_UNMATCHED_TOTAL:
            ctx.notes.append(f"twin stream stopped after {i} of {n} scenarios: {len(ctx.oracle_failures)} unexplained failures already")
            break
        subset = subsets[i % len(subsets)]
        sseed = f"{ctx.seed}:{i}"
        rng = random.Random("scenario:" + sseed)
        use_git = (i % 4 == 1) if not ctx.thorough else (i % 2 == 1)
        ops = gen_scenario(rng, subset, use_git, size=rng.choice([6, 8, 10, 12]))
        tw = run_scenario(ctx, ops, f"s{i}", donor, "plan:" + sseed)
        tag = "+".join(k[:2] for k in subset) or "none"
        ctx.count("scenarios", (sseed,), True, f"{tag}{':git' if use_git else ''}")
        if i < 2:
            ctx.sample({"stream": "twins", "subset": subset, "ops": ops[:12], "n_ops": len(ops),
                        "commits": len(tw.parents), "octopus": sum(1 for p in tw.parents.values() if len(p) > 2)})
    ctx.extra_cov["accelerator_subsets_covered"] = min(n, len(subsets))


# ================================================================================================
# FORMAT streams: model vs real, byte for byte and cross-decoding
# ================================================================================================

def _csv(xs):
    xs = list(xs)
    return ",".join(str(x) for x in xs) if xs else "-"


def gen_bits(rng) -> tuple[str, list[int]]:
    """Set-bit positions with the shapes that drive the EWAH encoder through all its branches."""
    kind = rng.choice(["empty", "single", "sparse", "dense", "ones-run", "zeros-then", "mixed", "boundary", "alt-runs",
                       "lit-after-run", "full-words"])
    W = 64
    if kind == "empty":
        return kind, []
    if kind == "single":
        return kind, [rng.choice([0, 1, 62, 63, 64, 65, 127, 128, 191, 192, 4095, 4096, rng.randrange(20000)])]
    if kind == "sparse":
        return kind, sorted({rng.randrange(rng.choice([70, 300, 5000])) for _ in range(rng.randint(1, 12))})
    if kind == "dense":
        n = rng.choice([10, 64, 65, 130, 400])
        return kind, [i for i in range(n) if rng.random() < 0.7]
    if kind == "ones-run":
        a, k = rng.randint(0, 3), rng.randint(1, 5)
        bits = list(range(a * W, (a + k) * W))
        if rng.random() < 0.5:
            bits += [(a + k) * W + rng.randrange(W)]
        if rng.random() < 0.3 and a:
            bits += [rng.randrange(a * W)]
        return kind, sorted(set(bits))
    if kind == "zeros-then":
        return kind, sorted({rng.randint(2, 40) * W + rng.randrange(W) for _ in range(rng.randint(1, 3))})
    if kind == "boundary":
        pool = [0, 63, 64, 127, 128, 129, 191, 192, 255, 256]
        return kind, sorted(set(rng.sample(pool, rng.randint(1, len(pool)))))
    if kind == "full-words":
        k = rng.randint(1, 4)
        return kind, list(range(k * W))
    # mixed / alt-runs / lit-after-run: word-level composition
    words = []
    for _ in range(rng.randint(1, 12)):
        t = rng.choice(["z", "o", "l", "l"]) if kind != "alt-runs" else rng.choice(["z", "o"])
        rep = rng.randint(1, 4)
        for _ in range(rep):
            words.append(0 if t == "z" else (2 ** 64 - 1) if t == "o" else rng.getrandbits(64) | 1 << rng.randrange(64))
    bits = [i * W + j for i, w in enumerate(words) for j in range(W) if w >> j & 1]
    return kind, bits


def stream_ewah(ctx):
    import struct
    from dulwich.bitmap import EWAHBitmap, _encode_ewah_words
    rng = ctx.rng
    cases = [("fixed", []), ("fixed", [0]), ("fixed", [63]), ("fixed", [64]), ("fixed", list(range(64))),
             ("fixed", list(range(128))), ("fixed", list(range(64, 128))), ("fixed", [0] + list(range(64, 192)) + [200])]
    cases += [gen_bits(rng) for _ in range(ctx.budget(400))]
    lines = ["c14.ewah.enc " + _csv(b) for _, b in cases]
    outs = ctx.driver.batch(lines)
    dec_lines, dec_meta = [], []
    for (kind, bits), mo in zip(cases, outs):
        bm = EWAHBitmap()
        for p in bits:
            bm.add(p)
        real = bm.encode()
        ctx.count("fmt.ewah.enc", tuple(bits), True, kind)
        if mo != "ok " + hx(real):
            ctx.disagree("fmt.ewah.enc", {"bits": bits[:200], "n": len(bits)}, mo[:300], "ok " + hx(real)[:300])
        # direct oracle: the real pair round-trips
        back = _try(lambda: EWAHBitmap(real))
        if isinstance(back, list) or back.bits != set(bits):
            ctx.oracle_fail("fmt.ewah.roundtrip", {"bits": bits[:300], "encoded": hx(real)[:400]},
                            f"EWAHBitmap(b.encode()).bits != b.bits ({kind})", None)
        dec_lines.append("c14.ewah.dec " + hx(real))
        dec_meta.append(("real-bytes", real, bits))
        if mo.startswith("ok ") and mo != "ok " + hx(real):
            mb = unhx(mo[3:])
            dec_meta.append(("model-bytes", mb, bits))
            dec_lines.append("c14.ewah.dec " + hx(mb))
    # hand-made / hostile encodings: decoder vs decoder
    for _ in range(ctx.budget(300)):
        nwords = rng.randint(0, 6)
        words = []
        for _ in range(nwords):
            if rng.random() < 0.5:
                words.append((rng.choice([0, 1, 2, 3, 7]) << 33) | (rng.choice([0, 1, 2, 3, 5, 2 ** 32 - 1]) << 1) | rng.getrandbits(1))
            else:
                words.append(rng.choice([0, 2 ** 64 - 1, rng.getrandbits(64), rng.getrandbits(64)]))
        bit_count = rng.choice([0, 1, 63, 64, 65, 128, 200, 640, 64 * nwords, 64 * max(nwords - 1, 0)])
        wc = rng.choice([nwords, nwords, nwords, nwords + 1, max(nwords - 1, 0), 0])
        data = struct.pack(">II", bit_count, wc) + b"".join(struct.pack(">Q", w) for w in words) + struct.pack(">I", 0)
        if rng.random() < 0.2:
            data = data[: rng.randrange(len(data) + 1)]
        dec_lines.append("c14.ewah.dec " + hx(data))
        dec_meta.append(("crafted", data, None))
    outs = ctx.driver.batch(dec_lines)
    for (src, data, bits), mo in zip(dec_meta, outs):
        r = _try(lambda: EWAHBitmap(data) if data else EWAHBitmap())
        if isinstance(r, list):
            ro = "err format" if r[1] in ("ValueError", "error") else "exc " + r[1]
        else:
            ro = f"ok {r.bit_count} {_csv(sorted(r.bits))}"
            bc = r.bit_count
            # direct oracle: never a bit at or beyond ceil(bit_count/64)*64
            if r.bits and max(r.bits) >= ((bc + 63) // 64) * 64:
                ctx.oracle_fail("fmt.ewah.bounded", {"data": hx(data)}, "decoder emitted a bit beyond ceil(bit_count/64)*64", None)
        ctx.count("fmt.ewah.dec", data, True, src + ":" + ro[:3])
        if mo != ro:
            ctx.disagree("fmt.ewah.dec", {"data": hx(data)[:400], "src": src}, mo[:300], ro[:300])
        if bits is not None and not isinstance(r, list) and r.bits != set(bits):
            ctx.oracle_fail("fmt.ewah.roundtrip", {"bits": bits[:300], "src": src}, "cross-decoding returned other bits", None)
    # word-level encoder on arbitrary word lists (incl. trailing zero words)
    wl = []
    for _ in range(ctx.budget(200)):
        ws = []
        for _ in range(rng.randint(0, 10)):
            t = rng.choice("zol")
            ws += [0 if t == "z" else 2 ** 64 - 1 if t == "o" else rng.getrandbits(64)] * rng.randint(1, 3)
        wl.append(ws)
    outs = ctx.driver.batch(["c14.ewah.encwords " + _csv(ws) for ws in wl])
    for ws, mo in zip(wl, outs):
        ro = _csv(_encode_ewah_words(list(ws)))
        ctx.count("fmt.ewah.words", tuple(ws), True, f"n{len(ws)}")
        if mo != ro:
            ctx.disagree("fmt.ewah.words", {"words": ws}, mo[:300], ro[:300])
    ctx.sample({"stream": "fmt.ewah", "bits": cases[9][1][:20], "model==real": True})


def _entry_arg(cid: bytes, tree: bytes, parents, gen: int, time: int) -> str:
    return f"{hx(cid)}:{hx(tree)}:{gen}:{time}:" + ("?" if parents is None else ",".join(hx(p) for p in parents) if parents else "-")


def _real_entries_str(g) -> str:
    from dulwich.objects import hex_to_sha
    return "ok" + "".join(" " + _entry_arg(hex_to_sha(e.commit_id), hex_to_sha(e.tree_id),
                                             None if e.parents is None else [hex_to_sha(p) for p in e.parents],
                                             e.generation, e.commit_time) for e in g.entries)


def build_cg_file(oids, recs, edges=None, version=1, hash_version=1, sig=b"CGPH") -> bytes:
    """Harness-side commit-graph builder for reader tests (independent of the model and of dulwich's writer):
    recs = [(tree, p1, p2, gen_word, time_word)], edges = list of 32-bit words or None."""
    import struct
    fan = [0] * 256
    for o in oids:
        fan[o[0]] += 1
    cum, tot = [], 0
    for c in fan:
        tot += c
        cum.append(tot)
    chunks = [(b"OIDF", b"".join(struct.pack(">L", c) for c in cum)), (b"OIDL", b"".join(oids)),
              (b"CDAT", b"".join(t + struct.pack(">LLLL", a, b, g, tm) for t, a, b, g, tm in recs))]
    if edges is not None:
        chunks.append((b"EDGE", b"".join(struct.pack(">L", w) for w in edges)))
    off = 8 + 12 * (len(chunks) + 1)
    toc = b""
    for cid, data in chunks:
        toc += cid + struct.pack(">Q", off)
        off += len(data)
    toc += b"\x00\x00\x00\x00" + struct.pack(">Q", off)
    return sig + bytes([version, hash_version, len(chunks), 0]) + toc + b"".join(d for _, d in chunks)


def _cgit_graph_files(ctx):
    """Commit-graph files written by C git for small histories with octopus merges (EDGE chunk), with the true
    parent lists."""
    import shutil
    out = []
    for k in range(2 if not ctx.thorough else 6):
        root = ctx.scratch / f"cgit-{k}"
        if root.exists():
            shutil.rmtree(root)
        tw = Twin(root, None)
        try:
            rng = ctx.rng
            names = []
            for i in range(rng.randint(5, 9)):
                pool = names[-6:]
                kk = 0 if not names else min(len(pool), rng.choice([1, 2, 3, 4, 5]))
                tw.apply(["commit", f"g{i}", rng.sample(pool, kk), "loose"])
                names.append(f"g{i}")
                if rng.random() < 0.5:
                    tw.apply(["ref", f"refs/heads/x{i}", f"g{i}", "dulwich"])
            tw.apply(["ref", "refs/heads/master", names[-1], "dulwich"])
            _git(tw.A.path, "commit-graph", "write", "--reachable")
            p = tw.A.path / "objects" / "info" / "commit-graph"
            if p.exists():
                out.append((p.read_bytes(), dict(tw.parents)))
        finally:
            tw.close()
            shutil.rmtree(root, ignore_errors=True)
    return out


def stream_cg(ctx):
    from io import BytesIO
    from dulwich.commit_graph import CommitGraph, CommitGraphEntry
    from dulwich.object_format import SHA1
    from dulwich.objects import hex_to_sha, sha_to_hex
    rng = ctx.rng
    wr_lines, wr_meta = [], []
    for _ in range(ctx.budget(150)):
        n = rng.choice([1, 1, 2, 3, 5, 8, 12])
        pool = []
        while len(pool) < n:
            o = rng.randbytes(20)
            if rng.random() < 0.4 and pool:
                o = bytes([rng.choice(pool)[0]]) + o[1:]          # same fan-out bucket
            if rng.random() < 0.1:
                o = bytes([rng.choice([0, 255])]) + o[1:]
            if o not in pool:
                pool.append(o)
        outside = [rng.randbytes(20) for _ in range(2)]
        ents = []
        for o in pool:
            k = rng.choice([0, 1, 1, 2, 2, 3, 4, 6])
            src = pool + (outside if rng.random() < 0.3 else [])
            parents = [rng.choice(src) for _ in range(k)]
            if rng.random() < 0.05:
                parents = None                      # an entry read from a file that did not know its parents
            gen = rng.choice([0, 1, 5, 2 ** 30 - 1, 2 ** 30 - 1, 2 ** 30] if rng.random() < 0.2 else [0, 1, 5, 77])
            tm = rng.choice([0, 1, 1_600_000_000, 2 ** 32 - 1, 2 ** 32, 2 ** 33 + 5, 2 ** 34 - 1])
            ents.append((o, rng.randbytes(20), parents, gen, tm))
        rng.shuffle(ents)
        g = CommitGraph(object_format=SHA1)
        g.entries = [CommitGraphEntry(sha_to_hex(c), sha_to_hex(t), None if ps is None else [sha_to_hex(p) for p in ps], gen, tm)
                     for c, t, ps, gen, tm in ents]
        f = BytesIO()
        real = _try(lambda: (g.write_to_file(f), f.getvalue())[1])
        wr_lines.append("c14.cg.write 1 " + " ".join(_entry_arg(*e) for e in ents))
        wr_meta.append((ents, real))
    outs = ctx.driver.batch(wr_lines)
    rd_lines, rd_meta = [], []
    for (ents, real), mo in zip(wr_meta, outs):
        ro = "err format" if isinstance(real, list) else "ok " + hx(real)
        ctx.count("fmt.cg.write", tuple(e[0] for e in ents), True, f"n{len(ents)}:maxp{max(len(e[2] or []) for e in ents)}")
        if mo != ro:
            ctx.disagree("fmt.cg.write", {"entries": [_entry_arg(*e) for e in ents]}, mo[:400], ro[:400])
        if isinstance(real, list):
            continue
        rd_lines.append("c14.cg.read " + hx(real))
        rd_meta.append(("dulwich-writer", real, ents))
    # reader on harness-built files with EDGE chunks and odd parent words
    NO, M, X = 0x70000000, 0x7FFFFFFF, 0x80000000
    for _ in range(ctx.budget(150)):
        n = rng.randint(1, 6)
        oids = sorted({rng.randbytes(20) for _ in range(n)})
        n = len(oids)
        edges = None
        if rng.random() < 0.7:
            edges = []
            for _ in range(rng.randint(0, 6)):
                w = rng.choice([rng.randrange(n), rng.randrange(n), rng.randrange(n), n, n + 3, M, NO])
                if rng.random() < 0.35:
                    w |= X
                edges.append(w)
        recs = []
        for _ in oids:
            odd = rng.random() < 0.12
            p1 = rng.choice([n, NO - 1, X, NO + 1, M - 1, 2 ** 32 - 1]) if odd else rng.choice([rng.randrange(n), rng.randrange(n), NO, M])
            odd = rng.random() < 0.12
            p2 = rng.choice([n, NO + 5, X | 1000, NO - 1, M - 1]) if odd else rng.choice(
                [rng.randrange(n), NO, NO, M, X | rng.randrange(max(len(edges or []), 1) + 1), X])
            recs.append((rng.randbytes(20), p1, p2, rng.getrandbits(32), rng.getrandbits(32)))
        kw = {}
        r = rng.random()
        if r < 0.05:
            kw["sig"] = b"CGPX"
        elif r < 0.1:
            kw["version"] = 2
        elif r < 0.15:
            kw["hash_version"] = rng.choice([0, 3])
        data = build_cg_file(oids, recs, edges, **kw)
        rd_lines.append("c14.cg.read " + hx(data))
        rd_meta.append(("crafted", data, None))
    for data, truth in _cgit_graph_files(ctx):
        rd_lines.append("c14.cg.read " + hx(data))
        rd_meta.append(("git-writer", data, None))
        g = _try(lambda: CommitGraph.from_file(BytesIO(data)))
        for c, ps in truth.items():
            got = None if isinstance(g, list) else g.get_parents(c)
            ctx.count("fmt.cg.git", (data, c), True, f"p{len(ps)}")
            if got is not None and got != ps:
                ctx.oracle_fail("fmt.cg.git", {"file": hx(data)[:600], "commit": c.decode(), "got": [x.decode() for x in got],
                                               "want": [x.decode() for x in ps]},
                                "commit-graph written by C git is read back with other parents", None)
    outs = ctx.driver.batch(rd_lines)
    gp_lines, gp_meta = [], []
    for (src, data, ents), mo in zip(rd_meta, outs):
        g = _try(lambda: CommitGraph.from_file(BytesIO(data)))
        if isinstance(g, list):
            ro = "err format" if g[1] in ("ValueError", "error") else "exc " + g[1]
        else:
            ro = _real_entries_str(g)
        ctx.count("fmt.cg.read", data, True, src + ":" + ro[:3])
        if mo != ro:
            ctx.disagree("fmt.cg.read", {"file": hx(data)[:600], "src": src}, mo[:400], ro[:400])
        if isinstance(g, list):
            continue
        if ents is not None:
            # direct oracle on the format pair, in the property's words: every answer the reader of the written file
            # gives is the commit's full parent list; "unknown" (None) exactly when a parent is not in the file
            inside = {e[0] for e in ents}
            for c, _t, ps, _g, _tm in ents:
                got = g.get_parents(sha_to_hex(c))
                if ps is None or any(p not in inside for p in ps):
                    ok = got is None
                    want = None
                else:
                    want = [sha_to_hex(p) for p in ps]
                    ok = got == want
                if not ok:
                    ctx.oracle_fail("fmt.cg.roundtrip", {"entries": [_entry_arg(*e) for e in ents], "commit": hx(c)},
                                    f"reader(writer(entries)) answers {got!r:.200} for a commit whose parents are {want!r:.200}", None)
                    break
        qs = [e.commit_id for e in g.entries][:4] + [sha_to_hex(rng.randbytes(20))]
        gp_lines.append("c14.cg.getparents " + hx(data) + " " + " ".join(hx(hex_to_sha(q)) for q in qs))
        gp_meta.append((data, g, qs))
    outs = ctx.driver.batch(gp_lines)
    for (data, g, qs), mo in zip(gp_meta, outs):
        parts = []
        for q in qs:
            ps = g.get_parents(q)
            parts.append("none" if ps is None else (",".join(hx(hex_to_sha(p)) for p in ps) if ps else "-"))
        ro = "ok " + " ".join(parts)
        ctx.count("fmt.cg.getparents", (data, tuple(qs)), True, "q")
        if mo != ro:
            ctx.disagree("fmt.cg.getparents", {"file": hx(data)[:400]}, mo[:300], ro[:300])


def stream_midx(ctx):
    import struct
    from io import BytesIO
    from dulwich.midx import MultiPackIndex, write_midx
    rng = ctx.rng
    for it in range(ctx.budget(60)):
        n = rng.choice([0, 1, 2, 3, 8, 20, 50])
        oids = set()
        while len(oids) < n:
            o = rng.randbytes(20)
            r = rng.random()
            if r < 0.3 and oids:
                o = bytes([rng.choice(sorted(oids))[0]]) + o[1:]
            elif r < 0.45:
                o = bytes([rng.choice([0, 1, 254, 255])]) + o[1:]
            oids.add(o)
        oids = sorted(oids)
        offs = {}
        used = set()
        for o in oids:
            while True:
                v = rng.choice([rng.randrange(1, 10 ** 6), 2 ** 31 - 1, 2 ** 31, 2 ** 31 + rng.randrange(100), 2 ** 32 + rng.randrange(100),
                                2 ** 40 + rng.randrange(100)]) if rng.random() < 0.4 else rng.randrange(12, 10 ** 7)
                if v not in used:
                    used.add(v)
                    break
            offs[o] = v
        npacks = rng.randint(1, 3)
        packs = [(f"pack-{i:040x}.idx", []) for i in range(npacks)]
        where = {}
        for o in oids:
            k = rng.randrange(npacks)
            packs[k][1].append((o, offs[o], None))
            where[o] = k
            if rng.random() < 0.15 and npacks > 1:                      # duplicate in another pack
                k2 = (k + 1) % npacks
                packs[k2][1].append((o, offs[o] + 1, None))
                where[o] = min(k, k2)
        f = BytesIO()
        write_midx(f, packs)
        data = f.getvalue()
        m = MultiPackIndex("mem", contents=data)
        fan = list(m._fanout_table)
        table = [bytes(m._get_oid(i)) for i in range(len(m))]
        if n == 0:
            continue
        probes = list(oids[:6])
        for o in oids[:4]:
            v = int.from_bytes(o, "big")
            probes += [(v + d).to_bytes(20, "big") for d in (-1, 1) if 0 <= v + d < 2 ** 160]
        probes += [rng.randbytes(20) for _ in range(3)] + [b"\x00" * 20, b"\xff" * 20,
                                                          bytes([oids[0][0]]) + b"\x00" * 19, bytes([oids[-1][0]]) + b"\xff" * 19]
        written = {o: next(off for (oo, off, _c) in packs[where[o]][1] if oo == o) for o in oids}
        lines = ["c14.midx.fanout " + ",".join(hx(o) for o in oids),
                 "c14.midx.lookups " + _csv(fan) + " " + ",".join(hx(o) for o in table) + " " + ",".join(hx(p) for p in probes),
                 "c14.midx.offsets " + _csv([written.get(o, 0) for o in table])]
        o_fan, o_look, o_off = ctx.driver.batch(lines)
        ctx.count("fmt.midx.fanout", tuple(oids), True, f"n{n}")
        if o_fan != _csv(fan) or table != oids:
            ctx.disagree("fmt.midx.fanout", {"oids": [hx(o) for o in oids][:40]}, o_fan[:300], _csv(fan)[:300])
        reals = []
        for p in probes:
            r = _try(lambda: m.object_offset(p))
            if r is None:
                reals.append("none")
            elif isinstance(r, list):
                reals.append("err-other")
            else:
                name, off = r
                if p in written and (name != packs[where[p]][0] or off != written[p]):
                    ctx.oracle_fail("fmt.midx.lookup", {"oid": hx(p), "got": [name, off], "want": [packs[where[p]][0], written[p]]},
                                    "MIDX lookup returns another pack/offset than the one written", None)
                reals.append(str(table.index(p)) if p in table else "ghost")
            ctx.count("fmt.midx.lookup", (tuple(oids), p), True, "hit" if reals[-1].isdigit() else reals[-1])
            # direct oracle: the lookup answers exactly for the ids that were written
            if (p in offs) != reals[-1].isdigit():
                ctx.oracle_fail("fmt.midx.lookup", {"oid": hx(p), "present": p in offs, "answer": reals[-1],
                                                    "oids": [hx(o) for o in oids][:60]},
                                "MIDX lookup disagrees with the set of ids written", None)
        if o_look != " ".join(reals):
            ctx.disagree("fmt.midx.lookup", {"oids": [hx(o) for o in table][:40], "probes": [hx(p) for p in probes]},
                         o_look[:300], " ".join(reals)[:300])
        # OOFF / LOFF words as written vs the model's spill
        ooff = [struct.unpack(">L", data[m._ooff_offset + 8 * i + 4: m._ooff_offset + 8 * i + 8])[0] for i in range(len(m))]
        nl = sum(1 for w in ooff if w & 0x80000000)
        loff = [struct.unpack(">Q", data[m._loff_offset + 8 * i: m._loff_offset + 8 * i + 8])[0] for i in range(nl)] if nl else []
        dec = [str(m._get_pack_info(i)[1]) for i in range(len(m))]
        ro = f"{_csv(ooff)} {_csv(loff)} {','.join(dec)}"
        ctx.count("fmt.midx.offsets", tuple(ooff), True, f"large{nl}")
        if o_off != ro:
            ctx.disagree("fmt.midx.offsets", {"n": n}, o_off[:300], ro[:300])
        m.close()


def stream_gate_refs(ctx):
    import shutil
    from io import BytesIO
    from dulwich.bitmap import PackBitmap, read_bitmap_file, write_bitmap_file
    from dulwich.errors import ChecksumMismatch
    from dulwich.refs import DiskRefsContainer
    rng = ctx.rng
    lines, meta = [], []
    for _ in range(ctx.budget(40)):
        a = rng.randbytes(20)
        b = a if rng.random() < 0.4 else (a[:19] + bytes([a[19] ^ 1]) if rng.random() < 0.5 else rng.randbytes(20))
        bm = PackBitmap()
        bm.pack_checksum = b
        f = BytesIO()
        write_bitmap_file(f, bm)
        try:
            read_bitmap_file(BytesIO(f.getvalue()), pack_checksum=a)
            real = "1"
        except ChecksumMismatch:
            real = "0"
        lines.append(f"c14.gate {hx(a)} {hx(b)}")
        meta.append((a, b, real))
    outs = ctx.driver.batch(lines)
    for (a, b, real), mo in zip(meta, outs):
        ctx.count("fmt.gate", (a, b), True, real)
        if mo != real:
            ctx.disagree("fmt.gate", {"pack": hx(a), "stored": hx(b)}, mo, real)
        # direct oracle: a bitmap recorded for another pack is rejected, one for this pack accepted
        if (a == b) != (real == "1"):
            ctx.oracle_fail("fmt.gate", {"pack": hx(a), "stored": hx(b)}, "bitmap checksum gate does not separate own/foreign packs",
                            "bitmap-for-other-pack-trusted")
    # refs: loose files over packed-refs
    names = ["refs/heads/a", "refs/heads/b", "refs/tags/t", "refs/heads/x/y"]
    shas = [("%040x" % (i + 1)) for i in range(5)]
    lines, meta = [], []
    for it in range(ctx.budget(30)):
        d = ctx.scratch / f"refs-{it}"
        if d.exists():
            shutil.rmtree(d)
        d.mkdir(parents=True)
        loose = {n: rng.choice(shas) for n in names if rng.random() < 0.5}
        packed = {n: rng.choice(shas) for n in names if rng.random() < 0.6}
        for n, v in loose.items():
            p = d / n
            p.parent.mkdir(parents=True, exist_ok=True)
            p.write_text(v + "\n")
        if packed or rng.random() < 0.5:
            (d / "packed-refs").write_text("# pack-refs with: peeled fully-peeled sorted \n" +
                                           "".join(f"{v} {n}\n" for n, v in sorted(packed.items())))
        lm = ";".join(f"{k}={v}" for k, v in loose.items()) or "-"
        pm = ";".join(f"{k}={v}" for k, v in packed.items()) or "-"
        rc = DiskRefsContainer(str(d))
        for n in names + ["refs/heads/none"]:
            real = rc.read_ref(n.encode())
            lines.append(f"c14.refs.read {lm} {pm} {n}")
            meta.append(("read", (real or b"none").decode()))
            # direct oracle: loose wins, packed otherwise
            want = loose.get(n, packed.get(n, "none"))
            if (real or b"none").decode() != want:
                ctx.oracle_fail("fmt.refs.read", {"loose": loose, "packed": packed, "name": n, "got": (real or b"none").decode()},
                                "read_ref does not give the loose value, or the packed value when there is no loose file", None)
        # pack_refs(all=True), then look at the files themselves
        sel = [n for n in names if n in loose or n in packed]
        rc.pack_refs(all=True)
        for n in names:
            lf = d / n
            lval = lf.read_text().strip() if lf.is_file() else "none"
            pval = "none"
            if (d / "packed-refs").exists():
                for ln in (d / "packed-refs").read_text().splitlines():
                    if ln.endswith(" " + n) and not ln.startswith("#"):
                        pval = ln.split(" ")[0]
            rval = (DiskRefsContainer(str(d)).read_ref(n.encode()) or b"none").decode()
            lines.append(f"c14.refs.pack {lm} {pm} {','.join(sel) or '-'} {n}")
            meta.append(("pack", f"{lval} {pval} {rval}"))
        shutil.rmtree(d, ignore_errors=True)
    outs = ctx.driver.batch(lines)
    for (what, real), mo, ln in zip(meta, outs, lines):
        ctx.count("fmt.refs." + what, ln, True, what)
        if mo != real:
            ctx.disagree("fmt.refs." + what, {"line": ln}, mo, real)


def stream_cg_close(ctx):
    """`generate_commit_graph` (direct oracle, no model): one entry for every requested commit that exists, each
    with the commit's own, full parent list; written and read back, every answer is the full list or None."""
    from io import BytesIO
    from dulwich.commit_graph import CommitGraph, generate_commit_graph
    from dulwich.object_store import MemoryObjectStore
    from dulwich.objects import Commit, Tree
    rng = ctx.rng
    for _ in range(ctx.budget(80)):
        n = rng.randint(1, 10)
        store = MemoryObjectStore()
        t = Tree()
        store.add_object(t)
        commits = []
        for i in range(n):
            k = 0 if i == 0 else rng.choice([0, 1, 1, 2, 2, 3, 4])
            c = Commit()
            c.tree = t.id
            c.parents = [commits[p].id for p in rng.sample(range(i), min(k, i))]
            c.author = c.committer = b"V <v@example.com>"
            c.author_time = c.commit_time = 1000 + i
            c.author_timezone = c.commit_timezone = 0
            c.message = b"c%d" % i
            store.add_object(c)
            commits.append(c)
        want = [c for c in commits if rng.random() < rng.choice([0.5, 0.8, 1.0])]
        rng.shuffle(want)
        g = generate_commit_graph(store, [c.id for c in want])
        truth = {c.id: c.parents for c in commits}
        case = {"requested": [c.id.decode() for c in want], "parents": {k.decode(): [p.decode() for p in v] for k, v in truth.items()}}
        ctx.count("fmt.cg.generate", tuple(c.id for c in want), True, f"n{len(want)}")
        if sorted(e.commit_id for e in g.entries) != sorted(c.id for c in want) or \
                any(list(e.parents) != truth[e.commit_id] for e in g.entries):
            ctx.oracle_fail("fmt.cg.generate", case, "generate_commit_graph does not describe exactly the requested commits "
                            "with their own parent lists", None)
            continue
        if not g.entries:
            continue
        f = BytesIO()
        g.write_to_file(f)
        g2 = CommitGraph.from_file(BytesIO(f.getvalue()))
        inside = {c.id for c in want}
        for c in commits:
            got = g2.get_parents(c.id)
            exp = truth[c.id] if c.id in inside and all(p in inside for p in truth[c.id]) else None
            if got != exp:
                ctx.oracle_fail("fmt.cg.generate", dict(case, commit=c.id.decode()),
                                f"written graph answers {got!r:.200}, expected {exp!r:.200}", None)
                break


def stream_reach(ctx):
    """`_collect_ancestors` (the walk behind GraphTraversalReachability, MissingObjectFinder, …) on random DAGs in
    a MemoryObjectStore vs the model's `collectAncestors` (the 'stop at common' rule of F10's exclude finding)."""
    from dulwich.object_store import MemoryObjectStore, _collect_ancestors
    from dulwich.objects import Commit, Tree
    rng = ctx.rng
    lines, meta = [], []
    for _ in range(ctx.budget(60)):
        n = rng.randint(1, 9)
        store = MemoryObjectStore()
        t = Tree()
        store.add_object(t)
        ids, par = [], {}
        for i in range(n):
            k = 0 if i == 0 else rng.choice([0, 1, 1, 2, 2, 3])
            ps = rng.sample(range(i), min(k, i))
            c = Commit()
            c.tree = t.id
            c.parents = [ids[p] for p in ps]
            c.author = c.committer = b"V <v@example.com>"
            c.author_time = c.commit_time = 1000 + i
            c.author_timezone = c.commit_timezone = 0
            c.message = b"c%d" % i
            store.add_object(c)
            ids.append(c.id)
            par[i] = ps
        for _ in range(3):
            heads = sorted({rng.randrange(n) for _ in range(rng.randint(1, 3))})
            common = sorted({rng.randrange(n) for _ in range(rng.randint(0, 2))})
            got, _bases = _collect_ancestors(store, [ids[h] for h in heads], frozenset(ids[c] for c in common))
            real = _csv(sorted(ids.index(x) for x in got))
            g = ";".join(f"{i}={_csv(par[i])}" for i in range(n))
            lines.append(f"c14.reach.collect {g} {_csv(common)} {_csv(heads)}")
            meta.append(real)
            shallow = sorted({rng.randrange(n) for _ in range(rng.randint(0, 2))})
            got, _bases = _collect_ancestors(store, [ids[h] for h in heads], frozenset(ids[c] for c in common),
                                             frozenset(ids[c] for c in shallow))
            lines.append(f"c14.reach.collectsh {g} {_csv(common)} {_csv(shallow)} {_csv(heads)}")
            meta.append(_csv(sorted(ids.index(x) for x in got)))
    outs = ctx.driver.batch(lines)
    for ln, real, mo in zip(lines, meta, outs):
        ctx.count("fmt.reach", ln, True, "shallow" if "collectsh" in ln else "excl" if " - " not in ln else "plain")
        if mo != real:
            ctx.disagree("fmt.reach", {"line": ln}, mo, real)


def run_corpus(ctx):
    """Negation witnesses / minimised past failures and always-on probes: scripted scenarios, replayed first on
    every run."""
    import json
    d = core.VERIF / "corpus" / "C14"
    if not d.exists():
        return
    for f in sorted(d.glob("*.json")):
        w = json.loads(f.read_text())
        if w.get("kind") == "worktree":
            continue        # replayed by stream_worktrees
        before = dict(ctx.known_hit)
        nfail = len(ctx.oracle_failures)
        run_scenario(ctx, w["ops"], "corpus-" + w["id"], None, "corpus:" + w["id"], w.get("extra_plan"), always_entries=True)
        hit = {k: v - before.get(k, 0) for k, v in ctx.known_hit.items() if v != before.get(k, 0)}
        new = [x["class"] for x in ctx.oracle_failures[nfail:]]
        exp = w.get("expect")
        ctx.count("corpus", (w["id"],), True, ("holds" if not (hit or new) else "probe-fails") if exp is None
                  else (exp[1] if (hit or new) else "no-longer-fails"))
        ctx.extra_cov.setdefault("corpus_witnesses", {})[w["id"]] = {"expected": exp, "known_hit": hit, "unmatched": new[:3]}


def run(ctx: core.Ctx):
    ctx.assumptions += [
        "WITH/WITHOUT pairs: twin repositories built by the same logical operations; the 'without' side never "
        "receives an acceleration file; queries are asked through a long-lived handle and a fresh handle of each",
        "ground truth used only to CLASSIFY a differing pair (never to decide that a pair differs): parent lists, "
        "trees and tag targets as constructed by the harness",
        "packed-refs stat-identity cache: two different files never share (inode, size, mtime_ns) (idealisation)",
    ]
    _quiet()
    _cap_reports(ctx)
    run_corpus(ctx)
    for fn in (stream_ewah, stream_cg, stream_cg_close, stream_midx, stream_gate_refs, stream_reach, stream_worktrees):
        try:
            fn(ctx)
        except core.InfraError:
            raise
        except Exception as e:
            # the unchanged tree never gets here: a codec that now raises on generated, well-formed input
            import traceback
            ctx.disagree(fn.__name__, {"trace": traceback.format_exc()[-1500:]}, "stream completes", f"{type(e).__name__}: {e}")
    stream_twins(ctx)


def _cap_reports(ctx):
    """Bound what the harness keeps when very many cases fail (a mutated codec fails on almost every generated
    case): per (stream, class) only the first few unexplained failures / disagreements are recorded, the rest is
    counted.  Failures explained by a known finding are only counted by core anyway."""
    if getattr(ctx, "_c14_capped", False):
        return
    ctx._c14_capped = True
    of, dg = ctx.oracle_fail, ctx.disagree
    n_of: dict = {}
    n_dg: dict = {}
    dropped = ctx.extra_cov.setdefault("reports_dropped_by_cap", {})

    def oracle_fail(stream, case, what, cls=None):
        known = cls is not None and any(k.get("match", {}).get("class") == cls and k.get("match", {}).get("stream", stream) == stream
                                        for k in ctx.known)
        if not known:
            k = (stream, cls)
            n_of[k] = n_of.get(k, 0) + 1
            if n_of[k] > 5:
                dropped[f"oracle:{stream}:{cls}"] = n_of[k] - 5
                return
        return of(stream, case, what, cls)

    def disagree(stream, case, model, impl, variant="impl"):
        n_dg[stream] = n_dg.get(stream, 0) + 1
        if n_dg[stream] > 8:
            dropped[f"disagree:{stream}"] = n_dg[stream] - 8
            return
        return dg(stream, case, model, impl, variant)
    ctx.oracle_fail, ctx.disagree = oracle_fail, disagree


def _quiet():
    import logging
    import warnings
    logging.getLogger("dulwich").setLevel(logging.ERROR)
    logging.getLogger("dulwich.pack").setLevel(logging.ERROR)
    warnings.simplefilter("ignore", ResourceWarning)


def search(ctx: core.Ctx):
    """Failing-input search after a broken obligation / correspondence: the direct oracles again, harder.
    (1) the format round-trip oracles with a boosted budget (they need no model); (2) every witness and probe of
    the corpus; (3) many more twin scenarios, all accelerator kinds at once, both writers, until one pair differs
    in a way no known finding explains."""
    import random
    _quiet()
    _cap_reports(ctx)
    for fn in (stream_ewah, stream_cg, stream_cg_close, stream_midx, stream_gate_refs, stream_reach, stream_worktrees):
        try:
            fn(ctx)
        except core.InfraError:
            raise
        except Exception as e:   # a mutated codec may crash the stream itself
            ctx.notes.append(f"search: {fn.__name__} crashed: {type(e).__name__}: {e}")
        if ctx.oracle_failures:
            return
    run_corpus(ctx)
    if ctx.oracle_failures:
        return
    donor = build_donor(ctx, use_git=True)
    subsets = all_subsets()
    for i in range(ctx.budget(24, mult=4)):
        sseed = f"search:{ctx.seed}:{i}"
        rng = random.Random("scenario:" + sseed)
        subset = ACCEL_KINDS if i % 2 == 0 else subsets[rng.randrange(len(subsets))]
        ops = gen_scenario(rng, list(subset), use_git=(i % 3 == 0), size=rng.choice([8, 10, 12]))
        run_scenario(ctx, ops, f"q{i}", donor, "plan:" + sseed, always_entries=True)
        if ctx.oracle_failures:
            return


def replay(ctx: core.Ctx, data: dict) -> int:
    """Re-run one failing case: twin scenarios are replayed op by op (same plans, same donor); format cases
    re-run the direct round-trip oracle on the stored input."""
    _quiet()
    c = data.get("case", {})
    before = 0
    if "ops" in c:
        donor = None
        if any(op[0] == "donor" for op in c["ops"]):
            donor = build_donor(ctx, use_git=True, seed=data.get("seed", ctx.seed))
        ops = list(c["ops"])
        if not ops or ops[-1][0] != "check":
            ops.append(["check", "replay"])
        run_scenario(ctx, ops, c.get("sid", "replay"), donor, c.get("plan_seed") or "plan:replay", c.get("extra_plan"),
                     always_entries=bool(c.get("entries_check")))
    elif "bits" in c:
        from dulwich.bitmap import EWAHBitmap
        bm = EWAHBitmap()
        for p in c["bits"]:
            bm.add(p)
        back = _try(lambda: EWAHBitmap(bm.encode()).bits)
        print("replay ewah:", "round trip ok" if back == set(c["bits"]) else f"round trip FAILS: {str(back)[:200]}")
        if back != set(c["bits"]):
            ctx.oracle_fail("replay", c, "EWAH round trip fails")
    elif "data" in c:
        from dulwich.bitmap import EWAHBitmap
        r = _try(lambda: EWAHBitmap(unhx(c["data"])))
        if not isinstance(r, list) and r.bits and max(r.bits) >= ((r.bit_count + 63) // 64) * 64:
            ctx.oracle_fail("replay", c, "decoder emitted a bit beyond the declared size")
    elif "entries" in c:
        from io import BytesIO
        from dulwich.commit_graph import CommitGraph, CommitGraphEntry
        from dulwich.object_format import SHA1
        g = CommitGraph(object_format=SHA1)
        ents = []
        for e in c["entries"]:
            cid, tree, gen, tm, ps = e.split(":")
            ents.append((cid.encode(), [p.encode() for p in ps.split(",")] if ps != "-" else []))
            g.entries.append(CommitGraphEntry(cid.encode(), tree.encode(), ents[-1][1], int(gen), int(tm)))
        f = BytesIO()
        g.write_to_file(f)
        g2 = CommitGraph.from_file(BytesIO(f.getvalue()))
        for cid, ps in ents:
            if g2.get_parents(cid) != ps:
                print("replay commit-graph:", cid.decode(), "read back", g2.get_parents(cid), "written", ps)
                ctx.oracle_fail("replay", c, "commit-graph parent round trip fails", data.get("class"))
                break
    else:
        print("replay: nothing replayable in this file (broken-obligation report?)")
    for f in ctx.oracle_failures[before:]:
        print("replay: FAILS:", f["what"][:300])
    for k, n in ctx.known_hit.items():
        print(f"replay: known finding {k} reproduced ({n}x)")
    if ctx.oracle_failures:
        print(f"VIOLATION property=C14 replay={data.get('_path', '<replayed>')}")
        return 1
    print("replay: property holds on this case" + (" (apart from known findings)" if ctx.known_hit else ""))
    return 0


# ================================================================================================
# packed-refs through linked worktrees (per-worktree git dir != common dir)
# ================================================================================================

def _wt_answers(path: Path, names) -> dict:
    """Ref answers through the Repo opened at `path` (main checkout or linked worktree)."""
    from dulwich.repo import Repo
    out = {}
    r = Repo(str(path))
    try:
        out["as_dict"] = _try(lambda: sorted((k.decode(), v.decode()) for k, v in r.refs.as_dict().items()))
        out["keys"] = _try(lambda: sorted(k.decode() for k in r.refs.keys()))
        out["head"] = _try(lambda: r.head().decode())
        for n in names:
            out["read:" + n] = _try(lambda: (r.refs.read_ref(n.encode()) or b"<none>").decode())
            out["in:" + n] = _try(lambda: n.encode() in r.refs)
            out["get:" + n] = _try(lambda: r.refs[n.encode()].decode())
    finally:
        r.close()
    return out


def _is_shared(n: str) -> bool:
    return n.startswith("refs/") and not n.startswith(("refs/bisect/", "refs/worktree/", "refs/rewritten/"))


def stream_worktrees(ctx):
    """Twin checkouts with a linked worktree each; the same ref operations through the main repository and through
    the linked worktree; one twin additionally gets its refs packed (dulwich / C git, from either side).  Compared:
    without vs with packed-refs through each view; main view vs linked view for shared refs; `git for-each-ref`
    from both worktrees vs dulwich; and no packed-refs file ever appears under .git/worktrees/<id>/."""
    import shutil
    from dulwich.repo import Repo
    rng = ctx.rng
    env_dates = {"GIT_AUTHOR_DATE": "1600000000 +0000", "GIT_COMMITTER_DATE": "1600000000 +0000"}

    def git(path, *args):
        import subprocess
        p = subprocess.run(["git", "-C", str(path), "-c", "gc.auto=0", "-c", "init.defaultBranch=master", *args],
                           env=core.clean_env(env_dates), stdout=subprocess.PIPE, stderr=subprocess.STDOUT, text=True, timeout=60)
        if p.returncode != 0:
            raise core.InfraError(f"git {' '.join(args)} failed in {path}: {p.stdout[-400:]}")
        return p.stdout

    import json as _json
    scripts = []
    for f in sorted((core.VERIF / "corpus" / "C14").glob("worktree-*.json")):
        scripts.append(_json.loads(f.read_text())["ops"])
    names = ["refs/heads/master", "refs/heads/b1", "refs/heads/b2", "refs/heads/wt", "refs/tags/t1", "refs/tags/a1",
             "refs/worktree/w", "refs/bisect/bad", "refs/heads/never", "HEAD"]
    reported = 0
    for it in range(ctx.budget(6, mult=5)):
        root = ctx.scratch / f"wt-{it}"
        if root.exists():
            shutil.rmtree(root)
        sides = {}
        for side in ("N", "A"):
            main = root / side / "main"
            main.mkdir(parents=True)
            git(main, "init", "-q", ".")
            for i in range(3):
                git(main, "commit", "-q", "--allow-empty", "-m", f"c{i}")
            git(main, "branch", "b1", "HEAD~1")
            git(main, "branch", "b2", "HEAD~2")
            git(main, "tag", "t1", "HEAD~1")
            git(main, "tag", "-a", "-m", "a1", "a1", "HEAD")
            git(main, "worktree", "add", "-q", "-b", "wt", str(root / side / "linked"), "HEAD~1")
            sides[side] = {"main": main, "linked": root / side / "linked"}
        shas = git(sides["N"]["main"], "rev-list", "master").split()
        scripted = scripts[it] if it < len(scripts) else None
        nops = len(scripted) if scripted else rng.randint(4, 9)
        log = []
        for step in range(nops + 1):
            if step:
                if scripted:
                    kind, view, actor, name, val = scripted[step - 1]
                    val = shas[val]
                else:
                    view = rng.choice(["main", "linked"])
                    actor = rng.choice(["dulwich", "dulwich", "git"])
                    kind = rng.choice(["set", "set", "delete", "per-wt", "pack", "pack", "pack"])
                    name = rng.choice(["refs/heads/b1", "refs/heads/b2", "refs/tags/t1", "refs/heads/new"])
                    val = rng.choice(shas)
                op = [kind, view, actor, name, val]
                log.append(op)
                for side in ("N", "A"):
                    p = sides[side][view]
                    if kind == "pack":
                        if side == "N":
                            continue                     # the twin without packed-refs
                        if actor == "git":
                            git(p, "pack-refs", "--all")
                        else:
                            r = Repo(str(p))
                            try:
                                r.refs.pack_refs(all=True)
                            finally:
                                r.close()
                        continue
                    if kind == "per-wt":
                        if side == "N":
                            name2 = name if scripted else rng.choice(["refs/worktree/w", "refs/bisect/bad"])
                        target = name2
                    else:
                        target = name
                    if actor == "git":
                        if kind == "delete":
                            git(p, "update-ref", "-d", target)
                        else:
                            git(p, "update-ref", target, val)
                    else:
                        r = Repo(str(p))
                        try:
                            if kind == "delete":
                                try:
                                    del r.refs[target.encode()]
                                except KeyError:
                                    pass
                            else:
                                r.refs[target.encode()] = val.encode()
                        finally:
                            r.close()
            ans = {(side, view): _wt_answers(sides[side][view], names) for side in ("N", "A") for view in ("main", "linked")}
            case = {"ops": log[:], "step": step}
            problems = []
            unexplained = False
            for view in ("main", "linked"):
                for k, v in ans[("N", view)].items():
                    ctx.count("worktree.pair", (it, step, view, k), True, view)
                    if ans[("A", view)][k] != v:
                        problems.append((f"through the {view} view {k} is {ans[('A', view)][k]!r:.160} with packed-refs, {v!r:.160} without",
                                         "worktree-packed-refs-changes-answer"))
            for n in names:
                if _is_shared(n):
                    for pre in ("read:", "in:", "get:"):
                        if ans[("A", "main")][pre + n] != ans[("A", "linked")][pre + n]:
                            problems.append((f"shared ref {n}: main view {ans[('A', 'main')][pre + n]!r:.100}, linked view "
                                             f"{ans[('A', 'linked')][pre + n]!r:.100}", "worktree-shared-ref-views-differ"))
            for view in ("main", "linked"):
                fer = sorted(tuple(reversed(ln.split(" ", 1))) for ln in git(sides["A"][view], "for-each-ref", "--format=%(objectname) %(refname)").splitlines())
                dul = ans[("A", view)]["as_dict"]
                if isinstance(dul, list):
                    dul = sorted((k, v) for k, v in dul if k.startswith("refs/"))
                    ctx.count("worktree.git", (it, step, view), True, view)
                    if [tuple(x) for x in dul] != fer:
                        problems.append((f"{view} view: dulwich lists {len(dul)} refs, git for-each-ref {len(fer)}: "
                                         f"{sorted(set(map(tuple, dul)) ^ set(fer))[:4]}", "worktree-refs-differ-from-git"))
            stray = [str(x) for x in (sides["A"]["main"] / ".git" / "worktrees").glob("*/packed-refs")]
            if stray:
                problems.append((f"packed-refs created under the per-worktree git dir: {stray}", "packed-refs-in-worktree-gitdir"))
            packed_text = (sides["A"]["main"] / ".git" / "packed-refs").read_text() if (sides["A"]["main"] / ".git" / "packed-refs").exists() else ""
            packed_per_wt = {ln.split(" ", 1)[1] for ln in packed_text.splitlines()
                             if " " in ln and not ln.startswith(("#", "^")) and not _is_shared(ln.split(" ", 1)[1])}

            def leak_only(view, k):
                """the difference concerns only per-worktree refs that sit in the shared packed-refs file"""
                a, n_ = ans[("A", view)][k], ans[("N", view)][k]
                if k in ("as_dict", "keys") and isinstance(a, list) and isinstance(n_, list):
                    nm = lambda xs: {x[0] if isinstance(x, (list, tuple)) else x for x in xs}   # noqa: E731
                    da = {tuple(x) if isinstance(x, list) else x for x in a} ^ {tuple(x) if isinstance(x, list) else x for x in n_}
                    return bool(da) and nm(da) <= packed_per_wt
                return ":" in k and k.split(":", 1)[1] in packed_per_wt
            for what, cls in problems[:6]:
                if cls == "worktree-packed-refs-changes-answer":
                    m = re.match(r"through the (\w+) view (\S+) is", what)
                    if m and leak_only(m.group(1), m.group(2)):
                        cls = "packed-refs-holds-per-worktree-ref"
                elif cls == "worktree-refs-differ-from-git" and packed_per_wt:
                    cls = "packed-refs-holds-per-worktree-ref"
                if reported < 6:
                    nf = len(ctx.oracle_failures)
                    ctx.oracle_fail("worktree", dict(case, what=what), what, cls)
                    reported += len(ctx.oracle_failures) - nf
                    unexplained = unexplained or len(ctx.oracle_failures) > nf
            if unexplained:
                break
        shutil.rmtree(root, ignore_errors=True)
