"""C05 — fetch, clone and push transfer a complete, byte-identical object closure.

Model: lean/DulwichModel/Model/{Graph,Missing,Negotiate}.lean; theorems: Props/C05.lean.
Tie: translate() regenerates Gen/Graph.lean (structure of MissingObjectFinder.__next__,
_collect_filetree_revs, _collect_ancestors, S_IFGITLINK, want validation) from the source;
run() drives
  * mof.*      random abstract object graphs -> Lean model  vs  the real MissingObjectFinder on the same
               graph materialised as real objects (arbitrary pop orders on both sides), plus the
               property's own words evaluated on the real result (sound / complete w.r.t. closures
               computed independently in Python);
  * nego.*     have/ack transcripts -> model walker  vs  the real server graph walkers;
  * e2e.*      real transfers between disk repositories over every transport (in-process local client,
               dulwich TCP server, dulwich WSGI smart HTTP, C git upload-pack/receive-pack subprocess,
               C git client against the dulwich servers) x capability variations; after each transfer
               the receiver is checked for closure + byte identity, the objects that travelled for
               over-sending, and `git fsck --connectivity-only` in the thorough tier.
"""
from __future__ import annotations

import ast
import json
from pathlib import Path

from .. import core, translate as T

MOD = "c05"


# ------------------------------------------------------------------------------------------------
# translator

def _src(node) -> str:
    return ast.unparse(node).replace(" ", "").replace("\n", "")


def _tuples4(func):
    """All 4-tuples (sha, name, type_num, leaf) written in `func`, keyed by the source of the sha."""
    out = {}
    for n in ast.walk(func):
        if isinstance(n, ast.Tuple) and len(n.elts) == 4:
            out[_src(n.elts[0])] = n
    return out


def _enclosing_ifs(func, target):
    """Source of the tests of the `if` statements (positive branch) enclosing `target` in func."""
    tests = []

    def walk(node, stack):
        if node is target:
            tests.extend(stack)
            return True
        for field, value in ast.iter_fields(node):
            items = value if isinstance(value, list) else [value]
            for ch in items:
                if not isinstance(ch, ast.AST):
                    continue
                st = stack
                if isinstance(node, ast.If) and field == "body":
                    st = stack + [_src(node.test)]
                if walk(ch, st):
                    return True
        return False
    walk(func, [])
    return tests


def _leaf_const(node, what):
    if isinstance(node, ast.Constant) and isinstance(node.value, bool):
        return node.value
    raise T.TranslateError(f"{what}: leaf flag is not a boolean literal: {ast.unparse(node)}")


def _b(x: bool) -> str:
    return "true" if x else "false"


def translate(repo: Path) -> dict:
    obj_tree = T.module_ast(repo / "dulwich" / "objects.py")
    gitlink = T.const_value(obj_tree, "S_IFGITLINK")
    isgl = T.find_def(obj_tree, "S_ISGITLINK")
    ret = [n for n in ast.walk(isgl) if isinstance(n, ast.Return)]
    if len(ret) != 1 or _src(ret[0].value) != "stat.S_IFMT(m)==S_IFGITLINK":
        raise T.TranslateError("S_ISGITLINK is no longer `stat.S_IFMT(m) == S_IFGITLINK`")

    os_tree = T.module_ast(repo / "dulwich" / "object_store.py")
    nxt = T.find_def(os_tree, "MissingObjectFinder.__next__")
    tup = _tuples4(nxt)
    for k in ("o.tree", "s", "o.object[1]", "self._tagged[sha]"):
        if k not in tup:
            raise T.TranslateError(f"MissingObjectFinder.__next__: no todo tuple for {k}")
    commit_leaf = _leaf_const(tup["o.tree"].elts[3], "commit->tree")
    tag_leaf = _leaf_const(tup["o.object[1]"].elts[3], "tag->target")
    tagged_leaf = _leaf_const(tup["self._tagged[sha]"].elts[3], "tagged")
    entry_leaf = _src(tup["s"].elts[3])
    if entry_leaf == "notstat.S_ISDIR(m)":
        entry_leaf_notdir = True
    elif entry_leaf == "False":
        entry_leaf_notdir = False
    else:
        raise T.TranslateError(f"tree entry leaf flag is `{entry_leaf}`")
    guards = _enclosing_ifs(nxt, tup["s"])
    tree_skips_gitlinks = "notS_ISGITLINK(m)" in guards
    # the expansion is guarded by `if not leaf:` and by the isinstance dispatch
    if "notleaf" not in _enclosing_ifs(nxt, tup["o.tree"]):
        raise T.TranslateError("__next__: expansion no longer guarded by `if not leaf`")
    for k, cls in (("o.tree", "isinstance(o,Commit)"), ("s", "isinstance(o,Tree)")):
        if cls not in _enclosing_ifs(nxt, tup[k]):
            raise T.TranslateError(f"__next__: todo for {k} not under {cls}")
    # `if sha not in self.sha_done: break` pop loop, `self.sha_done.add(sha)`
    srcn = _src(nxt)
    for frag in ("ifshanotinself.sha_done:", "self.sha_done.add(sha)", "self.objects_to_send.pop()",
                 "ifshainself._tagged:"):
        if frag not in srcn:
            raise T.TranslateError(f"__next__: `{frag}` not found")
    add_todo = _src(T.find_def(os_tree, "MissingObjectFinder.add_todo"))
    if "ife[0]notinself.sha_done" not in add_todo:
        raise T.TranslateError("add_todo no longer filters on sha_done")

    # __init__: queue initialisation tuples and the have/want differences
    init = T.find_def(os_tree, "MissingObjectFinder.__init__")
    isrc = _src(init)
    init_leafs = set()
    for n in ast.walk(init):
        if isinstance(n, ast.Tuple) and len(n.elts) == 4 and _src(n.elts[0]) == "w":
            init_leafs.add(_leaf_const(n.elts[3], "initial queue"))
    if init_leafs != {False}:
        raise T.TranslateError(f"__init__: initial queue leaf flags {init_leafs}")
    for frag in ("want_tags.difference(have_tags)", "want_others.difference(have_others)",
                 "unknown='ignore'", "unknown='error'", "fortinhave_tags:self.remote_has.add(t)",
                 "self.remote_has.add(h)", "reachability.get_tree_objects([cmt.tree])",
                 "self.sha_done=set(self.remote_has)",
                 "reachability.get_reachable_commits(have_commits,exclude=None,shallow=shallow)",
                 "_collect_ancestors(object_store,want_commits,frozenset(all_ancestors),shallow=frozenset(shallow),"
                 "get_parents=self._get_parents)"):
        if frag not in isrc:
            raise T.TranslateError(f"MissingObjectFinder.__init__: `{frag}` not found")

    # _collect_filetree_revs
    cf = T.find_def(os_tree, "_collect_filetree_revs")
    cfs = _src(cf)
    cond = None
    for n in ast.walk(cf):
        if isinstance(n, ast.If) and "kset" in _src(n.test):
            cond = _src(n.test)
            inner = [m for m in ast.walk(n) if isinstance(m, ast.If) and m is not n]
            rec = [_src(m.test) for m in inner]
    if cond is None:
        raise T.TranslateError("_collect_filetree_revs: membership test not found")
    cftr_skips = "notS_ISGITLINK(mode)" in cond
    if "shanotinkset" not in cond:
        raise T.TranslateError(f"_collect_filetree_revs: condition is `{cond}`")
    if rec != ["stat.S_ISDIR(mode)"]:
        raise T.TranslateError(f"_collect_filetree_revs: recursion guard {rec}")
    cftr_root = "kset.add(tree_sha)" in cfs

    # _collect_ancestors: shape of the loop body
    ca = T.find_def(os_tree, "_collect_ancestors")
    cas = _src(ca)
    for frag in ("e=queue.pop(0)", "ifeincommon:bases.add(e)", "elifenotincommits:commits.add(e)",
                 "ifeinshallow:continue", "queue.extend(parents)", "return(commits,bases)"):
        if frag not in cas:
            raise T.TranslateError(f"_collect_ancestors: `{frag}` not found")

    # _split_commits_and_tags: tag recursion on o.object[1]
    sp = _src(T.find_def(os_tree, "_split_commits_and_tags"))
    for frag in ("tags.add(e)", "tagged=o.object[1]", "commits.add(e)", "others.add(e)",
                 "_split_commits_and_tags(obj_store,[tagged],unknown=unknown)"):
        if frag not in sp:
            raise T.TranslateError(f"_split_commits_and_tags: `{frag}` not found")

    # find_common_revisions: a have counts only when the store has it
    fc = _src(T.find_def(os_tree, "BaseObjectStore.find_common_revisions"))
    have_checked = "ifshainself:haves.append(sha)" in fc

    # server: want validation against the advertised values
    sv_tree = T.module_ast(repo / "dulwich" / "server.py")
    dw = _src(T.find_def(sv_tree, "_ProtocolGraphWalker.determine_wants"))
    want_checked = "values=set(heads.values())" in dw and "ifsha_resultnotinvalues:raiseGitProtocolError" in dw

    cl_tree = T.module_ast(repo / "dulwich" / "client.py")
    max_in_vain = T.const_value(cl_tree, "MAX_IN_VAIN")

    src = T.lean_header("dulwich/objects.py: S_IFGITLINK, S_ISGITLINK; dulwich/object_store.py: MissingObjectFinder, "
                        "_collect_filetree_revs, _collect_ancestors, _split_commits_and_tags, find_common_revisions; "
                        "dulwich/server.py: determine_wants; dulwich/client.py: MAX_IN_VAIN") + f"""
namespace Dulwich.Gen
/-- `S_IFGITLINK` -/
def sIfGitlink : Nat := {gitlink}
/-- leaf flag of the `(o.tree, b"", Tree.type_num, <leaf>)` todo of a commit -/
def mofCommitTreeLeaf : Bool := {_b(commit_leaf)}
/-- leaf flag of the `(o.object[1], None, type, <leaf>)` todo of a tag -/
def mofTagTargetLeaf : Bool := {_b(tag_leaf)}
/-- leaf flag of the `(self._tagged[sha], None, None, <leaf>)` todo (auto-followed tag) -/
def mofTaggedLeaf : Bool := {_b(tagged_leaf)}
/-- tree entries are queued with leaf = `not stat.S_ISDIR(m)` (false: always expanded) -/
def mofEntryLeafIsNotDir : Bool := {_b(entry_leaf_notdir)}
/-- tree entries are queued only `if not S_ISGITLINK(m)` -/
def mofTreeSkipsGitlinks : Bool := {_b(tree_skips_gitlinks)}
/-- `_collect_filetree_revs` tests `not S_ISGITLINK(mode) and sha not in kset` -/
def cftrSkipsGitlinks : Bool := {_b(cftr_skips)}
/-- `_collect_filetree_revs` adds the root tree itself to the set -/
def cftrAddsRoot : Bool := {_b(cftr_root)}
/-- `find_common_revisions` keeps a have only `if sha in self` -/
def haveCheckedAgainstStore : Bool := {_b(have_checked)}
/-- `determine_wants` refuses a want that is not a value of an advertised ref -/
def wantCheckedAgainstAdvertised : Bool := {_b(want_checked)}
/-- `MAX_IN_VAIN` (client gives up after this many unacknowledged haves) -/
def maxInVain : Nat := {max_in_vain}
end Dulwich.Gen
"""
    return {"Graph": src}
