"""C05 — fetch, clone and push transfer a complete, byte-identical object closure.

Model: lean/DulwichModel/Model/{Graph,Missing,Negotiate}.lean; theorems: Props/C05.lean.
Tie: translate() regenerates Gen/ObjGraph.lean (structure of MissingObjectFinder.__next__,
_collect_filetree_revs, _collect_ancestors, S_IFGITLINK, want validation) from the source;
run() drives
  * mof.*      random abstract object graphs -> Lean model  vs  the real MissingObjectFinder on the same
               graph materialised as real objects (arbitrary pop orders on both sides), plus the
               property's own words evaluated on the real result (sound / complete w.r.t. closures
               computed independently in Python);
  * nego.*     have/ack transcripts -> model walker  vs  the real server graph walkers;
  * e2e.*      real transfers between disk repositories over every transport (in-process local client,
               dulwich TCP server, dulwich WSGI smart HTTP, C git upload-pack/receive-pack subprocess,
               C git client against the dulwich servers) x capability variations; after each transfer
               the receiver is checked for closure + byte identity, the objects that travelled for
               over-sending, and `git fsck --connectivity-only` in the thorough tier.
"""
from __future__ import annotations

import ast
import json
from pathlib import Path

from .. import core, translate as T

MOD = "c05"


# ------------------------------------------------------------------------------------------------
# translator

def _src(node) -> str:
    return ast.unparse(node).replace(" ", "").replace("\n", "")


def _tuples4(func):
    """All 4-tuples (sha, name, type_num, leaf) written in `func`, keyed by the source of the sha."""
    out = {}
    for n in ast.walk(func):
        if isinstance(n, ast.Tuple) and len(n.elts) == 4:
            out[_src(n.elts[0])] = n
    return out


def _enclosing_ifs(func, target):
    """Source of the tests of the `if` statements (positive branch) enclosing `target` in func."""
    tests = []

    def walk(node, stack):
        if node is target:
            tests.extend(stack)
            return True
        for field, value in ast.iter_fields(node):
            items = value if isinstance(value, list) else [value]
            for ch in items:
                if not isinstance(ch, ast.AST):
                    continue
                st = stack
                if isinstance(node, ast.If) and field == "body":
                    st = stack + [_src(node.test)]
                if walk(ch, st):
                    return True
        return False
    walk(func, [])
    return tests


def _leaf_const(node, what):
    if isinstance(node, ast.Constant) and isinstance(node.value, bool):
        return node.value
    raise T.TranslateError(f"{what}: leaf flag is not a boolean literal: {ast.unparse(node)}")


def _b(x: bool) -> str:
    return "true" if x else "false"


def translate(repo: Path) -> dict:
    obj_tree = T.module_ast(repo / "dulwich" / "objects.py")
    gitlink = T.const_value(obj_tree, "S_IFGITLINK")
    isgl = T.find_def(obj_tree, "S_ISGITLINK")
    ret = [n for n in ast.walk(isgl) if isinstance(n, ast.Return)]
    if len(ret) != 1 or _src(ret[0].value) != "stat.S_IFMT(m)==S_IFGITLINK":
        raise T.TranslateError("S_ISGITLINK is no longer `stat.S_IFMT(m) == S_IFGITLINK`")

    os_tree = T.module_ast(repo / "dulwich" / "object_store.py")
    nxt = T.find_def(os_tree, "MissingObjectFinder.__next__")
    tup = _tuples4(nxt)
    for k in ("o.tree", "s", "o.object[1]", "self._tagged[sha]"):
        if k not in tup:
            raise T.TranslateError(f"MissingObjectFinder.__next__: no todo tuple for {k}")
    commit_leaf = _leaf_const(tup["o.tree"].elts[3], "commit->tree")
    tag_leaf = _leaf_const(tup["o.object[1]"].elts[3], "tag->target")
    tagged_leaf = _leaf_const(tup["self._tagged[sha]"].elts[3], "tagged")
    entry_leaf = _src(tup["s"].elts[3])
    if entry_leaf == "notstat.S_ISDIR(m)":
        entry_leaf_notdir = True
    elif entry_leaf == "False":
        entry_leaf_notdir = False
    else:
        raise T.TranslateError(f"tree entry leaf flag is `{entry_leaf}`")
    guards = _enclosing_ifs(nxt, tup["s"])
    tree_skips_gitlinks = "notS_ISGITLINK(m)" in guards
    # the expansion is guarded by `if not leaf:` and by the isinstance dispatch
    if "notleaf" not in _enclosing_ifs(nxt, tup["o.tree"]):
        raise T.TranslateError("__next__: expansion no longer guarded by `if not leaf`")
    for k, cls in (("o.tree", "isinstance(o,Commit)"), ("s", "isinstance(o,Tree)")):
        if cls not in _enclosing_ifs(nxt, tup[k]):
            raise T.TranslateError(f"__next__: todo for {k} not under {cls}")
    # `if sha not in self.sha_done: break` pop loop, `self.sha_done.add(sha)`
    srcn = _src(nxt)
    for frag in ("ifshanotinself.sha_done:", "self.sha_done.add(sha)", "self.objects_to_send.pop()",
                 "ifshainself._tagged:"):
        if frag not in srcn:
            raise T.TranslateError(f"__next__: `{frag}` not found")
    add_todo = _src(T.find_def(os_tree, "MissingObjectFinder.add_todo"))
    if "ife[0]notinself.sha_done" not in add_todo:
        raise T.TranslateError("add_todo no longer filters on sha_done")

    # __init__: queue initialisation tuples and the have/want differences
    init = T.find_def(os_tree, "MissingObjectFinder.__init__")
    isrc = _src(init)
    init_leafs = set()
    for n in ast.walk(init):
        if isinstance(n, ast.Tuple) and len(n.elts) == 4 and _src(n.elts[0]) == "w":
            init_leafs.add(_leaf_const(n.elts[3], "initial queue"))
    if init_leafs != {False}:
        raise T.TranslateError(f"__init__: initial queue leaf flags {init_leafs}")
    for frag in ("want_tags.difference(have_tags)", "want_others.difference(have_others)",
                 "unknown='ignore'", "unknown='error'", "fortinhave_tags:self.remote_has.add(t)",
                 "self.remote_has.add(h)", "reachability.get_tree_objects([cmt.tree])",
                 "self.sha_done=set(self.remote_has)",
                 "reachability.get_reachable_commits(have_commits,exclude=None,shallow=shallow)",
                 "_collect_ancestors(object_store,want_commits,frozenset(all_ancestors),shallow=frozenset(shallow),"
                 "get_parents=self._get_parents)"):
        if frag not in isrc:
            raise T.TranslateError(f"MissingObjectFinder.__init__: `{frag}` not found")

    # _collect_filetree_revs
    cf = T.find_def(os_tree, "_collect_filetree_revs")
    cfs = _src(cf)
    cond = None
    for n in ast.walk(cf):
        if isinstance(n, ast.If) and "kset" in _src(n.test):
            cond = _src(n.test)
            inner = [m for m in ast.walk(n) if isinstance(m, ast.If) and m is not n]
            rec = [_src(m.test) for m in inner]
    if cond is None:
        raise T.TranslateError("_collect_filetree_revs: membership test not found")
    cftr_skips = "notS_ISGITLINK(mode)" in cond
    if "shanotinkset" not in cond:
        raise T.TranslateError(f"_collect_filetree_revs: condition is `{cond}`")
    if rec != ["stat.S_ISDIR(mode)"]:
        raise T.TranslateError(f"_collect_filetree_revs: recursion guard {rec}")
    cftr_root = "kset.add(tree_sha)" in cfs

    # _collect_ancestors: shape of the loop body
    ca = T.find_def(os_tree, "_collect_ancestors")
    cas = _src(ca)
    for frag in ("e=queue.pop(0)", "ifeincommon:bases.add(e)", "elifenotincommits:commits.add(e)",
                 "ifeinshallow:continue", "queue.extend(parents)", "return(commits,bases)"):
        if frag not in cas:
            raise T.TranslateError(f"_collect_ancestors: `{frag}` not found")

    # _split_commits_and_tags: tag recursion on o.object[1]
    sp = _src(T.find_def(os_tree, "_split_commits_and_tags"))
    for frag in ("tags.add(e)", "tagged=o.object[1]", "commits.add(e)", "others.add(e)",
                 "_split_commits_and_tags(obj_store,[tagged],unknown=unknown)"):
        if frag not in sp:
            raise T.TranslateError(f"_split_commits_and_tags: `{frag}` not found")

    # find_common_revisions: a have counts only when the store has it
    fc = _src(T.find_def(os_tree, "BaseObjectStore.find_common_revisions"))
    have_checked = "ifshainself:haves.append(sha)" in fc

    # server: want validation against the advertised values
    sv_tree = T.module_ast(repo / "dulwich" / "server.py")
    dw = _src(T.find_def(sv_tree, "_ProtocolGraphWalker.determine_wants"))
    want_checked = "values=set(heads.values())" in dw and "ifsha_resultnotinvalues:raiseGitProtocolError" in dw

    cl_tree = T.module_ast(repo / "dulwich" / "client.py")
    max_in_vain = T.const_value(cl_tree, "MAX_IN_VAIN")

    # client request head: the block writing `shallow <sha>` lines is guarded by "deepening OR walker has shallow"
    head = T.find_def(cl_tree, "_handle_upload_pack_head")
    loops = [n for n in ast.walk(head) if isinstance(n, ast.For) and _src(n.iter) == "walker_shallow"
             and "COMMAND_SHALLOW" in _src(n)]
    if len(loops) != 1:
        raise T.TranslateError(f"_handle_upload_pack_head: {len(loops)} loops writing the shallow lines")
    if "walker_shallow=getattr(graph_walker,'shallow',None)" not in _src(head):
        raise T.TranslateError("_handle_upload_pack_head: walker_shallow is no longer graph_walker.shallow")
    guards = _enclosing_ifs(head, loops[0])
    inner_ok = [t for t in guards if t in ("walker_shallowisnotNone", "walker_shallow")]
    outer = [t for t in guards if t not in ("walker_shallowisnotNone", "walker_shallow")]
    if len(inner_ok) != 1 or len(outer) != 1:
        raise T.TranslateError(f"_handle_upload_pack_head: shallow-line loop guarded by {guards}")
    guard_node = [n for n in ast.walk(head) if isinstance(n, ast.If) and _src(n.test) == outer[0]][0].test
    disj = [_src(v) for v in guard_node.values] if isinstance(guard_node, ast.BoolOp) and isinstance(guard_node.op, ast.Or) \
        else [_src(guard_node)]
    if "depthnotin(0,None)" not in disj:
        raise T.TranslateError(f"_handle_upload_pack_head: guard of the shallow block is `{outer[0]}`")
    head_announces = "walker_shallow" in disj

    # server shallow answer: unshallow = not_shallow & client_shallow, for every depth
    hs = T.find_def(sv_tree, "_ProtocolGraphWalker._handle_shallow_request")
    assigns = [n for n in ast.walk(hs) if isinstance(n, ast.Assign) and any(_src(t) in ("unshallow", "self.unshallow") for t in n.targets)]
    walks = [n for n in ast.walk(hs) if isinstance(n, ast.Assign) and "find_shallow(" in _src(n.value)]
    if not assigns or not walks:
        raise T.TranslateError("_handle_shallow_request: assignment of unshallow / call of find_shallow not found")
    unshallow_from_walk = (len(assigns) == 1 and assigns[0] in hs.body and _src(assigns[0].value) == "not_shallow&self.client_shallow"
                           and len(walks) == 1 and walks[0] in hs.body
                           and _src(walks[0]) == "shallow,not_shallow=find_shallow(self.store,wants,depth)")
    hsrc = _src(hs)
    for frag in ("self.shallow.update(shallow-not_shallow)", "new_shallow=self.shallow-self.client_shallow",
                 "self.update_shallow(new_shallow,unshallow)"):
        if frag not in hsrc:
            raise T.TranslateError(f"_handle_shallow_request: `{frag}` not found")

    src = T.lean_header("dulwich/objects.py: S_IFGITLINK, S_ISGITLINK; dulwich/object_store.py: MissingObjectFinder, "
                        "_collect_filetree_revs, _collect_ancestors, _split_commits_and_tags, find_common_revisions; "
                        "dulwich/server.py: determine_wants, _handle_shallow_request; dulwich/client.py: MAX_IN_VAIN, "
                        "_handle_upload_pack_head") + f"""
namespace Dulwich.Gen
/-- `S_IFGITLINK` -/
def sIfGitlink : Nat := {gitlink}
/-- leaf flag of the `(o.tree, b"", Tree.type_num, <leaf>)` todo of a commit -/
def mofCommitTreeLeaf : Bool := {_b(commit_leaf)}
/-- leaf flag of the `(o.object[1], None, type, <leaf>)` todo of a tag -/
def mofTagTargetLeaf : Bool := {_b(tag_leaf)}
/-- leaf flag of the `(self._tagged[sha], None, None, <leaf>)` todo (auto-followed tag) -/
def mofTaggedLeaf : Bool := {_b(tagged_leaf)}
/-- tree entries are queued with leaf = `not stat.S_ISDIR(m)` (false: always expanded) -/
def mofEntryLeafIsNotDir : Bool := {_b(entry_leaf_notdir)}
/-- tree entries are queued only `if not S_ISGITLINK(m)` -/
def mofTreeSkipsGitlinks : Bool := {_b(tree_skips_gitlinks)}
/-- `_collect_filetree_revs` tests `not S_ISGITLINK(mode) and sha not in kset` -/
def cftrSkipsGitlinks : Bool := {_b(cftr_skips)}
/-- `_collect_filetree_revs` adds the root tree itself to the set -/
def cftrAddsRoot : Bool := {_b(cftr_root)}
/-- `find_common_revisions` keeps a have only `if sha in self` -/
def haveCheckedAgainstStore : Bool := {_b(have_checked)}
/-- `determine_wants` refuses a want that is not a value of an advertised ref -/
def wantCheckedAgainstAdvertised : Bool := {_b(want_checked)}
/-- `MAX_IN_VAIN` (client gives up after this many unacknowledged haves) -/
def maxInVain : Nat := {max_in_vain}
/-- `_handle_upload_pack_head`: the guard of the block writing the `shallow <sha>` lines has the disjunct
`walker_shallow` (the boundary is announced whenever the receiver is shallow, not only when deepening) -/
def headAnnouncesWhenShallow : Bool := {_b(head_announces)}
/-- `_handle_shallow_request`: `unshallow` is the unconditional `not_shallow & self.client_shallow`, with
`not_shallow` from the one `find_shallow(self.store, wants, depth)` walk (every depth, infinite included) -/
def unshallowFromWalk : Bool := {_b(unshallow_from_walk)}
end Dulwich.Gen
"""
    return {"ObjGraph": src}


# ------------------------------------------------------------------------------------------------
# abstract object graphs

M_FILE, M_EXEC, M_LINK, M_DIR, M_GITLINK = 0o100644, 0o100755, 0o120000, 0o040000, 0o160000


class Graph:
    """Abstract history: objs[id] = ("blob",) | ("tree", [(mode, id)]) | ("commit", tree, [parents]) |
    ("tag", target).  Ids are assigned in creation order, every reference (except a gitlink) points to a
    smaller id — exactly the acyclicity content addressing gives real objects.  `absent` ids name objects
    no store holds (gitlink targets in other repositories, haves the sender has never seen)."""

    def __init__(self):
        self.objs: dict[int, tuple] = {}
        self.next_id = 0
        self.absent: set[int] = set()

    def add(self, o) -> int:
        i = self.next_id
        self.next_id += 1
        self.objs[i] = o
        return i

    def new_absent(self) -> int:
        i = self.next_id
        self.next_id += 1
        self.absent.add(i)
        return i

    def ids(self, typ):
        return [i for i, o in self.objs.items() if o[0] == typ]

    def children(self, i, present=None):
        o = self.objs.get(i)
        if o is None or (present is not None and i not in present):
            return []
        if o[0] == "commit":
            return [o[1]] + list(o[2])
        if o[0] == "tree":
            return [c for m, c in o[1] if m != M_GITLINK]
        if o[0] == "tag":
            return [o[1]]
        return []

    def closure(self, roots, present=None, shallow=()):
        """Names reachable from roots (gitlinks not followed; parents of `shallow` commits not followed);
        `present` restricts which objects can be opened.  Independent of the Lean model on purpose."""
        seen, todo = set(), list(roots)
        while todo:
            x = todo.pop()
            if x in seen:
                continue
            seen.add(x)
            o = self.objs.get(x)
            if o is None or (present is not None and x not in present):
                continue
            if o[0] == "commit":
                todo.append(o[1])
                if x not in shallow:
                    todo.extend(o[2])
            else:
                todo.extend(self.children(x))
        return seen

    def peel(self, i):
        while i in self.objs and self.objs[i][0] == "tag":
            i = self.objs[i][1]
        return i

    def tokens(self, present=None):
        out = []
        for i, o in sorted(self.objs.items()):
            if present is not None and i not in present:
                continue
            if o[0] == "blob":
                out.append(f"B{i}")
            elif o[0] == "tree":
                out.append(f"T{i}:" + (",".join(f"{m}.{c}" for m, c in o[1]) or "-"))
            elif o[0] == "commit":
                out.append(f"C{i}:{o[1]}:" + ",".join(str(p) for p in o[2]))
            else:
                out.append(f"G{i}:{o[1]}")
        return out

    def to_json(self):
        return {"objs": {str(i): list(o) for i, o in self.objs.items()}, "absent": sorted(self.absent),
                "next_id": self.next_id}

    @classmethod
    def from_json(cls, d):
        g = cls()
        for k, o in d["objs"].items():
            if o[0] == "tree":
                g.objs[int(k)] = ("tree", [tuple(e) for e in o[1]])
            elif o[0] == "commit":
                g.objs[int(k)] = ("commit", o[1], list(o[2]))
            elif o[0] == "tag":
                g.objs[int(k)] = ("tag", o[1])
            else:
                g.objs[int(k)] = ("blob",)
        g.absent = set(d.get("absent", []))
        g.next_id = d.get("next_id", max(list(g.objs) + list(g.absent) + [-1]) + 1)
        return g


def ids_arg(prefix, ids):
    return prefix + ":" + (",".join(str(i) for i in sorted(ids)) or "-")


def gen_graph(rng, size=None) -> Graph:
    """Random history of 5-60 objects: linear runs, merges (incl. octopus), criss-cross merges, several
    roots, trees sharing subtrees and blobs, commits re-using a parent's root tree, annotated tags of
    commits / trees / blobs / tags, gitlinks to commits inside and outside the graph."""
    g = Graph()
    n = size or rng.choice([5, 8, 12, 20, 30, 45, 60])
    trees_seen = set()

    def new_blob():
        return g.add(("blob",))

    def new_tree(depth_ok=True):
        blobs, trees, commits = g.ids("blob"), g.ids("tree"), g.ids("commit")
        ents = []
        for _ in range(rng.choice([0, 1, 1, 2, 2, 3, 4])):
            k = rng.random()
            if k < 0.5 or not trees:
                if not blobs or rng.random() < 0.3:
                    blobs.append(new_blob())
                ents.append((rng.choice([M_FILE, M_FILE, M_EXEC, M_LINK]), rng.choice(blobs)))
            elif k < 0.85:
                ents.append((M_DIR, rng.choice(trees)))
            else:
                tgt = rng.choice(commits) if commits and rng.random() < 0.6 else g.new_absent()
                ents.append((M_GITLINK, tgt))
        key = tuple(ents)
        if key in trees_seen:
            ents.append((M_FILE, new_blob()))
            key = tuple(ents)
        trees_seen.add(key)
        return g.add(("tree", ents))

    def new_commit():
        commits, trees = g.ids("commit"), g.ids("tree")
        r = rng.random()
        if commits and r < 0.15:
            tree = g.objs[rng.choice(commits)][1]          # same root tree as another commit
        elif trees and r < 0.35:
            tree = rng.choice(trees)
        else:
            tree = new_tree()
        if not commits or rng.random() < 0.12:
            parents = []                                      # (another) root
        else:
            recent = commits[-6:]
            k = rng.choice([1, 1, 1, 1, 2, 2, 3])
            parents = rng.sample(recent, min(k, len(recent)))
        return g.add(("commit", tree, parents))

    def criss_cross():
        commits = g.ids("commit")
        if len(commits) < 2:
            return
        a, b = rng.sample(commits[-5:], 2)
        t1, t2 = new_tree(), new_tree()
        g.add(("commit", t1, [a, b]))
        g.add(("commit", t2, [b, a]))

    def new_tag():
        pool = g.ids("commit") * 3 + g.ids("tag") * 2 + g.ids("tree") + g.ids("blob")
        if pool:
            g.add(("tag", rng.choice(pool)))

    new_commit()
    while len(g.objs) < n:
        r = rng.random()
        if r < 0.45:
            new_commit()
        elif r < 0.52:
            criss_cross()
        elif r < 0.68:
            new_tag()
        elif r < 0.85:
            new_tree()
        else:
            new_blob()
    return g


def materialise(g: Graph):
    """Real dulwich objects for the abstract graph: {id: ShaFile}, {id: hex sha} (absent ids get a sha no
    object has).  Distinct ids give distinct shas (contents are made unique)."""
    import hashlib
    from dulwich.objects import Blob, Commit, Tag, Tree
    objs, sha = {}, {}
    for i in g.absent:
        sha[i] = hashlib.sha1(b"absent %d" % i).hexdigest().encode()
    for i in sorted(g.objs):
        o = g.objs[i]
        if o[0] == "blob":
            x = Blob.from_string(b"blob %d\n" % i)
        elif o[0] == "tree":
            x = Tree()
            for j, (m, c) in enumerate(o[1]):
                if c not in sha:      # gitlink to a later object cannot happen; be defensive
                    sha[c] = hashlib.sha1(b"absent %d" % c).hexdigest().encode()
                x.add(b"e%02d" % j, m, sha[c])
            if not o[1]:
                pass
        elif o[0] == "commit":
            x = Commit()
            x.tree = sha[o[1]]
            x.parents = [sha[p] for p in o[2]]
            x.author = x.committer = b"V <v@example.com>"
            x.author_time = x.commit_time = 1_000_000 + i
            x.author_timezone = x.commit_timezone = 0
            x.message = b"commit %d\n" % i
        else:
            x = Tag()
            x.name = b"tag%d" % i
            t = g.objs.get(o[1])
            cls = {"blob": Blob, "tree": Tree, "commit": Commit, "tag": Tag}[t[0]]
            x.object = (cls, sha[o[1]])
            x.tagger = b"V <v@example.com>"
            x.tag_time = 1_000_000 + i
            x.tag_timezone = 0
            x.message = b"tag %d\n" % i
        objs[i] = x
        sha[i] = x.id
    if len(set(sha.values())) != len(sha):
        raise core.InfraError("materialise: two abstract objects collapsed to one sha")
    return objs, sha


# ------------------------------------------------------------------------------------------------
# stream mof.*: model vs real MissingObjectFinder, plus the property's words on the real result

class _OrderedPopSet(set):
    """A set whose pop() order is chosen by the harness rng: lets the check explore pop orders of
    `objects_to_send` that CPython's hash order would not produce in this process."""

    def __init__(self, it, rng):
        super().__init__(it)
        self._rng = rng

    def pop(self):
        x = self._rng.choice(sorted(self, key=repr))
        self.remove(x)
        return x


def real_mof(store, sha, haves, wants, shallow, tagged, rng=None):
    """Run the real finder; returns ("ok", set of ids, remote_has ids) or ("err", kind)."""
    from dulwich.object_store import MissingObjectFinder
    rev = {v: k for k, v in sha.items()}
    try:
        f = MissingObjectFinder(store, [sha[h] for h in haves], [sha[w] for w in wants],
                                shallow={sha[s] for s in shallow},
                                get_tagged=(lambda: {sha[k]: sha[v] for k, v in tagged.items()}))
        remote_has = {rev[x] for x in f.get_remote_has()}
        if rng is not None:
            f.objects_to_send = _OrderedPopSet(f.objects_to_send, rng)
        out = [s for s, _ in f]
    except KeyError:
        return ("err", "key", None)
    except AssertionError:
        return ("err", "type", None)
    except Exception as e:      # noqa: BLE001 — a behaviour the model does not have
        return ("err", "exc-" + type(e).__name__, None)
    if len(set(out)) != len(out):
        return ("dup", out, None)
    return ("ok", {rev[x] for x in out}, remote_has)


def gen_mof_case(rng):
    g = gen_graph(rng)
    commits, tags, trees, blobs = g.ids("commit"), g.ids("tag"), g.ids("tree"), g.ids("blob")
    present = set(g.objs)
    kind = rng.choice(["plain"] * 6 + ["tagged"] * 3 + ["shallow"] * 2 + ["holes"])
    roots = commits * 3 + tags * 2
    wants = set(rng.sample(roots, min(len(roots), rng.choice([1, 1, 2, 3]))))
    if rng.random() < 0.1 and trees:
        wants.add(rng.choice(trees))
    if rng.random() < 0.05 and blobs:
        wants.add(rng.choice(blobs))
    haves = set()
    nh = rng.choice([0, 1, 1, 2, 3])
    wclos = g.closure(wants)
    for _ in range(nh):
        r = rng.random()
        inside = [c for c in commits if c in wclos]
        if r < 0.5 and inside:
            haves.add(rng.choice(inside))                       # an ancestor (or the want itself)
        elif r < 0.8:
            haves.add(rng.choice(roots))                        # anything: unrelated, ahead, a tag
        elif r < 0.9:
            haves.add(g.new_absent())                           # a have the sender has never seen
        elif trees:
            haves.add(rng.choice(trees + blobs))
    shallow, tagged = set(), {}
    if kind == "shallow" and commits:
        shallow = set(rng.sample(commits, min(len(commits), rng.choice([1, 2, 3]))))
    if kind == "tagged":
        refs = rng.sample(tags, min(len(tags), rng.choice([1, 2, 4]))) if tags else []
        for t in refs:
            tagged[g.peel(t)] = t                                # what UploadPackHandler.get_tagged builds
        if rng.random() < 0.15 and tags:
            tagged[rng.choice(sorted(g.objs))] = rng.choice(tags)  # arbitrary map (API allows it)
    if kind == "holes":
        for x in rng.sample(sorted(present), rng.choice([1, 2])):
            present.discard(x)
    return {"kind": kind, "g": g, "present": present, "haves": haves, "wants": wants, "shallow": shallow,
            "tagged": tagged}


def mof_line(case, order):
    g = case["g"]
    return " ".join(["c05.mof"] + g.tokens(case["present"]) + [
        ids_arg("H", case["haves"]), ids_arg("W", case["wants"]), ids_arg("S", case["shallow"]),
        "X:" + (",".join(f"{k}={v}" for k, v in sorted(case["tagged"].items())) or "-"), f"O:{order}"])


def case_json(case):
    return {"graph": case["g"].to_json(), "present": sorted(case["present"]), "haves": sorted(case["haves"]),
            "wants": sorted(case["wants"]), "shallow": sorted(case["shallow"]),
            "tagged": {str(k): v for k, v in case["tagged"].items()}, "kind": case.get("kind", "?")}


def case_from_json(d):
    g = Graph.from_json(d["graph"])
    return {"g": g, "present": set(d["present"]), "haves": set(d["haves"]), "wants": set(d["wants"]),
            "shallow": set(d["shallow"]), "tagged": {int(k): v for k, v in d["tagged"].items()},
            "kind": d.get("kind", "?")}


def show_ids(ids):
    return ",".join(str(i) for i in sorted(ids)) or "-"


def mof_oracle(ctx, stream, case, sent):
    """The property's own words on a real MissingObjectFinder result (sender store closed for the wants):
    nothing outside the closure of the wants travels except auto-followed tags; together with what the
    receiver holds (the closures of the haves the sender knows) the wants' closure is complete."""
    g, present = case["g"], case["present"]
    wclos = g.closure(case["wants"], present=present, shallow=case["shallow"])
    extra = sent - wclos - set(case["tagged"].values())
    if extra:       # (holds for any sender store, closed or not)
        ctx.oracle_fail(stream, case_json(case), f"objects outside the closure of the wants were selected: {show_ids(extra)}",
                        "mof-oversend")
    if any(x in g.objs and x not in present for x in wclos):
        return      # the sender does not hold the closure of the wants: completeness is not the sender's to give
    haves_known = {h for h in case["haves"] if h in present}
    hclos = g.closure(haves_known, present=present, shallow=case["shallow"])
    lost = {x for x in wclos if x in g.objs} - sent - hclos
    if lost:
        ctx.oracle_fail(stream, case_json(case),
                        f"objects reachable from the wants are neither selected nor reachable from the haves: {show_ids(lost)}",
                        "mof-incomplete")


def run_mof_cases(ctx, stream, cases, orders=(0, 1, 7)):
    from dulwich.object_store import MemoryObjectStore
    lines = []
    for c in cases:
        for o in orders:
            lines.append(mof_line(c, o))
        lines.append(mof_line(c, 0).replace("c05.mof", "c05.remotehas", 1))
        lines.append(" ".join(["c05.welltyped"] + c["g"].tokens(c["present"])))
        lines.append(" ".join(["c05.closure"] + c["g"].tokens(c["present"]) + [ids_arg("R", c["wants"])]))
    outs = ctx.driver.batch(lines)
    k = len(orders) + 3
    for idx, c in enumerate(cases):
        mouts = outs[idx * k:(idx + 1) * k - 3]
        m_rh, m_wt, m_cl = outs[(idx + 1) * k - 3], outs[(idx + 1) * k - 2], outs[(idx + 1) * k - 1]
        g = c["g"]
        objs, sha = materialise(g)
        store = MemoryObjectStore()
        for i in c["present"]:
            store.add_object(objs[i])
        reals = []
        for r in (None, ctx.rng, ctx.rng):
            res = real_mof(store, sha, c["haves"], c["wants"], c["shallow"], c["tagged"], r)
            reals.append(res)
        canon = []
        for res in reals:
            if res[0] == "ok":
                canon.append("ok " + show_ids(res[1]))
            elif res[0] == "err":
                canon.append("err " + res[1])
            else:
                canon.append("dup")
                ctx.oracle_fail(stream, case_json(c), "MissingObjectFinder yielded an object twice", "mof-dup")
        nontrivial = reals[0][0] == "ok" and len(reals[0][1]) > 0
        ctx.count(stream, (tuple(g.tokens(c["present"])), tuple(sorted(c["haves"])), tuple(sorted(c["wants"])),
                           tuple(sorted(c["shallow"])), tuple(sorted(c["tagged"].items()))), nontrivial,
                  f"{c['kind']}:{canon[0][:3]}:n{len(g.objs) // 10 * 10}")
        if len(set(mouts)) != 1:
            ctx.disagree(stream + ".model-order", case_json(c), mouts, "pop order changes the model's sent set")
        if len(set(canon)) != 1:
            # the real finder's result depends on the pop order: a failure of the property only if some
            # order loses objects — the oracle below decides per order
            ctx.notes.append(f"{stream}: real MissingObjectFinder result depends on pop order: {canon}")
            ctx.disagree(stream + ".impl-order", case_json(c), mouts[0], canon)
        if mouts[0] != canon[0]:
            ctx.disagree(stream, case_json(c), mouts[0], canon[0])
        if reals[0][0] == "ok" and m_rh != "ok " + show_ids(reals[0][2]):
            ctx.disagree(stream + ".remote_has", case_json(c), m_rh, "ok " + show_ids(reals[0][2]))
        py_cl = "ok " + show_ids(c["g"].closure(c["wants"], present=c["present"]))
        if m_cl != py_cl:
            # the oracle's closure (Python) and the model's `closure` (= Reach, theorem closure_eq_reach) differ
            ctx.disagree(stream + ".closure", case_json(c), m_cl, py_cl)
        if m_wt != "1":
            # the generator only builds well-typed stores: hypothesis `WellTyped` of the completeness theorems
            ctx.disagree(stream + ".welltyped", case_json(c), m_wt, "1")
        for res in reals:
            if res[0] == "ok":
                mof_oracle(ctx, stream, c, res[1])
        if idx < 2:
            ctx.sample({"stream": stream, "kind": c["kind"], "objects": len(g.objs), "haves": sorted(c["haves"]),
                        "wants": sorted(c["wants"]), "model": mouts[0][:120], "impl": canon[0][:120]})


def _stream_mof(ctx):
    rng = ctx.rng
    cases = [gen_mof_case(rng) for _ in range(ctx.budget(1500, mult=8))]
    run_mof_cases(ctx, "mof", cases)


# ------------------------------------------------------------------------------------------------
# stream nego.*: have/ack transcripts, model walkers vs the real server-side graph walkers

class _NegoProto:
    def __init__(self, lines):
        self.lines = list(lines)
        self.out = []

    def read_pkt_line(self):
        from dulwich.errors import HangupException
        if not self.lines:
            raise HangupException
        return self.lines.pop(0)

    def write_pkt_line(self, data):
        self.out.append(data)


class _NegoHandler:
    def __init__(self, proto, stateless):
        self.proto = proto
        self.stateless_rpc = stateless
        self.advertise_refs = False
        self._done_received = False

    def notify_done(self):
        self._done_received = True


def _sline(tok, rev):
    if tok is None:
        return "?"
    t = tok.rstrip(b"\n").split(b" ")
    if t[0] == b"NAK":
        return "N"
    x = rev.get(t[1], "?")
    kind = t[2] if len(t) > 2 else b""
    return {b"": "A", b"continue": "C", b"common": "M", b"ready": "R"}.get(kind, "?") + str(x)


def real_nego(store, sha, rev, mode, stateless, no_done, wants, lines):
    from dulwich.errors import HangupException
    from dulwich.protocol import MULTI_ACK, MULTI_ACK_DETAILED, SINGLE_ACK
    from dulwich.server import _ProtocolGraphWalker
    pk = []
    for ln in lines:
        if ln == "f":
            pk.append(None)
        elif ln == "d":
            pk.append(b"done\n")
        else:
            pk.append(b"have " + sha[int(ln[1:])] + b"\n")
    proto = _NegoProto(pk)
    handler = _NegoHandler(proto, stateless)
    walker = _ProtocolGraphWalker(handler, store, lambda ref: None, lambda: {})
    walker.set_ack_type({"single": SINGLE_ACK, "multi": MULTI_ACK, "detailed": MULTI_ACK_DETAILED}[mode])
    walker.set_wants([sha[w] for w in wants])
    try:
        haves = store.find_common_revisions(walker)
    except HangupException:
        return "err protocol", None
    except IndexError:
        return "err other", None
    except Exception as e:      # noqa: BLE001 — anything else is a behaviour the model does not have
        return f"exc {type(e).__name__}", None
    n = len(proto.out)
    try:
        ok = walker.handle_done(not no_done, handler._done_received)
    except Exception as e:      # noqa: BLE001
        return f"exc handle_done {type(e).__name__}", None
    show = lambda l: ",".join(l) or "-"       # noqa: E731
    return (f"ok haves={show([str(rev[h]) for h in haves])} out={show([_sline(x, rev) for x in proto.out[:n]])} "
            f"done={int(handler._done_received)} pack={int(bool(ok))} final={show([_sline(x, rev) for x in proto.out[n:]])}",
            [rev[h] for h in haves])


def _stream_nego(ctx):
    from dulwich.object_store import MemoryObjectStore
    rng = ctx.rng
    cases = []
    for _ in range(ctx.budget(500, mult=6)):
        g = gen_graph(rng, rng.choice([8, 12, 20, 30]))
        commits = g.ids("commit")
        wants = rng.sample(commits * 3 + g.ids("tag"), rng.choice([1, 1, 2]))
        absent = [g.new_absent() for _ in range(2)]
        lines = []
        for _ in range(rng.choice([0, 1, 2, 3, 5, 8])):
            r = rng.random()
            if r < 0.6:
                lines.append(f"h{rng.choice(commits)}")
            elif r < 0.8:
                lines.append(f"h{rng.choice(absent)}")
            else:
                lines.append("f")
        lines += rng.choice([["d"], ["d"], ["f"], ["f", "d"], []])
        cases.append((g, rng.choice(ACK_MODES), rng.random() < 0.4, rng.random() < 0.4, sorted(set(wants)), lines))
    reqs = [" ".join(["c05.nego"] + g.tokens() + [f"M:{m}", f"L:{int(st)}", f"N:{int(nd)}", ids_arg("W", w),
                                                  "Q:" + (",".join(ln) or "-")]) for g, m, st, nd, w, ln in cases]
    outs = ctx.driver.batch(reqs)
    for (g, mode, stateless, nd, wants, lines), mout in zip(cases, outs):
        objs, sha = materialise(g)
        rev = {v: k for k, v in sha.items()}
        store = MemoryObjectStore()
        for o in objs.values():
            store.add_object(o)
        real, haves = real_nego(store, sha, rev, mode, stateless, nd, wants, lines)
        case = {"graph": g.to_json(), "mode": mode, "stateless": stateless, "no_done": nd, "wants": wants, "lines": lines}
        ctx.count("nego", (tuple(g.tokens()), mode, stateless, nd, tuple(wants), tuple(lines)), real.startswith("ok"),
                  f"{mode}:{'rpc' if stateless else 'duplex'}:{real[:3]}" + (":pack" if "pack=1" in real else ""))
        if real != mout:
            ctx.disagree("nego", case, mout, real)
        if haves is not None:
            claimed = {int(x[1:]) for x in lines if x.startswith("h")}
            bad = [h for h in haves if h not in claimed or h not in g.objs]
            if bad:
                ctx.oracle_fail("nego", case, f"the server treats {bad} as common although the client did not claim it "
                                              f"or the server does not have it", "nego-foreign-have")


# ------------------------------------------------------------------------------------------------
# streams req.* / shallowans.*: shallow boundaries on the wire, model vs the real request writer / answerer

class _ReqWalker:
    def __init__(self, shallow):
        if shallow is not None:
            self.shallow = set(shallow)

    def __next__(self):
        return None

    next = __next__

    def ack(self, sha):
        pass


def real_request(sha, wants, shallow, depth, since, exclude, version, has_attr=True):
    import dulwich.client as C
    proto = _NegoProto([])
    caps = [b"fetch=shallow"] if version == 2 else [b"shallow", b"multi_ack_detailed", b"side-band-64k", b"ofs-delta"]
    walker = _ReqWalker([sha[x] for x in shallow] if has_attr else None)
    try:
        C._handle_upload_pack_head(proto, caps, walker, [sha[w] for w in wants], None, depth, version,
                                   shallow_since=("2001-01-01" if since else None),
                                   shallow_exclude=(["refs/heads/x"] if exclude else None))
    except Exception as e:      # noqa: BLE001
        return f"exc {type(e).__name__}"
    rev = {v: k for k, v in sha.items()}
    toks = []
    for ln in proto.out:
        if ln is None:
            toks.append("F")
            continue
        t = ln.rstrip(b"\n").split(b" ")
        toks.append({b"want": lambda: f"W{rev[t[1]]}", b"shallow": lambda: f"S{rev[t[1]]}", b"deepen": lambda: f"D{int(t[1])}",
                     b"deepen-since": lambda: "DS", b"deepen-not": lambda: "DN", b"done": lambda: "X"}.get(t[0], lambda: "?")())
    return " ".join(_sort_shallow_tokens(toks))


def _sort_shallow_tokens(toks):
    """The shallow lines come out of a Python set: canonical order inside their run."""
    idx = [i for i, t in enumerate(toks) if t.startswith("S")]
    vals = sorted((toks[i] for i in idx), key=lambda t: int(t[1:]))
    out = list(toks)
    for i, v in zip(idx, vals):
        out[i] = v
    return out


def real_shallow_answer(store, sha, rev, wants, client_shallow, depth):
    from dulwich.server import _ProtocolGraphWalker
    pk = [b"shallow " + sha[x] + b"\n" for x in client_shallow] + [b"deepen %d\n" % depth, None]
    proto = _NegoProto(pk)
    walker = _ProtocolGraphWalker(_NegoHandler(proto, False), store, lambda ref: None, lambda: {})
    try:
        walker._handle_shallow_request([sha[w] for w in wants])
    except KeyError:
        return "err key"
    except AssertionError:
        return "err type"
    except Exception as e:      # noqa: BLE001
        return f"exc {type(e).__name__}"
    new = {rev[ln.split()[1]] for ln in proto.out if ln and ln.startswith(b"shallow ")}
    un = {rev[ln.split()[1]] for ln in proto.out if ln and ln.startswith(b"unshallow ")}
    return f"ok new={show_ids(new)} un={show_ids(un)} boundary={show_ids(rev[x] for x in walker.shallow)}"


def _stream_shallow_wire(ctx):
    from dulwich.object_store import MemoryObjectStore
    rng = ctx.rng
    # --- requests
    cases = []
    for _ in range(ctx.budget(400, mult=5)):
        shallow = rng.sample(range(10, 30), rng.choice([0, 0, 1, 2, 4]))
        wants = rng.sample(range(0, 9), rng.choice([1, 1, 2]))
        depth = rng.choice([None, None, None, 0, 1, 3, DEPTH_INF])
        cases.append((wants, shallow, depth, rng.random() < 0.15, rng.random() < 0.15, rng.choice([0, 0, 1, 2]), rng.random() < 0.9))
    sha = {i: (b"%040x" % (i + 1)) for i in range(40)}
    lines = [f"c05.request {ids_arg('W', w)[:2]}{','.join(map(str, w))} S:{','.join(map(str, sh)) or '-'} "
             f"D:{'-' if d is None else d} V:{2 if v == 2 else 0} E:{int(si)}{int(ex)}" for w, sh, d, si, ex, v, _ in cases]
    outs = ctx.driver.batch(lines)
    for (w, sh, d, si, ex, v, has_attr), mout in zip(cases, outs):
        real = real_request(sha, w, sh if has_attr else [], d, si, ex, v, has_attr)
        mout = " ".join(_sort_shallow_tokens(mout.split(" "))) if has_attr else None
        case = {"wants": w, "shallow": sh, "depth": d, "since": si, "exclude": ex, "version": v, "walker_has_shallow_attr": has_attr}
        ctx.count("req", (tuple(w), tuple(sh), d, si, ex, v, has_attr), True,
                  f"v{v}:{'plain' if d in (None, 0) and not si and not ex else 'deepen'}:shallow{min(len(sh), 2) if has_attr else 'attr-none'}")
        if has_attr and real != mout:
            ctx.disagree("req", case, mout, real)
        # the property's words on the real request: every boundary commit is announced, whatever the depth
        announced = {int(t[1:]) for t in real.split(" ") if t.startswith("S")}
        if has_attr and announced != set(sh) and not real.startswith("exc"):
            ctx.oracle_fail("req", case, f"the request of a receiver shallow at {sorted(sh)} announces {sorted(announced)} "
                                         f"(depth argument {d!r})", "request-omits-shallow-boundary")
    # --- answers
    cases = []
    for _ in range(ctx.budget(400, mult=6)):
        g = gen_graph(rng, rng.choice([8, 12, 20, 30]))
        commits = g.ids("commit")
        wants = sorted(set(rng.sample(commits * 3 + g.ids("tag"), rng.choice([1, 1, 2]))))
        client = sorted(set(rng.sample(commits, min(len(commits), rng.choice([0, 1, 2, 3])))))
        depth = rng.choice([1, 1, 2, 3, 5, 50, DEPTH_INF, DEPTH_INF])
        cases.append((g, wants, client, depth))
    outs = ctx.driver.batch([" ".join(["c05.shallowans"] + g.tokens() + [ids_arg("W", w), ids_arg("S", c), f"D:{d}"])
                             for g, w, c, d in cases])
    for (g, wants, client, depth), mout in zip(cases, outs):
        objs, sha = materialise(g)
        rev = {v: k for k, v in sha.items()}
        store = MemoryObjectStore()
        for o in objs.values():
            store.add_object(o)
        real = real_shallow_answer(store, sha, rev, wants, client, depth)
        case = {"graph": g.to_json(), "wants": wants, "client_shallow": client, "depth": depth}
        ctx.count("shallowans", (tuple(g.tokens()), tuple(wants), tuple(client), depth), real.startswith("ok"),
                  f"{'inf' if depth >= DEPTH_INF else 'finite'}:client{len(client)}:{real[:3]}")
        if real != mout:
            ctx.disagree("shallowans", case, mout, real)
        if real.startswith("ok"):
            un = real.split(" un=")[1].split(" ")[0]
            un = set() if un == "-" else {int(x) for x in un.split(",")}
            reach = {c for c in g.closure([g.peel(w) for w in wants]) if c in g.objs and g.objs[c][0] == "commit"}
            bad = sorted(x for x in un if x not in reach or x not in client)
            if bad:
                ctx.oracle_fail("shallowans", case, f"`unshallow` for {bad}: not reachable from the wants {wants} "
                                                    f"(or not announced by the client)", "unshallow-unjustified")


# ------------------------------------------------------------------------------------------------
# end-to-end transfers on the real code

import contextlib
import os
import subprocess
import threading

ZERO = b"0" * 40
_FILLER = b"".join(b"line %03d: the quick brown fox jumps over the lazy dog\n" % i for i in range(12))


class World:
    """One generated history materialised as real objects, plus the disk repositories built from it."""

    def __init__(self, g: Graph, root: Path):
        self.g = g
        self.root = root
        self.objs, self.sha = materialise_big(g)
        self.rev = {v: k for k, v in self.sha.items()}
        self.n = 0

    def raw(self, i):
        o = self.objs[i]
        return (o.type_num, o.as_raw_string())

    def new_path(self, stem):
        self.n += 1
        return str(self.root / f"{stem}{self.n}")

    def make_repo(self, stem, ids, refs: dict, head=None, repack=False):
        from dulwich.repo import Repo
        path = self.new_path(stem)
        r = Repo.init_bare(path, mkdir=True)
        try:
            for i in sorted(ids):
                r.object_store.add_object(self.objs[i])
            for name, i in refs.items():
                r.refs[name] = self.sha[i]
            if head is not None:
                r.refs.set_symbolic_ref(b"HEAD", head)
        finally:
            r.close()
        if repack:
            rc, out = core.sh(["git", "-C", path, "repack", "-adq", "--window=10", "--depth=10"], env=core.clean_env())
            if rc != 0:
                raise core.InfraError("git repack failed: " + out[-500:])
            core.sh(["git", "-C", path, "prune-packed", "-q"], env=core.clean_env())
        return path

    def ids_in(self, path):
        """(ids of known objects, shas of unknown objects) held by the repository at path."""
        from dulwich.repo import Repo
        r = Repo(path)
        try:
            known, foreign = set(), set()
            for s in r.object_store:
                if s in self.rev:
                    known.add(self.rev[s])
                else:
                    foreign.add(s)
            return known, foreign
        finally:
            r.close()


def materialise_big(g: Graph):
    """Like materialise(), but blobs share a few hundred bytes so that C git produces deltas (and thin
    packs) for them."""
    objs, sha = materialise(g)
    from dulwich.objects import Blob
    remap = {}
    for i, o in g.objs.items():
        if o[0] == "blob":
            objs[i] = Blob.from_string(b"blob %d\n" % i + _FILLER + b"end %d\n" % (i % 3))
    # re-materialise everything above the blobs with the new blob shas
    import hashlib
    from dulwich.objects import Commit, Tag, Tree
    sha2 = {i: hashlib.sha1(b"absent %d" % i).hexdigest().encode() for i in g.absent}
    out = {}
    for i in sorted(g.objs):
        o = g.objs[i]
        if o[0] == "blob":
            x = objs[i]
        elif o[0] == "tree":
            x = Tree()
            for j, (m, c) in enumerate(o[1]):
                if c not in sha2:
                    sha2[c] = hashlib.sha1(b"absent %d" % c).hexdigest().encode()
                x.add(b"e%02d" % j, m, sha2[c])
        elif o[0] == "commit":
            x = objs[i].copy()
            x.tree = sha2[o[1]]
            x.parents = [sha2[p] for p in o[2]]
        else:
            x = objs[i].copy()
            x.object = (type(out[o[1]]), sha2[o[1]])
        out[i] = x
        sha2[i] = x.id
    if len(set(sha2.values())) != len(sha2):
        raise core.InfraError("materialise_big: sha collision")
    return out, sha2


class _LogTail(__import__("logging").Handler):
    """Keeps the last error records dulwich's servers log (they swallow handler exceptions)."""

    def __init__(self):
        super().__init__(level=__import__("logging").ERROR)
        self.records = []

    def emit(self, record):
        import traceback as tb
        txt = record.getMessage()
        if record.exc_info and record.exc_info[1] is not None:
            e = record.exc_info[1]
            last = tb.extract_tb(e.__traceback__)[-1] if e.__traceback__ else None
            txt += f" | {type(e).__name__}: {str(e)[:160]}" + (f" @ {os.path.basename(last.filename)}:{last.name}" if last else "")
        self.records.append(txt)
        del self.records[:-20]


class Servers:
    """dulwich TCP and WSGI smart-HTTP servers on localhost threads, one per dropped-capability set, plus
    the hook that records which object ids the server-side code decided to put on the wire."""

    def __init__(self):
        self.tcp = {}
        self.http = {}
        self.sent_log = []          # list of lists of hex shas, one per pack written by a dulwich server
        self._orig = None
        self.req_log = []           # per dulwich-client upload-pack request: the pkt-lines of its head (want/shallow/deepen/have/done)
        self.shallow_log = []       # per dulwich-server shallow answer: (wants, client_shallow, new_shallow, unshallow)
        self._orig_head = None
        self._orig_update_shallow = None
        self.daemon = None
        import logging
        self.log = _LogTail()
        for name in ("dulwich.server", "dulwich.web"):
            lg = logging.getLogger(name)
            lg.addHandler(self.log)
            lg.propagate = False

    def start_capture(self):
        import dulwich.server as S
        if self._orig is not None:
            return
        self._orig = S.write_pack_from_container
        log = self.sent_log
        orig = self._orig

        def tee(write, container, object_ids, *a, **kw):
            object_ids = list(object_ids)
            log.append([oid for oid, _ in object_ids])
            return orig(write, container, object_ids, *a, **kw)
        S.write_pack_from_container = tee
        # the head of every upload-pack request a dulwich client writes (all transports go through this function)
        import dulwich.client as C
        self._orig_head = C._handle_upload_pack_head
        req_log, orig_head = self.req_log, self._orig_head

        def head(proto, *a, **kw):
            lines = []
            orig_write = proto.write_pkt_line

            def write_pkt_line(line):
                lines.append(line)
                return orig_write(line)
            proto.write_pkt_line = write_pkt_line
            try:
                return orig_head(proto, *a, **kw)
            finally:
                req_log.append(lines)
                with contextlib.suppress(Exception):
                    del proto.write_pkt_line
        C._handle_upload_pack_head = head
        # every shallow/unshallow answer a dulwich server gives
        self._orig_update_shallow = S._ProtocolGraphWalker.update_shallow
        sh_log, orig_us = self.shallow_log, self._orig_update_shallow

        def update_shallow(walker, new_shallow, unshallow):
            sh_log.append((list(walker._wants), set(walker.client_shallow), set(new_shallow), set(unshallow),
                           set(walker.shallow)))
            return orig_us(walker, new_shallow, unshallow)
        S._ProtocolGraphWalker.update_shallow = update_shallow

    def daemon_port(self):
        """`git daemon` (C git as a git:// server, upload-pack and receive-pack) on a free localhost port."""
        if self.daemon is None:
            import socket
            import time
            sk = socket.socket()
            sk.bind(("127.0.0.1", 0))
            port = sk.getsockname()[1]
            sk.close()
            p = subprocess.Popen(["git", "daemon", "--base-path=/", "--export-all", "--reuseaddr", "--listen=127.0.0.1",
                                  f"--port={port}", "--enable=receive-pack", "--informative-errors"],
                                 env=core.clean_env(), stdout=subprocess.DEVNULL, stderr=subprocess.DEVNULL)
            for _ in range(200):
                try:
                    socket.create_connection(("127.0.0.1", port), timeout=0.2).close()
                    break
                except OSError:
                    if p.poll() is not None:
                        raise core.InfraError("git daemon exited at start-up")
                    time.sleep(0.02)
            else:
                p.kill()
                raise core.InfraError("git daemon did not start")
            self.daemon = (p, port)
        return self.daemon[1]

    def _handlers(self, drop):
        from dulwich.server import ReceivePackHandler, UploadPackHandler
        drop = frozenset(drop)

        class Upload(UploadPackHandler):
            def capabilities(self):
                return [c for c in super().capabilities() if c not in drop]
        return {b"git-upload-pack": Upload, b"git-receive-pack": ReceivePackHandler}

    def tcp_port(self, drop=()):
        from dulwich.server import FileSystemBackend, TCPGitServer
        key = frozenset(drop)
        if key not in self.tcp:
            srv = TCPGitServer(FileSystemBackend("/"), "localhost", 0, handlers=self._handlers(drop))
            t = threading.Thread(target=srv.serve_forever, kwargs={"poll_interval": 0.05}, daemon=True)
            t.start()
            self.tcp[key] = (srv, t)
        return self.tcp[key][0].server_address[1]

    def http_port(self, drop=()):
        from wsgiref import simple_server
        from dulwich.server import FileSystemBackend
        from dulwich.web import WSGIRequestHandlerLogger, WSGIServerLogger, make_wsgi_chain
        key = frozenset(drop)
        if key not in self.http:
            app = make_wsgi_chain(FileSystemBackend("/"), handlers=self._handlers(drop))
            srv = simple_server.make_server("localhost", 0, app, server_class=WSGIServerLogger,
                                            handler_class=WSGIRequestHandlerLogger)
            t = threading.Thread(target=srv.serve_forever, kwargs={"poll_interval": 0.05}, daemon=True)
            t.start()
            self.http[key] = (srv, t)
        return self.http[key][0].server_address[1]

    def close(self):
        import logging
        import dulwich.server as S
        for name in ("dulwich.server", "dulwich.web"):
            logging.getLogger(name).removeHandler(self.log)
        for d in (self.tcp, self.http):
            for srv, t in d.values():
                with contextlib.suppress(Exception):
                    srv.shutdown()
                    srv.server_close()
            d.clear()
        if self._orig is not None:
            S.write_pack_from_container = self._orig
            self._orig = None
        if self._orig_head is not None:
            import dulwich.client as C
            C._handle_upload_pack_head = self._orig_head
            self._orig_head = None
        if self._orig_update_shallow is not None:
            S._ProtocolGraphWalker.update_shallow = self._orig_update_shallow
            self._orig_update_shallow = None
        if self.daemon is not None:
            p, _ = self.daemon
            with contextlib.suppress(Exception):
                p.terminate()
                p.wait(timeout=5)
            with contextlib.suppress(Exception):
                p.kill()
            self.daemon = None


DUL_TRANSPORTS = ["local", "tcp", "http", "cgit-sub", "cgit-daemon"]   # dulwich is the client
CGIT_SERVER = ("cgit-sub", "cgit-daemon")                        # ... and C git the server (subprocess / git daemon)
GIT_TRANSPORTS = ["git-tcp", "git-http"]                        # C git is the client, dulwich the server
ACK_MODES = ["detailed", "multi", "single"]


def _dul_client(tr, var, servers):
    from dulwich.client import HttpGitClient, LocalGitClient, SubprocessGitClient, TCPGitClient
    kw = {"include_tags": var.get("include_tag", False)}
    drop = set(var.get("server_drop", ()))
    if tr == "local":
        c = LocalGitClient(**kw)
    elif tr == "tcp":
        c = TCPGitClient("localhost", port=servers.tcp_port(drop), thin_packs=True, **kw)
    elif tr == "http":
        c = HttpGitClient(f"http://localhost:{servers.http_port(drop)}/", thin_packs=True, **kw)
    elif tr == "cgit-daemon":
        c = TCPGitClient("127.0.0.1", port=servers.daemon_port(), thin_packs=var.get("thin", True), **kw)
    else:
        c = SubprocessGitClient(thin_packs=var.get("thin", True), **kw)
    caps = getattr(c, "_fetch_capabilities", None)
    if caps is not None:
        ack = var.get("ack", "detailed")
        if ack in ("multi", "single"):
            caps.discard(b"multi_ack_detailed")
        if ack == "single":
            caps.discard(b"multi_ack")
        if tr in CGIT_SERVER:
            for cap in var.get("client_drop", ()):
                caps.discard(cap)
    return c


def _pack_ids(data: bytes, world: World):
    """Hex shas of the objects in a transmitted pack (thin-pack bases resolved against the generated objects)."""
    from io import BytesIO
    from dulwich.object_format import DEFAULT_OBJECT_FORMAT
    from dulwich.pack import PackData, PackInflater
    if len(data) < 32:
        return [], 0
    by_sha = {o.id: o for o in world.objs.values()}

    def ext(sha):
        from dulwich.objects import sha_to_hex
        h = sha if len(sha) == 40 else sha_to_hex(sha)
        o = by_sha[h]
        return o.type_num, o.as_raw_string()
    pd = PackData.from_file(BytesIO(data), DEFAULT_OBJECT_FORMAT, len(data))
    deltas = sum(1 for u in pd.iter_unpacked() if u.pack_type_num in (6, 7))
    ids = [o.id for o in PackInflater.for_pack_data(pd, resolve_ext_ref=ext)]
    return ids, deltas


@contextlib.contextmanager
def _git_protocol_env(version):
    old = os.environ.get("GIT_PROTOCOL")
    if version == 2:
        os.environ["GIT_PROTOCOL"] = "version=2"
    else:
        os.environ.pop("GIT_PROTOCOL", None)
    try:
        yield
    finally:
        if old is None:
            os.environ.pop("GIT_PROTOCOL", None)
        else:
            os.environ["GIT_PROTOCOL"] = old


def _git(args, cwd=None, timeout=120):
    p = subprocess.run(["git"] + args, cwd=cwd, env=core.clean_env({"GIT_TERMINAL_PROMPT": "0"}),
                       stdout=subprocess.PIPE, stderr=subprocess.STDOUT, timeout=timeout, text=True, errors="replace")
    return p.returncode, p.stdout


def _url(tr, servers, path, drop=()):
    if tr == "git-tcp":
        return f"git://localhost:{servers.tcp_port(drop)}{path}"
    return f"http://localhost:{servers.http_port(drop)}{path}"


def _proto_kw(tr, var):
    """`protocol_version=` argument of the dulwich client call (None = not passed)."""
    if tr == "cgit-sub" and var.get("proto") == 2:
        return {"protocol_version": 2}
    if tr == "cgit-daemon":
        return {"protocol_version": 2 if var.get("proto") == 2 else 0}     # (not passing it means v2 for git://)
    if var.get("proto_arg") is not None and tr != "local":
        return {"protocol_version": var["proto_arg"]}
    return {}


def do_fetch(world, servers, tr, var, src, dst, want_refs: dict, depth=None, fetch_all=False, raw_wants=None,
             ref_prefix=None):
    """One real fetch of `want_refs` ({refname: id}) from the repository at `src` into the one at `dst`.
    Returns {"ok": bool, "err": str|None, "wire": set of hex shas | None, "deltas": n}; on success the
    fetched refs are written into dst (mirror style) — by C git itself when it is the client."""
    from dulwich.repo import Repo
    out = {"ok": False, "err": None, "wire": None, "deltas": 0}
    servers.sent_log.clear()
    servers.req_log.clear()
    servers.shallow_log.clear()
    servers.log.records.clear()
    want_shas = [world.sha[i] for i in want_refs.values()] if raw_wants is None else list(raw_wants)
    if tr in GIT_TRANSPORTS:
        drop = set(var.get("server_drop", ()))
        args = ["-c", f"protocol.version={var.get('proto', 0)}", "-c", "gc.auto=0",
                "-c", f"fetch.unpackLimit={var.get('unpack_limit', 100)}",
                "-c", f"fetch.negotiationAlgorithm={var.get('nego', 'consecutive')}",
                "-C", dst, "fetch", "-q"]
        if not var.get("include_tag", False):
            args.append("--no-tags")
        if depth:
            args.append(f"--depth={depth}")
        args.append(_url(tr, servers, src, drop))
        args += [f"+{n.decode()}:{n.decode()}" for n in want_refs]
        rc, txt = _git(args)
        out["ok"] = rc == 0
        out["err"] = None if rc == 0 else txt[-400:]
        if servers.sent_log:
            out["wire"] = {s for pack in servers.sent_log for s in pack}
        return out
    client = _dul_client(tr, var, servers)
    buf = []
    if var.get("slow_client") and hasattr(client, "_connect"):
        # a client that polls for server output a little later than the server produces it (network timing is
        # not under the protocol's control): can_read() waits up to 150 ms for data instead of not at all
        orig_connect = client._connect

        def _connect(cmd, path, protocol_version=None):
            import time
            proto, can_read, stderr = orig_connect(cmd, path, protocol_version)

            def patient_can_read():
                for _ in range(30):
                    if can_read():
                        return True
                    time.sleep(0.005)
                return False
            return proto, (patient_can_read if can_read is not None else None), stderr
        client._connect = _connect
    if tr != "local":
        orig = client.fetch_pack

        def fetch_pack(path, dw, gw, pack_data, **kw):
            def tee(d):
                buf.append(bytes(d))
                return pack_data(d)
            return orig(path, dw, gw, tee, **kw)
        client.fetch_pack = fetch_pack
    r = Repo(dst)
    try:
        kw = dict(_proto_kw(tr, var))
        if depth:
            kw["depth"] = depth
        if ref_prefix:
            kw["ref_prefix"] = list(ref_prefix)
        with _git_protocol_env(var.get("proto", 0) if tr == "cgit-sub" else 0):
            try:
                if fetch_all:
                    res = client.fetch(src, r, **kw)      # default determine_wants, as porcelain.fetch does
                else:
                    res = client.fetch(src, r, determine_wants=lambda refs, depth=None: list(want_shas), **kw)
            except Exception as e:      # noqa: BLE001 — the failure itself is the observation
                out["err"] = f"{type(e).__name__}: {str(e)[:300]}"
                if buf:
                    out["leaked"] = len(b"".join(buf))
                return out
        out["ok"] = True
        if fetch_all:
            from dulwich.refs import _import_remote_refs
            _import_remote_refs(r.refs, "origin", res.refs)       # what porcelain.fetch / clone do with the result
        elif raw_wants is None:
            for n, i in want_refs.items():
                if res.refs.get(n) == world.sha[i]:
                    r.refs[n] = world.sha[i]
        if buf:
            try:
                ids, deltas = _pack_ids(b"".join(buf), world)
                out["wire"], out["deltas"] = set(ids), deltas
            except Exception as e:      # noqa: BLE001 — the pack on the wire cannot be parsed by the harness
                out["wire_error"] = f"{type(e).__name__}: {str(e)[:200]}"
        elif servers.sent_log:
            out["wire"] = {s for pack in servers.sent_log for s in pack}
        return out
    finally:
        r.close()
        with contextlib.suppress(Exception):
            client.close()


def do_clone(world, servers, tr, var, src, depth=None, ref_prefix=None):
    """Real clone of `src` into a fresh directory; returns (result dict, path)."""
    out = {"ok": False, "err": None, "wire": None, "deltas": 0}
    servers.sent_log.clear()
    servers.req_log.clear()
    servers.shallow_log.clear()
    servers.log.records.clear()
    dst = world.new_path("clone")
    if tr in GIT_TRANSPORTS:
        args = ["-c", f"protocol.version={var.get('proto', 0)}", "-c", "gc.auto=0", "clone", "-q", "--bare"]
        if depth:
            args.append(f"--depth={depth}")
            args.append("--no-single-branch")
        args += [_url(tr, servers, src, set(var.get("server_drop", ()))), dst]
        rc, txt = _git(args)
        out["ok"] = rc == 0
        out["err"] = None if rc == 0 else txt[-400:]
        if servers.sent_log:
            out["wire"] = {s for pack in servers.sent_log for s in pack}
        return out, dst
    client = _dul_client(tr, var, servers)
    kw = dict(_proto_kw(tr, var))
    if depth:
        kw["depth"] = depth
    if ref_prefix:
        kw["ref_prefix"] = list(ref_prefix)
    with _git_protocol_env(var.get("proto", 0) if tr == "cgit-sub" else 0):
        try:
            r = client.clone(src, dst, mkdir=True, bare=True, checkout=False, **kw)
            r.close()
            out["ok"] = True
        except Exception as e:      # noqa: BLE001
            out["err"] = f"{type(e).__name__}: {str(e)[:300]}"
    if servers.sent_log:
        out["wire"] = {s for pack in servers.sent_log for s in pack}
    with contextlib.suppress(Exception):
        client.close()
    return out, dst


def do_push(world, servers, tr, var, src, dst, push_refs: dict):
    """Real push of `push_refs` ({refname: id}) from the repository at `src` to the one at `dst`."""
    from dulwich.repo import Repo
    out = {"ok": False, "err": None, "wire": None, "deltas": 0, "status": {}}
    servers.sent_log.clear()
    servers.req_log.clear()
    servers.shallow_log.clear()
    servers.log.records.clear()
    if tr in GIT_TRANSPORTS:
        args = ["-c", "gc.auto=0", "-c", f"protocol.version={var.get('proto', 0)}", "-C", src, "push", "-q"]
        if var.get("thin") is False:
            args.append("--no-thin")
        args.append(_url(tr, servers, dst))
        args += [f"+{world.sha[i].decode()}:{n.decode()}" for n, i in push_refs.items()]
        rc, txt = _git(args)
        out["ok"] = rc == 0
        out["err"] = None if rc == 0 else txt[-400:]
        return out
    client = _dul_client(tr, var, servers)
    r = Repo(src)
    sent = []
    try:
        def update_refs(old):
            new = dict(old)
            for n, i in push_refs.items():
                new[n] = world.sha[i]
            return new

        def gen(have, want, **kw):
            n, it = r.generate_pack_data(have, want, **kw)
            lst = list(it)
            from dulwich.objects import sha_to_hex
            for u in lst:
                sent.append(sha_to_hex(u.sha()))
            return n, iter(lst)
        try:
            res = client.send_pack(dst, update_refs, gen)
        except Exception as e:      # noqa: BLE001
            out["err"] = f"{type(e).__name__}: {str(e)[:300]}"
            return out
        st = res.ref_status or {}
        out["status"] = {k.decode() if isinstance(k, bytes) else k: v for k, v in st.items() if v}
        out["ok"] = not out["status"]
        if not out["ok"]:
            out["err"] = str(out["status"])[:300]
        out["wire"] = set(sent)
        return out
    finally:
        r.close()
        with contextlib.suppress(Exception):
            client.close()


# ------------------------------------------------------------------------------------------------
# e2e scenarios + the direct oracle

def gen_scenario(rng):
    g = gen_graph(rng, rng.choice([12, 20, 30, 30, 45, 60]))
    commits, tags = g.ids("commit"), g.ids("tag")
    has_child = {p for c in commits for p in g.objs[c][2]}
    tips = [c for c in commits if c not in has_child]
    heads = list(dict.fromkeys(rng.sample(tips, min(len(tips), rng.choice([1, 2, 3]))) +
                               rng.sample(commits, min(len(commits), rng.choice([0, 1, 2])))))
    srefs = {b"refs/heads/b%d" % k: c for k, c in enumerate(heads)}
    for t in rng.sample(tags, min(len(tags), rng.choice([0, 1, 2, 4, 6]))):
        srefs[b"refs/tags/t%d" % t] = t
    if rng.random() < 0.4:
        c = rng.choice(commits)
        srefs[b"refs/tags/light%d" % c] = c
    sclos = g.closure(srefs.values())
    rest = [i for i in g.objs if i not in sclos]
    garbage = g.closure(rng.sample(rest, min(len(rest), rng.choice([0, 1, 3])))) if rest else set()
    sender_ids = {i for i in (sclos | garbage) if i in g.objs}
    # receiver: any complete sub-history (roots anywhere in the graph, possibly unknown to the sender)
    rrefs = {}
    state = rng.choice(["empty", "empty", "behind", "behind", "behind", "mixed", "mixed", "ahead", "same"])
    pool = commits * 2 + tags
    if state == "behind":
        inside = [c for c in commits if c in sclos]
        roots = rng.sample(inside, min(len(inside), rng.choice([1, 1, 2])))
    elif state == "mixed":
        roots = rng.sample(pool, min(len(pool), rng.choice([1, 2, 3])))
    elif state == "ahead":
        roots = list(commits[-2:]) + rng.sample(pool, 1)
    elif state == "same":
        roots = list(srefs.values())
    else:
        roots = []
    for k, x in enumerate(dict.fromkeys(roots)):
        rrefs[(b"refs/heads/r%d" if g.objs[x][0] == "commit" else b"refs/tags/r%d") % k] = x
    recv_ids = {i for i in g.closure(rrefs.values()) if i in g.objs}
    if rng.random() < 0.06:
        # unreferenced leftovers (e.g. of an interrupted transfer): a tip object without its closure.  The
        # repository is still complete in the property's sense (everything reachable from its refs is there).
        state += "+dangling"
        recv_ids |= set(rng.sample(sorted(srefs.values()), 1))
    return {"g": g, "srefs": srefs, "sender_ids": sender_ids, "rrefs": rrefs, "recv_ids": recv_ids, "state": state,
            "repack": rng.random() < 0.35}


def gen_variant(rng, tr, op):
    var = {"ack": rng.choice(ACK_MODES), "include_tag": rng.random() < 0.4}
    if tr in ("tcp", "http", "git-tcp", "git-http"):
        drop = set()
        if tr == "git-http":
            var["ack"] = "detailed"      # C git refuses stateless-rpc without multi_ack_detailed
        if tr == "git-tcp":
            # the C git client always asks for the best mode on offer: steer it from the server side
            if var["ack"] in ("multi", "single"):
                drop.add(b"multi_ack_detailed")
            if var["ack"] == "single":
                drop.add(b"multi_ack")
        if rng.random() < 0.3:
            drop.add(b"no-done")
        if rng.random() < 0.15:
            drop.add(b"include-tag")
        var["server_drop"] = sorted(drop)
    if tr in ("tcp", "cgit-sub", "cgit-daemon") and op in ("fetch", "fetchall") and rng.random() < 0.15:
        var["slow_client"] = True
    if tr in ("tcp", "http"):
        var["proto_arg"] = rng.choice([None, None, 0, 1, 2])     # the dulwich servers answer v0 whatever is asked
    if tr in CGIT_SERVER:
        var["proto"] = rng.choice([0, 0, 2])
        var["thin"] = rng.random() < 0.75
        cd = [c for c in (b"ofs-delta", b"side-band-64k") if rng.random() < 0.25]
        var["client_drop"] = cd
    if tr.startswith("git-"):
        var["proto"] = rng.choice([0, 0, 1, 2])
        var["nego"] = rng.choice(["consecutive", "consecutive", "skipping", "noop"])
        var["unpack_limit"] = rng.choice([1, 100])
        var["thin"] = rng.random() < 0.8
    return var


def var_key(var):
    return json.dumps({k: ([x.decode() if isinstance(x, bytes) else x for x in v] if isinstance(v, list) else v)
                       for k, v in sorted(var.items())}, sort_keys=True)


def min_depths(g: Graph, tips):
    """Minimal depth (tip = 1) of every commit reachable from the peeled tips."""
    depth = {}
    frontier = [g.peel(t) for t in tips]
    frontier = [c for c in frontier if c in g.objs and g.objs[c][0] == "commit"]
    d = 1
    while frontier:
        nxt = []
        for c in frontier:
            if c in depth:
                continue
            depth[c] = d
            nxt.extend(g.objs[c][2])
        frontier = [c for c in nxt if c not in depth]
        d += 1
    return depth


def check_receiver(ctx, stream, world, case, path, before, shallow_before, transferred, allowed, res, depth=None,
                   fsck=False, push=False, sender_shallow=False, fetch_all=False, depth_tips=None, proto2=False,
                   refs_before=None, kept_haves=False):
    """The property's own words after a successful transfer into the repository at `path`:
      * it holds every object reachable from the transferred refs and from all its refs (through tag chains,
        gitlinks excluded), cut only at its recorded shallow commits; a depth-limited fetch may cut no earlier
        than the requested depth and a full fetch may not add shallow commits;
      * each of those objects is byte-identical to the sender's;
      * what travelled (new objects in the receiver, object ids captured on the wire) lies inside `allowed`
        = closure of what was asked for (+ auto-followed tags when the client asked for them);
      * no object appeared that the sender's history does not contain."""
    from dulwich.repo import Repo
    g = world.g
    r = Repo(path)
    try:
        after, foreign = set(), set()
        for s in r.object_store:
            (after.add(world.rev[s]) if s in world.rev else foreign.add(s))
        shallow_after = {world.rev[s] for s in r.get_shallow() if s in world.rev}
        ref_ids = set()
        refs_after = dict(r.get_refs())
        for n, s in refs_after.items():
            if s in world.rev:
                ref_ids.add(world.rev[s])
            elif s != ZERO:
                ctx.oracle_fail(stream, case, f"receiver ref {n!r} names an object unknown to the history", "ref-foreign")
        # "the refs that were transferred" = every ref this operation created or changed in the receiver
        changed = {} if refs_before is None else {n: world.rev[s] for n, s in refs_after.items()
                                                   if refs_before.get(n) != s and s in world.rev}
        if foreign:
            ctx.oracle_fail(stream, case, f"receiver holds {len(foreign)} object(s) that exist nowhere in the sender's "
                                          f"history, e.g. {sorted(foreign)[0].decode()}", "foreign-object")
        roots = set(transferred) | ref_ids
        required = {i for i in g.closure(roots, shallow=shallow_after) if i in g.objs}
        missing = required - after
        miss_cls = None
        if missing:
            miss_cls = _incomplete_class(push, depth, shallow_before, sender_shallow)
            if fetch_all:
                # default determine_wants skips a ref whose tip object is already in the store
                tips = {t for t in set(transferred) | set(changed.values()) if t in before}
                if tips and missing <= g.closure(tips, shallow=shallow_after):
                    miss_cls = "fetchall-tip-present-closure-missing"
            if kept_haves and depth and not push and shallow_before:
                miss_cls = "deepen-keeps-haves-past-client-boundary"
            if proto2 and shallow_before and not depth and not push and after == before:
                # nothing at all arrived although the fetch returned normally
                miss_cls = "fetch-v2-shallow-receiver-nothing-received"
            if depth and not push:
                md = min_depths(g, transferred if depth_tips is None else depth_tips)
                unrecorded = {c for c, d in md.items() if d == depth and c in after and c not in shallow_after
                              and any(p not in after for p in g.objs[c][2])}
                if unrecorded and missing <= g.closure([p for c in unrecorded for p in g.objs[c][2]], shallow=shallow_after):
                    miss_cls = "depth-fetch-boundary-not-recorded"
            from_transferred = {i for i in g.closure(transferred, shallow=shallow_after) if i in g.objs} - after
            broken = sorted(n.decode("utf-8", "replace") for n, i in changed.items()
                            if {x for x in g.closure([i], shallow=shallow_after) if x in g.objs} - after)
            ctx.oracle_fail(stream, case,
                            f"receiver lacks {len(missing)} object(s) reachable from its refs after the transfer "
                            f"(ids {show_ids(sorted(missing)[:8])}; {len(from_transferred)} of them from the refs asked for; "
                            f"refs created/updated by the operation whose closure is incomplete: {broken[:6]})",
                            miss_cls)
        new_shallow = shallow_after - shallow_before
        if new_shallow:
            if not depth:
                ctx.oracle_fail(stream, case, f"a full fetch made commits shallow: {show_ids(new_shallow)}", "spurious-shallow")
            else:
                # (a root commit has no parents to cut: recording it as shallow loses nothing)
                md = min_depths(g, transferred if depth_tips is None else depth_tips)
                early = {c for c in new_shallow if md.get(c, 10 ** 9) < depth and g.objs[c][2]}
                if early:
                    ctx.oracle_fail(stream, case, f"history cut before the requested depth {depth} at {show_ids(early)}",
                                    "shallow-too-early")
        bad = []
        for i in sorted(required & after):
            try:
                got = r.object_store.get_raw(world.sha[i])
            except Exception as e:      # noqa: BLE001
                bad.append((i, f"{type(e).__name__}"))
                continue
            if (got[0], bytes(got[1])) != world.raw(i):
                bad.append((i, "bytes differ"))
        if bad:
            ctx.oracle_fail(stream, case, f"objects not byte-identical / unreadable in the receiver: {bad[:5]}", "not-identical")
        new = after - before
        extra = new - allowed
        if extra:
            ctx.oracle_fail(stream, case, f"receiver gained objects outside the closure of what was asked for: "
                                          f"{show_ids(sorted(extra)[:10])}", "oversend")
        if res.get("wire") is not None:
            wire_ids = {world.rev[s] for s in res["wire"] if s in world.rev}
            unknown = [s for s in res["wire"] if s not in world.rev]
            wextra = wire_ids - allowed
            if wextra or unknown:
                ctx.oracle_fail(stream, case, f"objects on the wire outside the closure of what was asked for: "
                                              f"{show_ids(sorted(wextra)[:10])} {unknown[:2]}", "oversend-wire")
        result = {"after": after, "shallow": shallow_after, "new": new}
    finally:
        r.close()
    if fsck or res.get("deltas"):
        rc, txt = _git(["-C", path, "fsck", "--connectivity-only"])
        if rc != 0 and not missing:       # (an incomplete receiver has been reported above, with its class)
            ctx.oracle_fail(stream, case, "git fsck --connectivity-only fails on the receiver although every object "
                                          "reachable from its refs is present: " + txt[-300:], "fsck")
        ctx.count(stream + ".fsck", (path,), rc == 0, "clean" if rc == 0 else "fails")
        # every installed pack is self-contained (thin packs were completed): git verify-pack resolves all deltas
        pdir = os.path.join(path, "objects", "pack")
        for f in sorted(os.listdir(pdir)) if os.path.isdir(pdir) else []:
            if f.endswith(".idx"):
                rc2, txt2 = _git(["verify-pack", os.path.join(pdir, f)])
                ctx.count(stream + ".verify-pack", (path, f), rc2 == 0, "ok" if rc2 == 0 else "bad")
                if rc2 != 0:
                    ctx.oracle_fail(stream, case, f"installed pack {f} does not verify (unresolved delta base?): "
                                    + txt2[-200:], "pack-not-self-contained")
    return result


# Transfers that the unchanged code is known to abort with an exception (no pack is installed, the receiver is
# untouched).  A failed transfer is outside the property's words ("after a successful fetch ..."); the harness
# nevertheless expects every generated transfer to succeed and reports any *other* failure as a disagreement.
EXPECTED_FAILURES = {
    "client-single-ack-parse":
        "dulwich client, multi_ack off: `_handle_upload_pack_head` indexes parts[2] of a two-token `ACK <sha>` line "
        "(IndexError) when an ACK arrives while haves are still being sent (timing dependent); when the ACK arrives "
        "later it is left unread and taken for side-band data (`Invalid sideband channel 65`) or for the pack header",
    "client-push-shallow-advertisement":
        "dulwich client pushing to a shallow C git repository: receive-pack advertises `shallow <sha>` lines, which "
        "read_pkt_refs_v1 takes for a ref line (AssertionError: Invalid object name b'shallow')",
    "clone-prefix-excludes-head":
        "clone(ref_prefix=...) over protocol v2 when the prefix leaves out HEAD: the server-side filtered ls-refs carries no "
        "HEAD symref and _set_default_branch raises ValueError; the half-made clone is removed",
    "server-refuses-ref-to-missing-object":
        "dulwich receive-pack (since bcb1268) refuses to point a ref at an object it does not have: a push from / into a "
        "shallow repository that would leave the ref without its object is answered `ng ... missing necessary objects`",
    "cgit-detects-incomplete-deepen":
        "C git fetching with a depth from a dulwich server that kept the haves of a shallow client (see finding "
        "F-C05-deepen-keeps-haves-past-client-boundary): the pack lacks history below the client's boundary, C git's "
        "connectivity check refuses it (`remote did not send all necessary objects`)",
    "server-http-depth-multi-round":
        "C git depth fetch from the dulwich smart-HTTP server when the negotiation needs several stateless rounds "
        "(more than 16 haves): C git aborts with `expected shallow list` on the final response; nothing is installed",
    "server-push-shallow-thin-base":
        "C git pushing a thin pack into a shallow dulwich repository: receive-pack does not advertise the shallow "
        "commits, C git deltifies against an ancestor the receiver does not hold, add_thin_pack raises "
        "UnresolvedDeltas and the push fails (same root cause as F-C05-push-into-shallow-receiver)",
    "client-depth-early-shallow":
        "dulwich client over a full-duplex transport with depth: the server's shallow/unshallow section is read as "
        "if it were ACKs and its flush-pkt trips `assert pkt is not None` (timing dependent)",
    "determine-wants-depth-noncommit":
        "default determine_wants_all with a depth calls get_depth() on every advertised value; a ref naming a tag of a "
        "tree/blob/tag makes it read `.parents` of a non-commit (AttributeError) before anything is transferred",
    "cgit-refuses-shallow-push":
        "C git receive-pack refuses a push whose pack leaves it incomplete (dulwich pushes from or into a shallow "
        "repository without exchanging shallow information); the refusal keeps the receiver complete",
    "server-shallow-client-without-deepen":
        "dulwich server: a client that is already shallow and fetches without a depth sends `shallow` lines but no "
        "`deepen`; `_handle_shallow_request` then meets the flush-pkt and raises UnexpectedCommandError",
}


def expected_failure(tr, var, op, err, receiver_shallow=False):
    err = err or ""
    if op["op"] in ("fetch", "fetchall") and "UnexpectedCommandError" in err and "_split_proto_line" in err and (
            (receiver_shallow and not op.get("depth") and tr in ("tcp", "http", "git-tcp", "git-http")) or
            ((receiver_shallow or op.get("depth")) and tr in ("git-tcp", "git-http"))):
        return "server-shallow-client-without-deepen"
    if op["op"] == "fetchall" and op.get("depth") and err.startswith("AttributeError") and "has no attribute 'parents'" in err:
        return "determine-wants-depth-noncommit"
    if op["op"] == "push" and tr in CGIT_SERVER and (op.get("sender_shallow") or receiver_shallow) and \
            ("missing necessary objects" in err or "shallow update not allowed" in err):
        return "cgit-refuses-shallow-push"
    if op["op"] == "clone" and op.get("ref_prefix") and "neither origin_head nor branch are provided" in err:
        return "clone-prefix-excludes-head"
    if op["op"] == "push" and tr in ("tcp", "http") and (op.get("sender_shallow") or receiver_shallow) and \
            "missing necessary objects" in err:
        return "server-refuses-ref-to-missing-object"
    if tr in ("git-tcp", "git-http") and op.get("kept_haves") and "remote did not send all necessary objects" in err:
        return "cgit-detects-incomplete-deepen"
    if tr == "git-http" and op.get("depth") and "expected shallow list" in err:
        return "server-http-depth-multi-round"
    if op["op"] == "push" and tr in ("git-tcp", "git-http") and receiver_shallow and "UnresolvedDeltas" in err:
        return "server-push-shallow-thin-base"
    if tr in ("tcp", "cgit-sub", "cgit-daemon") and var.get("ack") == "single" and err.startswith("IndexError"):
        return "client-single-ack-parse"
    if tr in CGIT_SERVER and var.get("ack") == "single" and ("Invalid sideband channel 65" in err or
                                                            ("Invalid pack header" in err and "ACK" in err)):
        return "client-single-ack-parse"
    if op["op"] == "push" and tr in CGIT_SERVER and receiver_shallow and "Invalid object name b'shallow'" in err:
        return "client-push-shallow-advertisement"
    if tr in ("tcp", "cgit-sub", "cgit-daemon") and op.get("depth") and err.startswith("AssertionError"):
        return "client-depth-early-shallow"
    return None


def repo_state(world, path):
    """(ids of the generated objects present, ids of the shallow commits) of the repository at path."""
    from dulwich.repo import Repo
    known, _ = world.ids_in(path)
    with contextlib.closing(Repo(path)) as r:
        sh = {world.rev[x] for x in r.get_shallow() if x in world.rev}
    return known, sh


def _failed(ctx, stream, case, tr, var, op, res, expectation, servers=None, shallow=()):
    if servers is not None and servers.log.records:
        res["err"] = (res.get("err") or "") + " || server: " + " ;; ".join(servers.log.records[-3:])
    cls = expected_failure(tr, var, op, res.get("err"), bool(shallow))
    if cls is not None:
        ctx.count(stream + ".expected-failure", (cls, case["variant"], str(case["op"])), False, cls)
        return
    # A transfer that fails is outside the property's words.  Unclassified failures are collected; they become a
    # disagreement ("the harness expects generated transfers to succeed") only when they are not isolated — see
    # _judge_unexpected_failures — so that a rare interoperability glitch is reported in the evidence, not as a verdict.
    ctx.extra_cov.setdefault("unexpected_failures", []).append(
        {"stream": stream, "expectation": expectation, "error": (res.get("err") or "")[:400], "case": case})
    ctx.count(stream + ".unexpected-failure", (case["variant"], str(case["op"])), False, f"{tr}:{op['op']}")


def _judge_unexpected_failures(ctx, stream="e2e"):
    uf = [u for u in ctx.extra_cov.get("unexpected_failures", []) if u["stream"] == stream]
    nops = ctx.streams.get(stream, 0)
    if len(uf) > 3 and len(uf) > 0.005 * nops:
        ctx.disagree(stream + ".unexpected-failure", uf[0]["case"], f"generated transfers succeed ({nops} attempted)",
                     f"{len(uf)} transfers failed outside the known failure classes, first: {uf[0]['error']}")
    for u in uf[3:]:
        u.pop("case", None)      # keep the evidence file small


def check_receiver_safe(ctx, stream, world, case, path, before, shallow_before, *a, **kw):
    """check_receiver, with a receiver the real code can no longer read reported as a failure of the property
    (the objects are then certainly not retrievable byte-identically) instead of crashing the harness."""
    try:
        return check_receiver(ctx, stream, world, case, path, before, shallow_before, *a, **kw)
    except core.InfraError:
        raise
    except Exception as e:      # noqa: BLE001
        ctx.oracle_fail(stream, case, f"the receiving repository cannot be read after the transfer: "
                                      f"{type(e).__name__}: {str(e)[:300]}", "receiver-unreadable")
        return {"after": set(before), "shallow": set(shallow_before), "new": set()}


def _incomplete_class(push, depth, shallow_before, sender_shallow):
    """Failing-input class of an incomplete receiver (used to match known findings narrowly)."""
    if push and sender_shallow:
        return "push-from-shallow-sender"
    if push and shallow_before:
        return "push-into-shallow-receiver"
    if depth or shallow_before:
        return "incomplete-shallow-fetch"
    return "incomplete"


def tag_follow_ids(g, srefs, base):
    """Objects a tag-following client may additionally receive: the tag refs of the sender (annotated or
    lightweight) whose peeled target — or whose tag object itself — is in `base`, with everything they reach."""
    t = [v for n, v in srefs.items() if n.startswith(b"refs/tags/") and (g.peel(v) in base or v in base)]
    return {i for i in g.closure(t) if i in g.objs}


def check_wire_shallow(ctx, stream, world, case, servers, tr, shallow_before):
    """What the recording hooks saw during the last operation, judged in the property's terms:
      * a dulwich client that is shallow announces its whole boundary (`shallow <sha>` per entry of its shallow
        file) in every upload-pack request, deepening or not — otherwise the sender takes the receiver's haves for
        complete histories and omits what lies below the boundary;
      * every `unshallow X` a dulwich server sends is justified: X is one of the client's shallow commits and is
        reachable from this fetch's wants (so its ancestry is in the pack or already at the client)."""
    g = world.g
    if tr in DUL_TRANSPORTS and tr != "local":
        expect = {world.sha[i] for i in shallow_before}
        for lines in servers.req_log:
            if not any(ln and ln.startswith(b"want ") for ln in lines):
                continue
            sent = {ln.split()[1] for ln in lines if ln and ln.startswith(b"shallow ")}
            if sent != expect:
                ctx.oracle_fail(stream, case, f"upload-pack request of a receiver with {len(expect)} shallow commit(s) announces "
                                              f"{len(sent)} of them (missing: {sorted(world.rev.get(x, x) for x in expect - sent)[:4]}, "
                                              f"spurious: {sorted(world.rev.get(x, x) for x in sent - expect)[:4]})",
                                "request-omits-shallow-boundary")
            ctx.count(stream + ".request", (tr, len(expect), tuple(sorted(sent))), bool(expect),
                      f"{tr}:shallow{min(len(expect), 3)}")
    for wants, client_shallow, new_shallow, unshallow, _boundary in servers.shallow_log:
        w = [world.rev[x] for x in wants if x in world.rev]
        reach = set()
        todo = [g.peel(x) for x in w]
        while todo:
            c = todo.pop()
            if c in reach or c not in g.objs or g.objs[c][0] != "commit":
                continue
            reach.add(c)
            todo.extend(g.objs[c][2])
        bad = [world.rev.get(x, x) for x in unshallow if x not in client_shallow or world.rev.get(x) not in reach]
        ctx.count(stream + ".shallow-answer", (tuple(sorted(w)), tuple(sorted(unshallow))), bool(unshallow),
                  f"unshallow{min(len(unshallow), 3)}:client{min(len(client_shallow), 3)}")
        if bad:
            ctx.oracle_fail(stream, case, f"the server tells the client to unshallow {bad[:4]}, which the wants do not reach "
                                          f"(or which the client did not announce): its ancestry is not part of this transfer",
                            "unshallow-unjustified")


def server_kept_haves_of_shallow_client(servers):
    """A dulwich server answered a deepen request of a client that announced shallow commits with neither a new
    boundary nor an unshallow: BaseRepo.find_missing_objects then keeps the client's haves (it discards them only when
    the walker has a boundary or something is unshallowed) and walks their ancestry through the client's boundary."""
    return any(cs and not un and not boundary for _w, cs, _ns, un, boundary in servers.shallow_log)


def refs_in_prefix(srefs, prefixes):
    """The sender refs a `ref_prefix` selects (refs.filter_ref_prefix: plain string prefixes)."""
    if not prefixes:
        return dict(srefs)
    return {n: v for n, v in srefs.items() if any(n.startswith(p) for p in prefixes)}


def repo_refs(path):
    from dulwich.repo import Repo
    with contextlib.closing(Repo(path)) as r:
        return dict(r.get_refs())


def run_scenario(ctx, servers, sc, ops, stream="e2e"):
    """Materialise the scenario on disk and perform `ops` (list of dicts) in sequence, checking after each."""
    g = sc["g"]
    world = World(g, ctx.scratch / f"w{ctx.evaluations}_{len(os.listdir(ctx.scratch))}")
    os.makedirs(world.root, exist_ok=True)
    src = world.make_repo("src", sc["sender_ids"], sc["srefs"], head=sorted(sc["srefs"])[0], repack=sc["repack"])
    dst = world.make_repo("dst", sc["recv_ids"], sc["rrefs"])
    recv_ids = set(sc["recv_ids"])
    shallow = set()
    nfail0 = len(ctx.oracle_failures) + sum(ctx.known_hit.values())
    for k_op, op in enumerate(ops):
        if len(ctx.oracle_failures) + sum(ctx.known_hit.values()) > nfail0:
            break       # the receiver no longer satisfies the property's precondition: later ops prove nothing
        tr, var, kind = op["tr"], op["var"], op["op"]
        case = {"scenario": scenario_json(sc), "ops": [op_json(o) for o in ops[:k_op + 1]],
                "op": op_json(op), "variant": var_key(var)}
        tag = f"{kind}:{tr}:{var.get('ack', '-')}" + (":depth" if op.get("depth") else "") + \
              (":v2" if var.get("proto") == 2 else "") + (":tags" if var.get("include_tag") else "")
        do_fsck = ctx.thorough or ctx.rng.random() < 0.15
        if kind == "badwant":
            # ask for an object no advertised ref reaches: the sender must not transmit it
            bad = op["want"]
            res = do_fetch(world, servers, tr, var, src, dst, {}, raw_wants=[world.sha[bad]])
            ctx.count(stream + ".badwant", (tuple(g.tokens()), tuple(sorted(sc["srefs"].items())), tr, bad), True,
                      f"{tr}:" + ("served" if res["ok"] else "refused"))
            known, _ = world.ids_in(dst)
            adv = {i for i in g.closure(sc["srefs"].values()) if i in g.objs}
            leaked = (known - recv_ids) - adv
            wire = {world.rev[x] for x in (res.get("wire") or ()) if x in world.rev} - adv
            if leaked or wire:
                ctx.oracle_fail(stream + ".badwant", case,
                                f"the sender transmitted objects unreachable from every ref it advertises "
                                f"(want of unadvertised object {bad}): {show_ids(sorted(leaked | wire)[:8])}",
                                "unadvertised-want-" + ("local" if tr == "local" else "served"))
            recv_ids = known
            continue
        if kind in ("fetch", "fetchall"):
            prefix = [x.encode() if isinstance(x, str) else x for x in op.get("ref_prefix", ())] if kind == "fetchall" else []
            want_refs = {n: sc["srefs"][n] for n in op["refs"]} if kind == "fetch" else refs_in_prefix(sc["srefs"], prefix)
            refs_before = repo_refs(dst)
            res = do_fetch(world, servers, tr, var, src, dst, want_refs, depth=op.get("depth"), fetch_all=(kind == "fetchall"),
                           ref_prefix=prefix)
            check_wire_shallow(ctx, stream, world, case, servers, tr, shallow)
            kept_haves = server_kept_haves_of_shallow_client(servers)
            wants = set(want_refs.values())
            wclos = {i for i in g.closure(wants) if i in g.objs}
            allowed = set(wclos)
            if (op.get("depth") or 0) >= DEPTH_INF:
                # an infinite deepen asks for the receiver's history to be completed: C git unshallows every
                # boundary the client announced and sends what lies below it
                allowed |= {i for i in g.closure(shallow) if i in g.objs}
            if prefix and tr == "local":
                # LocalGitClient does not implement the ref_prefix hint: everything advertised may travel
                allowed = {i for i in g.closure(sc["srefs"].values()) if i in g.objs}
            if prefix:
                tag += ":prefix"
            if var.get("include_tag") and b"include-tag" not in var.get("server_drop", ()) or tr.startswith("git-") and var.get("include_tag"):
                base = wclos | recv_ids
                if tr.startswith("git-"):
                    base |= {i for i, o in g.objs.items() if o == ("tree", [])}   # C git always "has" the empty tree
                allowed |= tag_follow_ids(g, sc["srefs"], base)
            depth_tips = None
            if tr.startswith("git-") or kind == "fetchall":
                # these clients only ask for refs they do not hold yet: the depth counts from those
                depth_tips = {t for t in wants if not {i for i in g.closure([t]) if i in g.objs} <= recv_ids}
                if tr.startswith("git-"):
                    # C git does not even want a ref whose tip object it already has (shallow or not)
                    depth_tips = {t for t in depth_tips if t not in recv_ids}
            ctx.count(stream, (tuple(g.tokens()), tuple(sorted(sc["srefs"].items())), tuple(sorted(sc["rrefs"].items())),
                               tag, var_key(var), tuple(sorted(op.get("refs", ())))), res["ok"], tag + (":ok" if res["ok"] else ":fail"))
            if not res["ok"]:
                _failed(ctx, stream, case, tr, var, dict(op, kept_haves=kept_haves), res, "transfer succeeds", servers, shallow)
                recv_ids, shallow = repo_state(world, dst)    # a failed transfer may leave objects / shallow info behind
                continue
            out = check_receiver_safe(ctx, stream, world, case, dst, recv_ids, shallow, wants, allowed, res,
                                 depth=op.get("depth"), fsck=do_fsck, fetch_all=(kind == "fetchall"),
                                 depth_tips=depth_tips, proto2=(tr in CGIT_SERVER and var.get("proto") == 2),
                                 refs_before=refs_before, kept_haves=kept_haves)
            recv_ids, shallow = out["after"], out["shallow"]
            if res.get("deltas"):
                ctx.count(stream + ".thin-or-delta", (tag, len(out["new"])), True, tr)
        elif kind == "clone":
            prefix = [x.encode() if isinstance(x, str) else x for x in op.get("ref_prefix", ())]
            res, cpath = do_clone(world, servers, tr, var, src, depth=op.get("depth"), ref_prefix=prefix)
            if prefix:
                tag += ":prefix"
            ctx.count(stream, (tuple(g.tokens()), tuple(sorted(sc["srefs"].items())), tag, var_key(var), tuple(prefix)), res["ok"],
                      tag + (":ok" if res["ok"] else ":fail"))
            if not res["ok"]:
                _failed(ctx, stream, case, tr, var, op, res, "clone succeeds", servers)
                continue
            roots = set(refs_in_prefix(sc["srefs"], prefix).values())
            allowed = {i for i in g.closure(roots if (prefix and tr != "local") else sc["srefs"].values()) if i in g.objs}
            if var.get("include_tag") and b"include-tag" not in var.get("server_drop", ()):
                allowed |= tag_follow_ids(g, sc["srefs"], set(allowed))      # tags followed at the client's request
            check_receiver_safe(ctx, stream, world, case, cpath, set(), set(), roots, allowed, res, depth=op.get("depth"),
                           fsck=do_fsck, refs_before={})
        else:   # push: the roles are swapped — `src` sends to `dst`
            push_refs = {n: sc["srefs"][n] for n in op["refs"]}
            psrc, sender_shallow = src, False
            if op.get("shallow_sender"):
                # the pushing repository is itself a depth-limited clone of the sender (made by the real code)
                cres, psrc = do_clone(world, servers, "local", {}, src, depth=op["shallow_sender"])
                if not cres["ok"]:
                    _failed(ctx, stream, case, "local", {}, {"op": "clone", "depth": op["shallow_sender"]}, cres,
                            "depth clone succeeds", servers)
                    continue
                from dulwich.repo import Repo
                with contextlib.closing(Repo(psrc)) as pr:
                    sender_shallow = bool(pr.get_shallow())
                    have = set(pr.object_store)
                push_refs = {n: i for n, i in push_refs.items() if world.sha[i] in have}
                if not push_refs:
                    continue
                tag += ":shallow-sender" if sender_shallow else ""
            refs_before = repo_refs(dst)
            res = do_push(world, servers, tr, var, psrc, dst, push_refs)
            roots = set(push_refs.values())
            allowed = {i for i in g.closure(roots) if i in g.objs}
            ctx.count(stream, (tuple(g.tokens()), tuple(sorted(sc["srefs"].items())), tuple(sorted(sc["rrefs"].items())),
                               tag, var_key(var), tuple(sorted(op["refs"]))), res["ok"], tag + (":ok" if res["ok"] else ":fail"))
            if not res["ok"]:
                _failed(ctx, stream, case, tr, var, dict(op, sender_shallow=sender_shallow), res, "push succeeds", servers, shallow)
                recv_ids, shallow = repo_state(world, dst)
                continue
            out = check_receiver_safe(ctx, stream, world, case, dst, recv_ids, shallow, roots, allowed, res, fsck=do_fsck,
                                 push=True, sender_shallow=sender_shallow, refs_before=refs_before)
            recv_ids, shallow = out["after"], out["shallow"]


def op_json(op):
    d = {}
    for k, v in op.items():
        if k == "var":
            d[k] = json.loads(var_key(v))
        elif k == "refs":
            d[k] = [r.decode() if isinstance(r, bytes) else r for r in v]
        else:
            d[k] = v
    return d


def op_from_json(d):
    op = dict(d)
    if "refs" in op:
        op["refs"] = [r.encode() for r in op["refs"]]
    var = dict(op.get("var", {}))
    for k in ("server_drop", "client_drop"):
        if k in var:
            var[k] = [x.encode() for x in var[k]]
    op["var"] = var
    return op


def scenario_json(sc):
    return {"graph": sc["g"].to_json(), "srefs": {k.decode(): v for k, v in sc["srefs"].items()},
            "sender_ids": sorted(sc["sender_ids"]), "rrefs": {k.decode(): v for k, v in sc["rrefs"].items()},
            "recv_ids": sorted(sc["recv_ids"]), "state": sc["state"], "repack": sc["repack"]}


def scenario_from_json(d):
    return {"g": Graph.from_json(d["graph"]), "srefs": {k.encode(): v for k, v in d["srefs"].items()},
            "sender_ids": set(d["sender_ids"]), "rrefs": {k.encode(): v for k, v in d["rrefs"].items()},
            "recv_ids": set(d["recv_ids"]), "state": d.get("state", "?"), "repack": d.get("repack", False)}


def gen_ref_prefix(rng, names):
    """A non-empty list of ref prefixes: whole namespaces, a partial branch name, exact ref names."""
    pool = [b"refs/heads/", b"refs/tags/", b"refs/heads/b", b"refs/tags/t", b"refs/heads/b0"] + list(names)
    return [p.decode() for p in dict.fromkeys(rng.sample(pool, rng.choice([1, 1, 2, 3])))]


def gen_ops(rng, sc, transports):
    ops = []
    names = sorted(sc["srefs"])
    for _ in range(rng.choice([1, 1, 2, 3])):
        tr = rng.choice(transports)
        kind = rng.choice(["fetch"] * 5 + ["clone"] * 2 + ["push"] * 3 + ["fetchall"] * 2 + ["badwant"])
        if kind == "fetchall" and tr in GIT_TRANSPORTS:
            kind = "fetch"
        if kind == "badwant":
            adv = sc["g"].closure(sc["srefs"].values())
            cand = [i for i in sc["sender_ids"] if i not in adv and sc["g"].objs[i][0] in ("commit", "tag")]
            if not cand or tr in GIT_TRANSPORTS or tr in CGIT_SERVER:
                kind = "fetch"
        op = {"op": kind, "tr": tr, "var": gen_variant(rng, tr, kind)}
        if kind == "badwant":
            op["want"] = rng.choice(sorted(cand))
        if kind in ("fetch", "push"):
            k = rng.choice([1, 1, 2, len(names)])
            op["refs"] = sorted(rng.sample(names, min(k, len(names))))
        if kind in ("fetchall", "clone") and tr not in GIT_TRANSPORTS and rng.random() < 0.45:
            op["ref_prefix"] = gen_ref_prefix(rng, names)
        if kind == "push" and tr not in GIT_TRANSPORTS and rng.random() < 0.15:
            op["shallow_sender"] = rng.choice([1, 2])
        if kind in ("fetch", "clone", "fetchall") and rng.random() < 0.2:
            op["depth"] = rng.choice([1, 2, 3])
        ops.append(op)
        if kind in ("fetch", "fetchall") and op.get("depth") and rng.random() < 0.6:
            # deepen: the same refs again with a larger depth (possibly over another transport)
            tr2 = rng.choice(transports)
            kind2 = kind if not (kind == "fetchall" and tr2 in GIT_TRANSPORTS) else "fetch"
            op2 = {"op": kind2, "tr": tr2, "var": gen_variant(rng, tr2, kind2), "depth": op["depth"] + rng.choice([1, 2])}
            if kind2 == "fetch":
                op2["refs"] = op.get("refs", names)
            ops.append(op2)
    return ops


def gen_fork_scenario(rng):
    """Scenario family "branch forked below the client's shallow boundary": a trunk R <- ... <- T and a side branch
    whose first commit has a parent deep in the trunk (plus, sometimes, a merge parent elsewhere below the boundary).
    The client first takes a depth-limited copy of the trunk (so it is shallow at S and HAS haves), then fetches the
    side branch with a depth whose window cannot reach S: the only route from the wanted commits to old history
    avoids the client's boundary, so nothing below the fork point may be assumed present.  Trees of the side branch
    share blobs/subtrees with the fork point's tree (what a wrong "common" set would prune)."""
    g = Graph()
    n = rng.choice([4, 5, 6, 8])
    trunk, trees = [], []
    shared_blob = g.add(("blob",))
    for k in range(n):
        b = g.add(("blob",))
        sub = g.add(("tree", [(M_FILE, b)]))
        ents = [(M_FILE, b), (M_DIR, sub)]
        if rng.random() < 0.7:
            ents.append((M_FILE, shared_blob))
        if trees and rng.random() < 0.5:
            ents.append((M_DIR, g.objs[trees[-1]][1][1][1]))       # previous commit's subtree
        t = g.add(("tree", ents))
        parents = [trunk[-1]] if trunk else []
        trunk.append(g.add(("commit", t, parents)))
        trees.append(t)
    d1 = rng.choice([1, 2, 2, 3])
    d1 = min(d1, n - 2)
    below = list(range(0, n - d1))                # trunk indices strictly below the boundary commit trunk[n - d1]
    fork = rng.choice(below)
    side = []
    prev = trunk[fork]
    for k in range(rng.choice([1, 1, 2, 3])):
        b = g.add(("blob",))
        ft = g.objs[trees[fork]][1]
        ents = [(M_FILE, b)] + rng.sample(ft, rng.randint(1, len(ft)))      # shares entries with the fork point's tree
        t = g.add(("tree", ents))
        parents = [prev]
        if k == 0 and len(below) > 1 and rng.random() < 0.3:
            parents.append(trunk[rng.choice([i for i in below if i != fork])])
        prev = g.add(("commit", t, parents))
        side.append(prev)
    srefs = {b"refs/heads/b0": trunk[-1], b"refs/heads/b1": side[-1]}
    if rng.random() < 0.4:
        srefs[b"refs/tags/t%d" % side[-1]] = g.add(("tag", side[-1]))
    sender_ids = {i for i in g.closure(srefs.values()) if i in g.objs}
    sc = {"g": g, "srefs": srefs, "sender_ids": sender_ids, "rrefs": {}, "recv_ids": set(), "state": "fork-below-boundary",
          "repack": rng.random() < 0.3}
    d2 = rng.randint(1, len(side) + 1)
    return sc, d1, d2


def gen_fork_ops(rng, sc, d1, d2, thorough=False):
    # first fetch: any transport; second: the dulwich servers (HTTP is timing-free; TCP subject to the F4 race,
    # which is classified), with the dulwich client and with C git as the client
    tr1 = rng.choice(["local", "http", "http", "tcp", "git-http", "git-tcp", "cgit-sub"])
    tr2 = rng.choice(["http"] * 4 + ["tcp"] * 2 + ["git-http", "git-tcp"] + (["local", "cgit-sub"] if thorough else []))
    refs2 = [b"refs/heads/b1"] + [n for n in sc["srefs"] if n.startswith(b"refs/tags/") and rng.random() < 0.5]
    v1, v2 = gen_variant(rng, tr1, "fetch"), gen_variant(rng, tr2, "fetch")
    for v in (v1, v2):
        v.pop("slow_client", None)
    ops = [{"op": "fetch", "tr": tr1, "var": v1, "refs": [b"refs/heads/b0"], "depth": d1},
           {"op": "fetch", "tr": tr2, "var": v2, "refs": sorted(refs2), "depth": d2}]
    if rng.random() < 0.3:
        # and once more, deeper, still short of old history in most cases
        tr3 = rng.choice(["http", "http", "tcp", "git-http"])
        v3 = gen_variant(rng, tr3, "fetch")
        v3.pop("slow_client", None)
        ops.append({"op": "fetch", "tr": tr3, "var": v3, "refs": sorted(refs2), "depth": d2 + 1})
    return ops


DEPTH_INF = 0x7FFFFFFF


def _mk_commit(g, parents, share_from=None, rng=None):
    """A commit with its own blob and subtree; optionally sharing some entries with another commit's tree."""
    b = g.add(("blob",))
    sub = g.add(("tree", [(M_FILE, b)]))
    ents = [(M_FILE, b), (M_DIR, sub)]
    if share_from is not None:
        ft = g.objs[g.objs[share_from][1]][1]
        ents += rng.sample(ft, rng.randint(1, len(ft)))
    t = g.add(("tree", ents))
    return g.add(("commit", t, list(parents)))


def gen_bypass_scenario(rng):
    """Scenario family "merge that bypasses the receiver's shallow boundary": trunk c0 <- ... <- T; the receiver takes a
    depth-d copy of T (boundary b); upstream a side branch forked from an ancestor a of b (below the boundary) has
    been merged into a descendant of T, and a second branch has its tip below the boundary.  An ORDINARY fetch (no
    depth) of the new tips must bring everything below a: the path new tip -> side -> a -> ... never meets b, so only
    a sender that knows the receiver's boundary (the `shallow` lines) sends it.  (b, a) range over every boundary
    position and every ancestor of the boundary commit."""
    g = Graph()
    n = rng.choice([3, 4, 5, 6, 7])
    trunk = []
    for _ in range(n):
        trunk.append(_mk_commit(g, trunk[-1:], trunk[-1] if trunk and rng.random() < 0.5 else None, rng))
    d = rng.randint(1, min(3, n - 1))
    ib = n - d                                    # boundary commit trunk[ib]; its ancestors are trunk[:ib]
    ia = rng.randrange(0, ib)
    side = trunk[ia]
    for _ in range(rng.choice([1, 1, 2])):
        side = _mk_commit(g, [side], trunk[ia], rng)
    top = _mk_commit(g, rng.sample([trunk[-1], side], 2), trunk[-1], rng)       # the merge, above the boundary
    for _ in range(rng.choice([0, 0, 1])):
        top = _mk_commit(g, [top], None, rng)
    # second branch: tip below the boundary (an old trunk commit itself, or a commit grown on one)
    ia2 = rng.randrange(0, ib)
    low = trunk[ia2] if rng.random() < 0.4 else _mk_commit(g, [trunk[ia2]], trunk[ia2], rng)
    srefs = {b"refs/heads/old": trunk[-1], b"refs/heads/b0": top, b"refs/heads/b1": low}
    sender_ids = {i for i in g.closure(srefs.values()) if i in g.objs}
    return ({"g": g, "srefs": srefs, "sender_ids": sender_ids, "rrefs": {}, "recv_ids": set(), "state": "bypass-merge",
             "repack": rng.random() < 0.4}, d)


def gen_bypass_ops(rng, sc, d, thorough=False):
    tr1 = rng.choice(["local", "http", "cgit-sub", "cgit-daemon", "tcp"])
    # the ordinary fetch: C git as the sender (subprocess and git daemon, v0 and v2), sometimes the other senders
    tr2 = rng.choice(["cgit-sub"] * 3 + ["cgit-daemon"] * 3 + ["local"] + (["http", "tcp"] if thorough or rng.random() < 0.3 else []))
    v1, v2 = gen_variant(rng, tr1, "fetch"), gen_variant(rng, tr2, "fetch")
    for v in (v1, v2):
        v.pop("slow_client", None)
    if tr2 in CGIT_SERVER:
        v2["proto"] = rng.choice([0, 0, 0, 2])
    refs2 = rng.choice([[b"refs/heads/b0"], [b"refs/heads/b1"], [b"refs/heads/b0", b"refs/heads/b1"]])
    ops = [{"op": "fetch", "tr": tr1, "var": v1, "refs": [b"refs/heads/old"], "depth": d},
           {"op": rng.choice(["fetch", "fetch", "fetchall"]), "tr": tr2, "var": v2, "refs": refs2}]
    if ops[1]["op"] == "fetchall":
        ops[1].pop("refs")
    return ops


def gen_unshallow_scenario(rng):
    """Scenario family "infinite deepen with several boundaries": trunk with `main` at its tip and one or two feature
    branches forked low; the client holds depth-limited copies of several branches (>= 2 shallow commits) and then asks
    for `main` only with an infinite depth (--unshallow with an explicit refspec / after a branch vanished upstream).
    Only boundaries the wants reach may be unshallowed."""
    g = Graph()
    n = rng.choice([4, 5, 6, 7])
    trunk = []
    for _ in range(n):
        trunk.append(_mk_commit(g, trunk[-1:], trunk[-1] if trunk and rng.random() < 0.5 else None, rng))
    srefs = {b"refs/heads/b0": trunk[-1]}
    feats = []
    for k in range(rng.choice([1, 1, 2])):
        j = rng.randrange(0, n - 1)
        tip = trunk[j]
        for _ in range(rng.choice([2, 2, 3])):
            tip = _mk_commit(g, [tip], trunk[j], rng)
        if rng.random() < 0.3:
            tip = _mk_commit(g, [tip, trunk[rng.randrange(0, n)]], None, rng)      # feature merged trunk in
        srefs[b"refs/heads/b%d" % (k + 1)] = tip
        feats.append(b"refs/heads/b%d" % (k + 1))
    sender_ids = {i for i in g.closure(srefs.values()) if i in g.objs}
    return {"g": g, "srefs": srefs, "sender_ids": sender_ids, "rrefs": {}, "recv_ids": set(), "state": "multi-boundary",
            "repack": rng.random() < 0.3}, feats


def gen_unshallow_ops(rng, sc, feats, thorough=False):
    def mk(tr, refs, depth):
        v = gen_variant(rng, tr, "fetch")
        v.pop("slow_client", None)
        return {"op": "fetch", "tr": tr, "var": v, "refs": refs, "depth": depth}
    first = ["local", "http", "http", "tcp", "git-http", "cgit-sub"]
    ops = []
    have_main = rng.random() < 0.75
    pre = [([f], rng.choice([1, 1, 2])) for f in feats]
    if have_main:
        pre.append(([b"refs/heads/b0"], rng.choice([1, 2, 2])))
    rng.shuffle(pre)
    for refs, d in pre:
        ops.append(mk(rng.choice(first), refs, d))
    # the infinite deepen of main only, answered by the dulwich servers (dulwich client and C git client)
    tr = rng.choice(["http"] * 3 + ["tcp"] * 2 + ["git-http", "git-tcp"] + (["local", "cgit-sub", "cgit-daemon"] if thorough else []))
    ops.append(mk(tr, [b"refs/heads/b0"], rng.choice([DEPTH_INF, DEPTH_INF, DEPTH_INF, 50])))
    return ops


def _stream_e2e(ctx, servers):
    rng = ctx.rng
    for _ in range(ctx.budget(30, mult=8)):
        sc, d = gen_bypass_scenario(rng)
        run_scenario(ctx, servers, sc, gen_bypass_ops(rng, sc, d, ctx.thorough), stream="e2e")
    for _ in range(ctx.budget(25, mult=8)):
        sc, feats = gen_unshallow_scenario(rng)
        run_scenario(ctx, servers, sc, gen_unshallow_ops(rng, sc, feats, ctx.thorough), stream="e2e")
    for _ in range(ctx.budget(25, mult=8)):
        sc, d1, d2 = gen_fork_scenario(rng)
        run_scenario(ctx, servers, sc, gen_fork_ops(rng, sc, d1, d2, ctx.thorough), stream="e2e")
    n = ctx.budget(150, mult=10)
    if ctx.thorough:
        transports = DUL_TRANSPORTS + GIT_TRANSPORTS
    else:
        transports = ["local"] * 4 + ["tcp"] * 3 + ["http"] * 3 + ["cgit-sub"] * 2 + ["cgit-daemon"] + GIT_TRANSPORTS
    for _ in range(n):
        sc = gen_scenario(rng)
        run_scenario(ctx, servers, sc, gen_ops(rng, sc, transports))
    _judge_unexpected_failures(ctx)


# ------------------------------------------------------------------------------------------------
# entry points

ASSUMPTIONS = [
    "sender repositories have no commit-graph file, no grafts and no bitmaps (MissingObjectFinder is modelled with "
    "get_parents = commit.parents and the GraphTraversalReachability provider)",
    "object names are injective on the generated histories (checked at materialisation); byte identity in the "
    "theorems is content addressing: equal names => equal objects is a hypothesis, the oracle compares the bytes",
    "the e2e oracle observes the objects a dulwich server decided to send by wrapping dulwich.server."
    "write_pack_from_container in the harness process, the bytes a dulwich client received by teeing its pack_data "
    "callback, and otherwise the receiver's object set before/after",
    "transfers that the unchanged code aborts with an exception are outside the property's words; the known ones are "
    "listed in the evidence (expected_failures); other failed transfers are listed under unexpected_failures and count "
    "as a disagreement when more than 3 and more than 0.5% of the attempted transfers fail that way",
]


def run(ctx: core.Ctx):
    ctx.assumptions += ASSUMPTIONS
    ctx.extra_cov["expected_failures"] = EXPECTED_FAILURES
    _run_corpus(ctx)
    _stream_mof(ctx)
    _stream_nego(ctx)
    _stream_shallow_wire(ctx)
    servers = Servers()
    servers.start_capture()
    try:
        _stream_e2e(ctx, servers)
    finally:
        servers.close()


def _run_corpus(ctx):
    d = core.VERIF / "corpus" / "C05"
    if not d.exists():
        return
    servers = None
    try:
        for f in sorted(d.glob("*.json")):
            c = json.loads(f.read_text())
            if c.get("type") == "mof":
                run_mof_cases(ctx, "mof.corpus", [case_from_json(c["case"])])
            elif c.get("type") == "e2e":
                if servers is None:
                    servers = Servers()
                    servers.start_capture()
                sc = scenario_from_json(c["case"]["scenario"])
                ops = [op_from_json(o) for o in c["case"]["ops"]]
                for _ in range(c.get("repeat", 1)):
                    n0 = len(ctx.oracle_failures) + sum(ctx.known_hit.values())
                    run_scenario(ctx, servers, sc, ops, stream="e2e")
                    if len(ctx.oracle_failures) + sum(ctx.known_hit.values()) > n0:
                        break
    finally:
        if servers is not None:
            servers.close()


def search(ctx: core.Ctx):
    """Failing-input search after a broken obligation / disagreement: the direct oracles with a boosted budget,
    first around the disagreeing cases (same graph, every have/want choice), then on fresh cases."""
    rng = ctx.rng
    seen = 0
    for dgr in ctx.disagreements[:20]:
        c = dgr["case"]
        if "graph" not in c or "present" not in c:
            continue
        base = case_from_json(c)
        g = base["g"]
        roots = g.ids("commit") + g.ids("tag")
        variants = [base]
        for _ in range(60):
            v = dict(base)
            v["wants"] = set(rng.sample(roots, min(len(roots), rng.choice([1, 2]))))
            v["haves"] = set(rng.sample(roots, min(len(roots), rng.choice([0, 1, 2]))))
            variants.append(v)
        _oracle_only(ctx, "search.mof", variants)
        seen += 1
        if ctx.oracle_failures:
            return
    _oracle_only(ctx, "search.mof", [gen_mof_case(rng) for _ in range(ctx.budget(1500, mult=4))])
    if ctx.oracle_failures:
        return
    servers = Servers()
    servers.start_capture()
    try:
        transports = DUL_TRANSPORTS + GIT_TRANSPORTS
        for _ in range(ctx.budget(40, mult=5)):
            sc, d1, d2 = gen_fork_scenario(rng)
            run_scenario(ctx, servers, sc, gen_fork_ops(rng, sc, d1, d2, True), stream="search.e2e")
            if ctx.oracle_failures:
                return
        for _ in range(ctx.budget(60, mult=5)):
            sc = gen_scenario(rng)
            run_scenario(ctx, servers, sc, gen_ops(rng, sc, transports), stream="search.e2e")
            if ctx.oracle_failures:
                return
        _judge_unexpected_failures(ctx, "search.e2e")
    finally:
        servers.close()


def _oracle_only(ctx, stream, cases):
    from dulwich.object_store import MemoryObjectStore
    for c in cases:
        objs, sha = materialise(c["g"])
        store = MemoryObjectStore()
        for i in c["present"]:
            store.add_object(objs[i])
        for r in (None, ctx.rng):
            res = real_mof(store, sha, c["haves"], c["wants"], c["shallow"], c["tagged"], r)
            if res[0] == "ok":
                mof_oracle(ctx, stream, c, res[1])
        if ctx.oracle_failures:
            return


def replay(ctx: core.Ctx, data: dict) -> int:
    case = data.get("case", {})
    if "scenario" in case:
        servers = Servers()
        servers.start_capture()
        try:
            sc = scenario_from_json(case["scenario"])
            ops = [op_from_json(o) for o in case["ops"]]
            for _ in range(int(data.get("repeat", 3))):      # some failures depend on socket timing
                run_scenario(ctx, servers, sc, ops, stream=data.get("stream", "e2e"))
                if ctx.oracle_failures or ctx.known_hit:
                    break
        finally:
            servers.close()
    elif "graph" in case:
        c = case_from_json(case)
        run_mof_cases(ctx, data.get("stream", "mof"), [c])
    elif data.get("disagreements"):
        print("replay: record of a broken obligation / disagreement:", json.dumps(data.get("no_longer_checks", ""))[:1500])
        servers = None
        try:
            for dgr in data["disagreements"]:
                c = dgr["case"]
                if "scenario" in c:
                    if servers is None:
                        servers = Servers()
                        servers.start_capture()
                    run_scenario(ctx, servers, scenario_from_json(c["scenario"]), [op_from_json(o) for o in c["ops"]],
                                 stream="e2e")
                elif "present" in c:
                    run_mof_cases(ctx, "mof", [case_from_json(c)])
        finally:
            if servers is not None:
                servers.close()
        if not ctx.oracle_failures:
            for d in ctx.disagreements:
                print("replay: still disagrees:", d["stream"], str(d["model"])[:120], "vs", str(d["impl"])[:300])
            print("replay: " + ("the disagreement reproduces" if ctx.disagreements else "no disagreement on these cases now"))
            return 1 if ctx.disagreements else 0
    else:
        print("replay: nothing to replay in this file")
        print(json.dumps(data.get("no_longer_checks", ""), indent=1)[:2000])
        return 1 if data.get("kind") == "broken-obligation" else 0
    for f in ctx.oracle_failures:
        print("replay: FAILS:", f["class"], "-", f["what"][:300])
    for k, n in ctx.known_hit.items():
        print(f"replay: KNOWN-FINDING {k} hit {n}x")
    for d in ctx.disagreements:
        print("replay: disagreement:", d["stream"], str(d["model"])[:120], "vs", str(d["impl"])[:200])
    if ctx.oracle_failures:
        print(f"VIOLATION property=C05 replay={data.get('_path', '<replayed>')}")
        return 1
    print("replay: property holds on this case" + (" (known finding reproduced)" if ctx.known_hit else ""))
    return 0
