"""C05 — fetch, clone and push transfer a complete, byte-identical object closure.

Model: lean/DulwichModel/Model/{Graph,Missing,Negotiate}.lean; theorems: Props/C05.lean.
Tie: translate() regenerates Gen/ObjGraph.lean (structure of MissingObjectFinder.__next__,
_collect_filetree_revs, _collect_ancestors, S_IFGITLINK, want validation) from the source;
run() drives
  * mof.*      random abstract object graphs -> Lean model  vs  the real MissingObjectFinder on the same
               graph materialised as real objects (arbitrary pop orders on both sides), plus the
               property's own words evaluated on the real result (sound / complete w.r.t. closures
               computed independently in Python);
  * nego.*     have/ack transcripts -> model walker  vs  the real server graph walkers;
  * e2e.*      real transfers between disk repositories over every transport (in-process local client,
               dulwich TCP server, dulwich WSGI smart HTTP, C git upload-pack/receive-pack subprocess,
               C git client against the dulwich servers) x capability variations; after each transfer
               the receiver is checked for closure + byte identity, the objects that travelled for
               over-sending, and `git fsck --connectivity-only` in the thorough tier.
"""
from __future__ import annotations

import ast
import json
from pathlib import Path

from .. import core, translate as T

MOD = "c05"


# ------------------------------------------------------------------------------------------------
# translator

def _src(node) -> str:
    return ast.unparse(node).replace(" ", "").replace("\n", "")


def _tuples4(func):
    """All 4-tuples (sha, name, type_num, leaf) written in `func`, keyed by the source of the sha."""
    out = {}
    for n in ast.walk(func):
        if isinstance(n, ast.Tuple) and len(n.elts) == 4:
            out[_src(n.elts[0])] = n
    return out


def _enclosing_ifs(func, target):
    """Source of the tests of the `if` statements (positive branch) enclosing `target` in func."""
    tests = []

    def walk(node, stack):
        if node is target:
            tests.extend(stack)
            return True
        for field, value in ast.iter_fields(node):
            items = value if isinstance(value, list) else [value]
            for ch in items:
                if not isinstance(ch, ast.AST):
                    continue
                st = stack
                if isinstance(node, ast.If) and field == "body":
                    st = stack + [_src(node.test)]
                if walk(ch, st):
                    return True
        return False
    walk(func, [])
    return tests


def _leaf_const(node, what):
    if isinstance(node, ast.Constant) and isinstance(node.value, bool):
        return node.value
    raise T.TranslateError(f"{what}: leaf flag is not a boolean literal: {ast.unparse(node)}")


def _b(x: bool) -> str:
    return "true" if x else "false"


def translate(repo: Path) -> dict:
    obj_tree = T.module_ast(repo / "dulwich" / "objects.py")
    gitlink = T.const_value(obj_tree, "S_IFGITLINK")
    isgl = T.find_def(obj_tree, "S_ISGITLINK")
    ret = [n for n in ast.walk(isgl) if isinstance(n, ast.Return)]
    if len(ret) != 1 or _src(ret[0].value) != "stat.S_IFMT(m)==S_IFGITLINK":
        raise T.TranslateError("S_ISGITLINK is no longer `stat.S_IFMT(m) == S_IFGITLINK`")

    os_tree = T.module_ast(repo / "dulwich" / "object_store.py")
    nxt = T.find_def(os_tree, "MissingObjectFinder.__next__")
    tup = _tuples4(nxt)
    for k in ("o.tree", "s", "o.object[1]", "self._tagged[sha]"):
        if k not in tup:
            raise T.TranslateError(f"MissingObjectFinder.__next__: no todo tuple for {k}")
    commit_leaf = _leaf_const(tup["o.tree"].elts[3], "commit->tree")
    tag_leaf = _leaf_const(tup["o.object[1]"].elts[3], "tag->target")
    tagged_leaf = _leaf_const(tup["self._tagged[sha]"].elts[3], "tagged")
    entry_leaf = _src(tup["s"].elts[3])
    if entry_leaf == "notstat.S_ISDIR(m)":
        entry_leaf_notdir = True
    elif entry_leaf == "False":
        entry_leaf_notdir = False
    else:
        raise T.TranslateError(f"tree entry leaf flag is `{entry_leaf}`")
    guards = _enclosing_ifs(nxt, tup["s"])
    tree_skips_gitlinks = "notS_ISGITLINK(m)" in guards
    # the expansion is guarded by `if not leaf:` and by the isinstance dispatch
    if "notleaf" not in _enclosing_ifs(nxt, tup["o.tree"]):
        raise T.TranslateError("__next__: expansion no longer guarded by `if not leaf`")
    for k, cls in (("o.tree", "isinstance(o,Commit)"), ("s", "isinstance(o,Tree)")):
        if cls not in _enclosing_ifs(nxt, tup[k]):
            raise T.TranslateError(f"__next__: todo for {k} not under {cls}")
    # `if sha not in self.sha_done: break` pop loop, `self.sha_done.add(sha)`
    srcn = _src(nxt)
    for frag in ("ifshanotinself.sha_done:", "self.sha_done.add(sha)", "self.objects_to_send.pop()",
                 "ifshainself._tagged:"):
        if frag not in srcn:
            raise T.TranslateError(f"__next__: `{frag}` not found")
    add_todo = _src(T.find_def(os_tree, "MissingObjectFinder.add_todo"))
    if "ife[0]notinself.sha_done" not in add_todo:
        raise T.TranslateError("add_todo no longer filters on sha_done")

    # __init__: queue initialisation tuples and the have/want differences
    init = T.find_def(os_tree, "MissingObjectFinder.__init__")
    isrc = _src(init)
    init_leafs = set()
    for n in ast.walk(init):
        if isinstance(n, ast.Tuple) and len(n.elts) == 4 and _src(n.elts[0]) == "w":
            init_leafs.add(_leaf_const(n.elts[3], "initial queue"))
    if init_leafs != {False}:
        raise T.TranslateError(f"__init__: initial queue leaf flags {init_leafs}")
    for frag in ("want_tags.difference(have_tags)", "want_others.difference(have_others)",
                 "unknown='ignore'", "unknown='error'", "fortinhave_tags:self.remote_has.add(t)",
                 "self.remote_has.add(h)", "reachability.get_tree_objects([cmt.tree])",
                 "self.sha_done=set(self.remote_has)",
                 "reachability.get_reachable_commits(have_commits,exclude=None,shallow=shallow)",
                 "_collect_ancestors(object_store,want_commits,frozenset(all_ancestors),shallow=frozenset(shallow),"
                 "get_parents=self._get_parents)"):
        if frag not in isrc:
            raise T.TranslateError(f"MissingObjectFinder.__init__: `{frag}` not found")

    # _collect_filetree_revs
    cf = T.find_def(os_tree, "_collect_filetree_revs")
    cfs = _src(cf)
    cond = None
    for n in ast.walk(cf):
        if isinstance(n, ast.If) and "kset" in _src(n.test):
            cond = _src(n.test)
            inner = [m for m in ast.walk(n) if isinstance(m, ast.If) and m is not n]
            rec = [_src(m.test) for m in inner]
    if cond is None:
        raise T.TranslateError("_collect_filetree_revs: membership test not found")
    cftr_skips = "notS_ISGITLINK(mode)" in cond
    if "shanotinkset" not in cond:
        raise T.TranslateError(f"_collect_filetree_revs: condition is `{cond}`")
    if rec != ["stat.S_ISDIR(mode)"]:
        raise T.TranslateError(f"_collect_filetree_revs: recursion guard {rec}")
    cftr_root = "kset.add(tree_sha)" in cfs

    # _collect_ancestors: shape of the loop body
    ca = T.find_def(os_tree, "_collect_ancestors")
    cas = _src(ca)
    for frag in ("e=queue.pop(0)", "ifeincommon:bases.add(e)", "elifenotincommits:commits.add(e)",
                 "ifeinshallow:continue", "queue.extend(parents)", "return(commits,bases)"):
        if frag not in cas:
            raise T.TranslateError(f"_collect_ancestors: `{frag}` not found")

    # _split_commits_and_tags: tag recursion on o.object[1]
    sp = _src(T.find_def(os_tree, "_split_commits_and_tags"))
    for frag in ("tags.add(e)", "tagged=o.object[1]", "commits.add(e)", "others.add(e)",
                 "_split_commits_and_tags(obj_store,[tagged],unknown=unknown)"):
        if frag not in sp:
            raise T.TranslateError(f"_split_commits_and_tags: `{frag}` not found")

    # find_common_revisions: a have counts only when the store has it
    fc = _src(T.find_def(os_tree, "BaseObjectStore.find_common_revisions"))
    have_checked = "ifshainself:haves.append(sha)" in fc

    # server: want validation against the advertised values
    sv_tree = T.module_ast(repo / "dulwich" / "server.py")
    dw = _src(T.find_def(sv_tree, "_ProtocolGraphWalker.determine_wants"))
    want_checked = "values=set(heads.values())" in dw and "ifsha_resultnotinvalues:raiseGitProtocolError" in dw

    cl_tree = T.module_ast(repo / "dulwich" / "client.py")
    max_in_vain = T.const_value(cl_tree, "MAX_IN_VAIN")

    src = T.lean_header("dulwich/objects.py: S_IFGITLINK, S_ISGITLINK; dulwich/object_store.py: MissingObjectFinder, "
                        "_collect_filetree_revs, _collect_ancestors, _split_commits_and_tags, find_common_revisions; "
                        "dulwich/server.py: determine_wants; dulwich/client.py: MAX_IN_VAIN") + f"""
namespace Dulwich.Gen
/-- `S_IFGITLINK` -/
def sIfGitlink : Nat := {gitlink}
/-- leaf flag of the `(o.tree, b"", Tree.type_num, <leaf>)` todo of a commit -/
def mofCommitTreeLeaf : Bool := {_b(commit_leaf)}
/-- leaf flag of the `(o.object[1], None, type, <leaf>)` todo of a tag -/
def mofTagTargetLeaf : Bool := {_b(tag_leaf)}
/-- leaf flag of the `(self._tagged[sha], None, None, <leaf>)` todo (auto-followed tag) -/
def mofTaggedLeaf : Bool := {_b(tagged_leaf)}
/-- tree entries are queued with leaf = `not stat.S_ISDIR(m)` (false: always expanded) -/
def mofEntryLeafIsNotDir : Bool := {_b(entry_leaf_notdir)}
/-- tree entries are queued only `if not S_ISGITLINK(m)` -/
def mofTreeSkipsGitlinks : Bool := {_b(tree_skips_gitlinks)}
/-- `_collect_filetree_revs` tests `not S_ISGITLINK(mode) and sha not in kset` -/
def cftrSkipsGitlinks : Bool := {_b(cftr_skips)}
/-- `_collect_filetree_revs` adds the root tree itself to the set -/
def cftrAddsRoot : Bool := {_b(cftr_root)}
/-- `find_common_revisions` keeps a have only `if sha in self` -/
def haveCheckedAgainstStore : Bool := {_b(have_checked)}
/-- `determine_wants` refuses a want that is not a value of an advertised ref -/
def wantCheckedAgainstAdvertised : Bool := {_b(want_checked)}
/-- `MAX_IN_VAIN` (client gives up after this many unacknowledged haves) -/
def maxInVain : Nat := {max_in_vain}
end Dulwich.Gen
"""
    return {"ObjGraph": src}


# ------------------------------------------------------------------------------------------------
# abstract object graphs

M_FILE, M_EXEC, M_LINK, M_DIR, M_GITLINK = 0o100644, 0o100755, 0o120000, 0o040000, 0o160000


class Graph:
    """Abstract history: objs[id] = ("blob",) | ("tree", [(mode, id)]) | ("commit", tree, [parents]) |
    ("tag", target).  Ids are assigned in creation order, every reference (except a gitlink) points to a
    smaller id — exactly the acyclicity content addressing gives real objects.  `absent` ids name objects
    no store holds (gitlink targets in other repositories, haves the sender has never seen)."""

    def __init__(self):
        self.objs: dict[int, tuple] = {}
        self.next_id = 0
        self.absent: set[int] = set()

    def add(self, o) -> int:
        i = self.next_id
        self.next_id += 1
        self.objs[i] = o
        return i

    def new_absent(self) -> int:
        i = self.next_id
        self.next_id += 1
        self.absent.add(i)
        return i

    def ids(self, typ):
        return [i for i, o in self.objs.items() if o[0] == typ]

    def children(self, i, present=None):
        o = self.objs.get(i)
        if o is None or (present is not None and i not in present):
            return []
        if o[0] == "commit":
            return [o[1]] + list(o[2])
        if o[0] == "tree":
            return [c for m, c in o[1] if m != M_GITLINK]
        if o[0] == "tag":
            return [o[1]]
        return []

    def closure(self, roots, present=None, shallow=()):
        """Names reachable from roots (gitlinks not followed; parents of `shallow` commits not followed);
        `present` restricts which objects can be opened.  Independent of the Lean model on purpose."""
        seen, todo = set(), list(roots)
        while todo:
            x = todo.pop()
            if x in seen:
                continue
            seen.add(x)
            o = self.objs.get(x)
            if o is None or (present is not None and x not in present):
                continue
            if o[0] == "commit":
                todo.append(o[1])
                if x not in shallow:
                    todo.extend(o[2])
            else:
                todo.extend(self.children(x))
        return seen

    def peel(self, i):
        while i in self.objs and self.objs[i][0] == "tag":
            i = self.objs[i][1]
        return i

    def tokens(self, present=None):
        out = []
        for i, o in sorted(self.objs.items()):
            if present is not None and i not in present:
                continue
            if o[0] == "blob":
                out.append(f"B{i}")
            elif o[0] == "tree":
                out.append(f"T{i}:" + (",".join(f"{m}.{c}" for m, c in o[1]) or "-"))
            elif o[0] == "commit":
                out.append(f"C{i}:{o[1]}:" + ",".join(str(p) for p in o[2]))
            else:
                out.append(f"G{i}:{o[1]}")
        return out

    def to_json(self):
        return {"objs": {str(i): list(o) for i, o in self.objs.items()}, "absent": sorted(self.absent),
                "next_id": self.next_id}

    @classmethod
    def from_json(cls, d):
        g = cls()
        for k, o in d["objs"].items():
            if o[0] == "tree":
                g.objs[int(k)] = ("tree", [tuple(e) for e in o[1]])
            elif o[0] == "commit":
                g.objs[int(k)] = ("commit", o[1], list(o[2]))
            elif o[0] == "tag":
                g.objs[int(k)] = ("tag", o[1])
            else:
                g.objs[int(k)] = ("blob",)
        g.absent = set(d.get("absent", []))
        g.next_id = d.get("next_id", max(list(g.objs) + list(g.absent) + [-1]) + 1)
        return g


def ids_arg(prefix, ids):
    return prefix + ":" + (",".join(str(i) for i in sorted(ids)) or "-")


def gen_graph(rng, size=None) -> Graph:
    """Random history of 5-60 objects: linear runs, merges (incl. octopus), criss-cross merges, several
    roots, trees sharing subtrees and blobs, commits re-using a parent's root tree, annotated tags of
    commits / trees / blobs / tags, gitlinks to commits inside and outside the graph."""
    g = Graph()
    n = size or rng.choice([5, 8, 12, 20, 30, 45, 60])
    trees_seen = set()

    def new_blob():
        return g.add(("blob",))

    def new_tree(depth_ok=True):
        blobs, trees, commits = g.ids("blob"), g.ids("tree"), g.ids("commit")
        ents = []
        for _ in range(rng.choice([0, 1, 1, 2, 2, 3, 4])):
            k = rng.random()
            if k < 0.5 or not trees:
                if not blobs or rng.random() < 0.3:
                    blobs.append(new_blob())
                ents.append((rng.choice([M_FILE, M_FILE, M_EXEC, M_LINK]), rng.choice(blobs)))
            elif k < 0.85:
                ents.append((M_DIR, rng.choice(trees)))
            else:
                tgt = rng.choice(commits) if commits and rng.random() < 0.6 else g.new_absent()
                ents.append((M_GITLINK, tgt))
        key = tuple(ents)
        if key in trees_seen:
            ents.append((M_FILE, new_blob()))
            key = tuple(ents)
        trees_seen.add(key)
        return g.add(("tree", ents))

    def new_commit():
        commits, trees = g.ids("commit"), g.ids("tree")
        r = rng.random()
        if commits and r < 0.15:
            tree = g.objs[rng.choice(commits)][1]          # same root tree as another commit
        elif trees and r < 0.35:
            tree = rng.choice(trees)
        else:
            tree = new_tree()
        if not commits or rng.random() < 0.12:
            parents = []                                      # (another) root
        else:
            recent = commits[-6:]
            k = rng.choice([1, 1, 1, 1, 2, 2, 3])
            parents = rng.sample(recent, min(k, len(recent)))
        return g.add(("commit", tree, parents))

    def criss_cross():
        commits = g.ids("commit")
        if len(commits) < 2:
            return
        a, b = rng.sample(commits[-5:], 2)
        t1, t2 = new_tree(), new_tree()
        g.add(("commit", t1, [a, b]))
        g.add(("commit", t2, [b, a]))

    def new_tag():
        pool = g.ids("commit") * 3 + g.ids("tag") * 2 + g.ids("tree") + g.ids("blob")
        if pool:
            g.add(("tag", rng.choice(pool)))

    new_commit()
    while len(g.objs) < n:
        r = rng.random()
        if r < 0.45:
            new_commit()
        elif r < 0.52:
            criss_cross()
        elif r < 0.68:
            new_tag()
        elif r < 0.85:
            new_tree()
        else:
            new_blob()
    return g


def materialise(g: Graph):
    """Real dulwich objects for the abstract graph: {id: ShaFile}, {id: hex sha} (absent ids get a sha no
    object has).  Distinct ids give distinct shas (contents are made unique)."""
    import hashlib
    from dulwich.objects import Blob, Commit, Tag, Tree
    objs, sha = {}, {}
    for i in g.absent:
        sha[i] = hashlib.sha1(b"absent %d" % i).hexdigest().encode()
    for i in sorted(g.objs):
        o = g.objs[i]
        if o[0] == "blob":
            x = Blob.from_string(b"blob %d\n" % i)
        elif o[0] == "tree":
            x = Tree()
            for j, (m, c) in enumerate(o[1]):
                if c not in sha:      # gitlink to a later object cannot happen; be defensive
                    sha[c] = hashlib.sha1(b"absent %d" % c).hexdigest().encode()
                x.add(b"e%02d" % j, m, sha[c])
            if not o[1]:
                pass
        elif o[0] == "commit":
            x = Commit()
            x.tree = sha[o[1]]
            x.parents = [sha[p] for p in o[2]]
            x.author = x.committer = b"V <v@example.com>"
            x.author_time = x.commit_time = 1_000_000 + i
            x.author_timezone = x.commit_timezone = 0
            x.message = b"commit %d\n" % i
        else:
            x = Tag()
            x.name = b"tag%d" % i
            t = g.objs.get(o[1])
            cls = {"blob": Blob, "tree": Tree, "commit": Commit, "tag": Tag}[t[0]]
            x.object = (cls, sha[o[1]])
            x.tagger = b"V <v@example.com>"
            x.tag_time = 1_000_000 + i
            x.tag_timezone = 0
            x.message = b"tag %d\n" % i
        objs[i] = x
        sha[i] = x.id
    if len(set(sha.values())) != len(sha):
        raise core.InfraError("materialise: two abstract objects collapsed to one sha")
    return objs, sha


# ------------------------------------------------------------------------------------------------
# stream mof.*: model vs real MissingObjectFinder, plus the property's words on the real result

class _OrderedPopSet(set):
    """A set whose pop() order is chosen by the harness rng: lets the check explore pop orders of
    `objects_to_send` that CPython's hash order would not produce in this process."""

    def __init__(self, it, rng):
        super().__init__(it)
        self._rng = rng

    def pop(self):
        x = self._rng.choice(sorted(self, key=repr))
        self.remove(x)
        return x


def real_mof(store, sha, haves, wants, shallow, tagged, rng=None):
    """Run the real finder; returns ("ok", set of ids, remote_has ids) or ("err", kind)."""
    from dulwich.object_store import MissingObjectFinder
    rev = {v: k for k, v in sha.items()}
    try:
        f = MissingObjectFinder(store, [sha[h] for h in haves], [sha[w] for w in wants],
                                shallow={sha[s] for s in shallow},
                                get_tagged=(lambda: {sha[k]: sha[v] for k, v in tagged.items()}))
        remote_has = {rev[x] for x in f.get_remote_has()}
        if rng is not None:
            f.objects_to_send = _OrderedPopSet(f.objects_to_send, rng)
        out = [s for s, _ in f]
    except KeyError:
        return ("err", "key", None)
    except AssertionError:
        return ("err", "type", None)
    if len(set(out)) != len(out):
        return ("dup", out, None)
    return ("ok", {rev[x] for x in out}, remote_has)


def gen_mof_case(rng):
    g = gen_graph(rng)
    commits, tags, trees, blobs = g.ids("commit"), g.ids("tag"), g.ids("tree"), g.ids("blob")
    present = set(g.objs)
    kind = rng.choice(["plain"] * 6 + ["tagged"] * 3 + ["shallow"] * 2 + ["holes"])
    roots = commits * 3 + tags * 2
    wants = set(rng.sample(roots, min(len(roots), rng.choice([1, 1, 2, 3]))))
    if rng.random() < 0.1 and trees:
        wants.add(rng.choice(trees))
    if rng.random() < 0.05 and blobs:
        wants.add(rng.choice(blobs))
    haves = set()
    nh = rng.choice([0, 1, 1, 2, 3])
    wclos = g.closure(wants)
    for _ in range(nh):
        r = rng.random()
        inside = [c for c in commits if c in wclos]
        if r < 0.5 and inside:
            haves.add(rng.choice(inside))                       # an ancestor (or the want itself)
        elif r < 0.8:
            haves.add(rng.choice(roots))                        # anything: unrelated, ahead, a tag
        elif r < 0.9:
            haves.add(g.new_absent())                           # a have the sender has never seen
        elif trees:
            haves.add(rng.choice(trees + blobs))
    shallow, tagged = set(), {}
    if kind == "shallow" and commits:
        shallow = set(rng.sample(commits, min(len(commits), rng.choice([1, 2, 3]))))
    if kind == "tagged":
        refs = rng.sample(tags, min(len(tags), rng.choice([1, 2, 4]))) if tags else []
        for t in refs:
            tagged[g.peel(t)] = t                                # what UploadPackHandler.get_tagged builds
        if rng.random() < 0.15 and tags:
            tagged[rng.choice(sorted(g.objs))] = rng.choice(tags)  # arbitrary map (API allows it)
    if kind == "holes":
        for x in rng.sample(sorted(present), rng.choice([1, 2])):
            present.discard(x)
    return {"kind": kind, "g": g, "present": present, "haves": haves, "wants": wants, "shallow": shallow,
            "tagged": tagged}


def mof_line(case, order):
    g = case["g"]
    return " ".join(["c05.mof"] + g.tokens(case["present"]) + [
        ids_arg("H", case["haves"]), ids_arg("W", case["wants"]), ids_arg("S", case["shallow"]),
        "X:" + (",".join(f"{k}={v}" for k, v in sorted(case["tagged"].items())) or "-"), f"O:{order}"])


def case_json(case):
    return {"graph": case["g"].to_json(), "present": sorted(case["present"]), "haves": sorted(case["haves"]),
            "wants": sorted(case["wants"]), "shallow": sorted(case["shallow"]),
            "tagged": {str(k): v for k, v in case["tagged"].items()}, "kind": case.get("kind", "?")}


def case_from_json(d):
    g = Graph.from_json(d["graph"])
    return {"g": g, "present": set(d["present"]), "haves": set(d["haves"]), "wants": set(d["wants"]),
            "shallow": set(d["shallow"]), "tagged": {int(k): v for k, v in d["tagged"].items()},
            "kind": d.get("kind", "?")}


def show_ids(ids):
    return ",".join(str(i) for i in sorted(ids)) or "-"


def mof_oracle(ctx, stream, case, sent):
    """The property's own words on a real MissingObjectFinder result (sender store closed for the wants):
    nothing outside the closure of the wants travels except auto-followed tags; together with what the
    receiver holds (the closures of the haves the sender knows) the wants' closure is complete."""
    g, present = case["g"], case["present"]
    wclos = g.closure(case["wants"], shallow=case["shallow"])
    if not wclos <= present | g.absent and not all(x in present for x in wclos if x in g.objs):
        return
    missing_in_sender = [x for x in wclos if x in g.objs and x not in present]
    if missing_in_sender:
        return
    extra = sent - wclos - set(case["tagged"].values())
    if extra:
        ctx.oracle_fail(stream, case_json(case), f"objects outside the closure of the wants were selected: {show_ids(extra)}",
                        "mof-oversend")
    haves_known = {h for h in case["haves"] if h in present}
    hclos = g.closure(haves_known, present=present, shallow=case["shallow"])
    lost = {x for x in wclos if x in g.objs} - sent - hclos
    if lost:
        ctx.oracle_fail(stream, case_json(case),
                        f"objects reachable from the wants are neither selected nor reachable from the haves: {show_ids(lost)}",
                        "mof-incomplete")


def run_mof_cases(ctx, stream, cases, orders=(0, 1, 7)):
    from dulwich.object_store import MemoryObjectStore
    lines = []
    for c in cases:
        for o in orders:
            lines.append(mof_line(c, o))
    outs = ctx.driver.batch(lines)
    k = len(orders)
    for idx, c in enumerate(cases):
        mouts = outs[idx * k:(idx + 1) * k]
        g = c["g"]
        objs, sha = materialise(g)
        store = MemoryObjectStore()
        for i in c["present"]:
            store.add_object(objs[i])
        reals = []
        for r in (None, ctx.rng, ctx.rng):
            res = real_mof(store, sha, c["haves"], c["wants"], c["shallow"], c["tagged"], r)
            reals.append(res)
        canon = []
        for res in reals:
            if res[0] == "ok":
                canon.append("ok " + show_ids(res[1]))
            elif res[0] == "err":
                canon.append("err " + res[1])
            else:
                canon.append("dup")
                ctx.oracle_fail(stream, case_json(c), "MissingObjectFinder yielded an object twice", "mof-dup")
        nontrivial = reals[0][0] == "ok" and len(reals[0][1]) > 0
        ctx.count(stream, (tuple(g.tokens(c["present"])), tuple(sorted(c["haves"])), tuple(sorted(c["wants"])),
                           tuple(sorted(c["shallow"])), tuple(sorted(c["tagged"].items()))), nontrivial,
                  f"{c['kind']}:{canon[0][:3]}:n{len(g.objs) // 10 * 10}")
        if len(set(mouts)) != 1:
            ctx.disagree(stream + ".model-order", case_json(c), mouts, "pop order changes the model's sent set")
        if len(set(canon)) != 1:
            # the real finder's result depends on the pop order: a failure of the property only if some
            # order loses objects — the oracle below decides per order
            ctx.notes.append(f"{stream}: real MissingObjectFinder result depends on pop order: {canon}")
            ctx.disagree(stream + ".impl-order", case_json(c), mouts[0], canon)
        if mouts[0] != canon[0]:
            ctx.disagree(stream, case_json(c), mouts[0], canon[0])
        for res in reals:
            if res[0] == "ok":
                mof_oracle(ctx, stream, c, res[1])
        if idx < 2:
            ctx.sample({"stream": stream, "kind": c["kind"], "objects": len(g.objs), "haves": sorted(c["haves"]),
                        "wants": sorted(c["wants"]), "model": mouts[0][:120], "impl": canon[0][:120]})


def _stream_mof(ctx):
    rng = ctx.rng
    cases = [gen_mof_case(rng) for _ in range(ctx.budget(400, mult=8))]
    run_mof_cases(ctx, "mof", cases)
