"""C15 — Rust extensions and pure-Python fallbacks are observationally equivalent.

Models: lean/DulwichModel/Model/RsPy*.lean (two per function, one per source) + Model/Delta.lean (C03);
theorems: Props/C15.lean.  Tie: translate() regenerates Gen/RsPy.lean (radix, integer widths, S_IF* masks,
terminator/suffix bytes, block size ... read from BOTH sources); run() drives FOUR-WAY streams
(model-Py vs real Python in a child with the extensions masked, model-Rs vs the Rust extension REBUILT from
the working tree in an rlimited child) and the direct oracle, which is the property's own words:
real Rust result == real Python result, or failure in both; a Rust panic (PanicException) or a dead child
is a violation, never a "failure".
"""
from __future__ import annotations

import ast
import itertools
import json
import re
import sys
from pathlib import Path

from .. import core, translate as T
from ..core import hx, unhx
from . import c03

MOD = "c15"
DEPENDS = ["C03"]


# ------------------------------------------------------------------------------------------------
# translator

def _rust_fn(src: str, name: str) -> str:
    m = re.search(r"\nfn " + re.escape(name) + r"\s*\(.*?\n}\n", src, re.S)
    if not m:
        raise T.TranslateError(f"Rust fn {name} not found")
    return m.group(0)


def _rust_const(src: str, name: str) -> int:
    m = re.search(rf"const\s+{re.escape(name)}\s*:\s*\w+\s*=\s*([0-9a-fA-FxXoO_]+)\s*;", src)
    if not m:
        raise T.TranslateError(f"rust const {name} not found")
    return int(m.group(1).replace("_", ""), 0)


def _rust_byte(lit: str) -> int:
    """b'x' / b'\\0' / b'\\n' / plain integer literal → int"""
    lit = lit.strip()
    m = re.fullmatch(r"b'(\\?.)'", lit)
    if m:
        s = m.group(1)
        return {"\\0": 0, "\\n": 10, "\\t": 9, "\\\\": 92}.get(s, ord(s[-1]))
    return int(lit, 0)


def _one(rx: str, src: str, what: str, flags=re.S) -> re.Match:
    ms = list(re.finditer(rx, src, flags))
    if len(ms) != 1:
        raise T.TranslateError(f"{what}: expected exactly one match of /{rx}/, got {len(ms)}")
    return ms[0]


def _bytes_const(node) -> bytes | None:
    return node.value if isinstance(node, ast.Constant) and isinstance(node.value, bytes) else None


def translate(repo: Path) -> dict:
    import stat as pystat
    # ---- Python: objects.py
    otree = T.module_ast(repo / "dulwich" / "objects.py")
    pt = T.find_def(otree, "parse_tree")
    idx_calls, base, lead, mode_re, mode_max = [], None, None, None, None
    for n in sorted((n for n in ast.walk(pt) if isinstance(n, ast.Call)), key=lambda n: (n.lineno, n.col_offset)):
        if isinstance(n.func, ast.Attribute) and n.func.attr == "index" and n.args and _bytes_const(n.args[0]) is not None:
            idx_calls.append(_bytes_const(n.args[0]))
        if isinstance(n.func, ast.Attribute) and n.func.attr == "startswith" and n.args and _bytes_const(n.args[0]) is not None:
            lead = _bytes_const(n.args[0])
        if isinstance(n.func, ast.Name) and n.func.id == "int" and len(n.args) == 2 and isinstance(n.args[1], ast.Constant):
            base = n.args[1].value
        if isinstance(n.func, ast.Attribute) and n.func.attr == "fullmatch" and isinstance(n.func.value, ast.Name):
            mode_re = n.func.value.id
    for n in ast.walk(pt):
        if isinstance(n, ast.Compare) and isinstance(n.left, ast.Name) and n.left.id == "mode" and isinstance(n.ops[0], ast.Gt):
            mode_max = T.eval_literal(n.comparators[0])
    if len(idx_calls) != 2 or any(len(b) != 1 for b in idx_calls) or lead is None or len(lead) != 1 or not isinstance(base, int):
        raise T.TranslateError(f"parse_tree: index calls {idx_calls}, startswith {lead}, int base {base}")
    if not 2 <= base <= 10:
        raise T.TranslateError(f"parse_tree: int base {base} outside what the model of int() covers")
    if any(isinstance(n, ast.Try) for n in ast.walk(pt)):
        raise T.TranslateError("parse_tree: unexpected try block (the model has int() unguarded after the pattern check)")
    if mode_re is None or mode_max is None:
        raise T.TranslateError(f"parse_tree: mode pattern check ({mode_re}) / `mode > N` bound ({mode_max}) not found")
    pat = None
    for st in otree.body:
        if isinstance(st, ast.Assign) and any(isinstance(t, ast.Name) and t.id == mode_re for t in st.targets) \
                and isinstance(st.value, ast.Call) and st.value.args and _bytes_const(st.value.args[0]) is not None:
            pat = _bytes_const(st.value.args[0])
    m = re.fullmatch(rb"\[(.)-(.)\]\+", pat or b"")
    if not m:
        raise T.TranslateError(f"parse_tree: mode pattern {pat!r} is not of the form [a-b]+")
    re_lo, re_hi = m.group(1)[0], m.group(2)[0]
    s2h = T.find_def(otree, "sha_to_hex")
    hexlens = None
    for n in ast.walk(s2h):
        if isinstance(n, ast.Compare) and isinstance(n.ops[0], ast.NotIn):
            hexlens = T.eval_literal(n.comparators[0])
    if not hexlens:
        raise T.TranslateError("sha_to_hex: `len(hexsha) not in (...)` not found")
    ke = T.find_def(otree, "key_entry")
    suffix, isdir = None, False
    for n in ast.walk(ke):
        if isinstance(n, ast.AugAssign) and isinstance(n.op, ast.Add) and _bytes_const(n.value) is not None:
            suffix = _bytes_const(n.value)
        if isinstance(n, ast.Call) and isinstance(n.func, ast.Attribute) and n.func.attr == "S_ISDIR":
            isdir = True
    if suffix is None or len(suffix) != 1 or not isdir:
        raise T.TranslateError("key_entry: `if stat.S_ISDIR(mode): name += b'/'` not found")
    sti = T.find_def(otree, "sorted_tree_items")
    if not any(isinstance(n, ast.Call) and isinstance(n.func, ast.Name) and n.func.id == "sorted" for n in ast.walk(sti)):
        raise T.TranslateError("sorted_tree_items: sorted(...) call not found")
    sort_max = None
    for n in ast.walk(sti):
        if isinstance(n, ast.Compare) and len(n.ops) == 2 and all(isinstance(o, ast.LtE) for o in n.ops) \
                and isinstance(n.comparators[0], ast.Name) and n.comparators[0].id == "mode" and T.eval_literal(n.left) == 0:
            sort_max = T.eval_literal(n.comparators[1])
    if sort_max is None:
        raise T.TranslateError("sorted_tree_items: `0 <= mode <= N` range check not found")
    # CPython's mode_t width behind stat.S_ISDIR
    mode_t_bits = None
    for k in (16, 32, 64):
        try:
            pystat.S_ISDIR(2 ** k)
        except OverflowError:
            mode_t_bits = k
            break
    if mode_t_bits is None:
        raise T.TranslateError("stat.S_ISDIR accepts 2**64: mode_t width unknown")
    # ---- Python: diff_tree.py
    dtree = T.module_ast(repo / "dulwich" / "diff_tree.py")
    block_size = T.const_value(dtree, "_BLOCK_SIZE")
    cb = T.find_def(dtree, "_count_blocks")
    nl = None
    for n in ast.walk(cb):
        if isinstance(n, ast.Compare) and isinstance(n.ops[0], ast.Eq) and _bytes_const(n.comparators[0]) is not None:
            nl = _bytes_const(n.comparators[0])
    if nl is None or len(nl) != 1:
        raise T.TranslateError("_count_blocks: `cb == b'\\n'` not found")
    te = T.find_def(dtree, "_tree_entries")
    if any(isinstance(n, ast.Attribute) and n.attr in ("in_path", "join") for n in ast.walk(te)):
        raise T.TranslateError("_tree_entries uses in_path()/posixpath.join again (the model has plain concatenation)")
    py_sep = None
    for n in ast.walk(te):
        # path + b"/" + entry.path if path else entry.path
        if isinstance(n, ast.IfExp) and isinstance(n.test, ast.Name) and n.test.id == "path" and isinstance(n.body, ast.BinOp) \
                and isinstance(n.body.left, ast.BinOp) and _bytes_const(n.body.left.right) is not None:
            py_sep = _bytes_const(n.body.left.right)
    if py_sep is None or len(py_sep) != 1:
        raise T.TranslateError("_tree_entries: `path + b\"/\" + entry.path if path else entry.path` not found")
    # bisect_find_sha (Python): argument checks
    ptree = T.module_ast(repo / "dulwich" / "pack.py")
    pb = T.find_def(ptree, "bisect_find_sha")
    checks = []
    for n in pb.body:
        if isinstance(n, ast.If) and isinstance(n.test, ast.Compare) and isinstance(n.body[0], ast.Raise):
            exc = n.body[0].exc
            checks.append((ast.unparse(n.test), exc.func.id if isinstance(exc, ast.Call) else ast.unparse(exc)))
    if checks != [("start < 0", "ValueError"), ("start > end", "ValueError"), ("end > sys.maxsize", "OverflowError")]:
        raise T.TranslateError(f"bisect_find_sha: argument checks {checks}")
    if any(isinstance(n, ast.Assert) for n in ast.walk(pb)):
        raise T.TranslateError("bisect_find_sha: assert is back")
    # ---- Rust: objects
    osrc = (repo / "crates" / "objects" / "src" / "lib.rs").read_text()
    rpt = _rust_fn(osrc, "parse_tree")
    terms = re.findall(r"memchr\((b'[^']+'),\s*text\)", rpt)
    radix = _one(r"(u|i)(\d+)::from_str_radix\([^,]+,\s*(\d+)\)", rpt, "Rust parse_tree from_str_radix")
    rlead = _one(r"strict\s*&&\s*text\[0\]\s*==\s*(b'[^']+')", rpt, "Rust parse_tree strict check")
    if len(terms) != 2 or radix.group(1) != "u":
        raise T.TranslateError(f"Rust parse_tree: memchr terminators {terms}, radix type {radix.group(0)}")
    rplus = _one(r"if\s+text\[0\]\s*==\s*(b'[^']+')\s*\{\s*return Err", rpt, "Rust parse_tree leading-sign rejection")
    if rpt.index(rplus.group(0)) > rpt.index("::from_str_radix("):
        raise T.TranslateError("Rust parse_tree: the leading-sign check must precede from_str_radix")
    cws = _rust_fn(osrc, "cmp_with_suffix")
    sfx = _one(r"==\s*S_IFDIR\s*\{\s*b\"([^\"]*)\"\s*\}\s*else\s*\{\s*b\"([^\"]*)\"\s*\}", cws, "Rust cmp_with_suffix suffix closure")
    if len(sfx.group(1)) != 1 or sfx.group(2) != "":
        raise T.TranslateError(f"Rust cmp_with_suffix: suffixes {sfx.groups()}")
    if not re.search(r"a\.1\[len\.\.\]\s*\.iter\(\)\s*\.chain\(suffix\(a\.0\)\)\s*\.cmp\(b\.1\[len\.\.\]\.iter\(\)\.chain\(suffix\(b\.0\)\)\)", cws):
        raise T.TranslateError("Rust cmp_with_suffix: chained comparison of the rests not found")
    # ---- Rust: pack
    psrc = (repo / "crates" / "pack" / "src" / "lib.rs").read_text()
    bis = _rust_fn(psrc, "bisect_find_sha")
    ity = re.findall(r"\b(?:start|end):\s*(i\w+)", bis)
    if ity != ["isize", "isize"]:
        raise T.TranslateError(f"Rust bisect_find_sha: bound types {ity}")
    import struct
    isize_bits = struct.calcsize("P") * 8
    if sys.maxsize != 2 ** (isize_bits - 1) - 1:
        raise T.TranslateError("sys.maxsize is not isize::MAX on this platform")
    rchecks = re.findall(r"if\s+(start\s*[<>]\s*\w+)\s*\{\s*return Err\(Py(\w+)::new_err", bis)
    if [(re.sub(r"\s+", " ", a), b) for a, b in rchecks] != [("start < 0", "ValueError"), ("start > end", "ValueError")]:
        raise T.TranslateError(f"Rust bisect_find_sha: argument checks {rchecks}")
    if not re.search(r"i\.checked_add\(1\)\s*\{\s*Some\(next\)\s*=>\s*start\s*=\s*next,\s*None\s*=>\s*break", bis) \
            or not re.search(r"end\s*=\s*i\s*-\s*1;", bis):
        raise T.TranslateError("Rust bisect_find_sha: bound updates changed")
    shl = _one(r"sha_len\s*!=\s*(\d+)\s*&&\s*sha_len\s*!=\s*(\d+)", bis, "Rust bisect sha length check")
    isl = _one(r"len\s*==\s*(\d+)\s*\|\|\s*len\s*==\s*(\d+)", _rust_fn(psrc, "py_is_sha"), "Rust py_is_sha")
    if not re.search(r"let i = start\s*\+\s*\(end\s*-\s*start\)\s*/\s*2;", bis):
        raise T.TranslateError("Rust bisect_find_sha: midpoint expression changed")
    cdi = _rust_fn(psrc, "create_delta_internal")
    chunk = set(re.findall(r"remaining\.min\((\d+)\)", cdi))
    if len(chunk) != 1:
        raise T.TranslateError(f"Rust create_delta_internal: literal chunk sizes {chunk}")
    # ---- Rust: diff-tree
    dsrc = (repo / "crates" / "diff-tree" / "src" / "lib.rs").read_text()
    rcb = _rust_fn(dsrc, "_count_blocks")
    if not re.search(r'getattr\("_BLOCK_SIZE"\)', rcb):
        raise T.TranslateError("Rust _count_blocks no longer reads dulwich.diff_tree._BLOCK_SIZE")
    rnl = _one(r"\*c\s*==\s*(b'[^']+')\s*\|\|\s*block\.len\(\)\s*==\s*block_size", rcb, "Rust _count_blocks split test")
    rte = _rust_fn(dsrc, "tree_entries")
    rsep = _one(r"new_path\.push\((b'[^']+')\)", rte, "Rust tree_entries separator")
    dbits = _one(r"extract::<\(Vec<u8>,\s*u(\d+),", rte, "Rust tree_entries mode type")
    ibits = _one(r"mode\.extract::<u(\d+)>", _rust_fn(dsrc, "_is_tree"), "Rust _is_tree mode type")
    sbits = _one(r"extract::<\(u(\d+),\s*Vec<u8>\)>", _rust_fn(osrc, "sorted_tree_items"), "Rust sorted_tree_items mode type")

    def b(x: int) -> str:
        return f"({x} : UInt8)"
    src = T.lean_header("dulwich/objects.py: parse_tree, sha_to_hex, key_entry; dulwich/diff_tree.py: _BLOCK_SIZE, _count_blocks; "
                        "crates/objects, crates/pack, crates/diff-tree: src/lib.rs; CPython stat module") + f"""
namespace Dulwich.Gen
/-- Python parse_tree: `text.index(b" ", count)`, `text.index(b"\\0", mode_end)`, `mode_text.startswith(b"0")`, `int(mode_text, 8)` -/
def pyModeTerm : UInt8 := {idx_calls[0][0]}
def pyNameTerm : UInt8 := {idx_calls[1][0]}
def pyStrictLead : UInt8 := {lead[0]}
def pyModeBase : Nat := {base}
/-- `_TREE_MODE_RE = re.compile(rb"[a-b]+")`: a, b; `if mode > N` -/
def pyModeReLo : Nat := {re_lo}
def pyModeReHi : Nat := {re_hi}
def pyModeMax : Int := {mode_max}
/-- `sorted_tree_items`: `if not 0 <= mode <= N: raise TypeError` -/
def pySortModeMax : Int := {sort_max}
/-- `_tree_entries`: `path + b"/" + entry.path if path else entry.path`; `bisect_find_sha`: `sys.maxsize` -/
def pyPathSep : UInt8 := {py_sep[0]}
def pyMaxsize : Int := {sys.maxsize}
/-- `sha_to_hex`: accepted lengths of the hex string -/
def pyHexLens : List Nat := {sorted(hexlens)}
/-- `key_entry`: `name += b"/"` when `stat.S_ISDIR(mode)`; CPython's `S_IFMT`, `S_IFDIR`, width of `mode_t` -/
def pyDirSuffix : UInt8 := {suffix[0]}
def pySIfmt : Nat := {pystat.S_IFMT(0xFFFFFFFF)}
def pySIfdir : Nat := {pystat.S_IFDIR}
def pyModeTBits : Nat := {mode_t_bits}
/-- Rust parse_tree: `memchr(b' ', text)`, `memchr(b'\\0', text)`, `text[0] == b'0'`, `u32::from_str_radix(_, 8)` -/
def rsModeTerm : UInt8 := {_rust_byte(terms[0])}
def rsNameTerm : UInt8 := {_rust_byte(terms[1])}
def rsStrictLead : UInt8 := {_rust_byte(rlead.group(1))}
def rsModeRadix : Nat := {int(radix.group(3))}
def rsModeBits : Nat := {int(radix.group(2))}
/-- Rust parse_tree: `if text[0] == b'+' {{ return Err(..) }}` before the parse -/
def rsRejectLead : UInt8 := {_rust_byte(rplus.group(1))}
/-- crates/objects: `S_IFMT`, `S_IFDIR`, the directory suffix of `cmp_with_suffix` (the other suffix is empty), mode type of `sorted_tree_items` -/
def rsObjSIfmt : Nat := {_rust_const(osrc, "S_IFMT")}
def rsObjSIfdir : Nat := {_rust_const(osrc, "S_IFDIR")}
def rsDirSuffix : UInt8 := {ord(sfx.group(1))}
def rsSortModeBits : Nat := {int(sbits.group(1))}
/-- crates/pack bisect_find_sha: `start: isize`, `end: isize` (width on this platform); accepted probe lengths; `py_is_sha` lengths -/
def rsBisectBits : Nat := {isize_bits}
def rsBisectShaLens : List Nat := {sorted(int(x) for x in shl.groups())}
def rsIsShaLens : List Nat := {sorted(int(x) for x in isl.groups())}
/-- crates/pack create_delta_internal: `remaining.min(N)` literal chunk size -/
def rsMaxInsertLen : Nat := {int(chunk.pop())}
/-- diff_tree: `_BLOCK_SIZE` (read by BOTH implementations at run time), the line terminator of each -/
def blockSize : Nat := {block_size}
def pyBlockNl : UInt8 := {nl[0]}
def rsBlockNl : UInt8 := {_rust_byte(rnl.group(1))}
/-- crates/diff-tree: `S_IFMT`, `S_IFDIR`, separator pushed by `tree_entries`, mode types -/
def rsDiffSIfmt : Nat := {_rust_const(dsrc, "S_IFMT")}
def rsDiffSIfdir : Nat := {_rust_const(dsrc, "S_IFDIR")}
def rsPathSep : UInt8 := {_rust_byte(rsep.group(1))}
def rsMergeModeBits : Nat := {int(dbits.group(1))}
def rsIsTreeModeBits : Nat := {int(ibits.group(1))}
end Dulwich.Gen
"""
    return {"RsPy": src}


# ------------------------------------------------------------------------------------------------
# worker-side implementation adapters (run inside harness/worker.py children)

_H40 = b"a" * 40


def _child_init():
    import os
    os.environ["RUST_BACKTRACE"] = "0"   # panics are expected observations; no symbolised backtraces


def _guard(f):
    """'ok …' or 'err <ClassName>'; BaseExceptions such as pyo3's PanicException are reported, not raised."""
    try:
        return f()
    except MemoryError:
        raise
    except Exception as e:
        return "err " + type(e).__name__
    except BaseException as e:
        if isinstance(e, (KeyboardInterrupt, SystemExit)):
            raise
        return "err " + type(e).__name__


def _many(a, one):
    """Run `one` on every case of a batch.  `a` is {"cases": [...], "log": path|None}: each result is appended to
    the log as soon as it exists, so that after a hang or a dead child the harness knows which case did it."""
    cases, log = (a["cases"], a.get("log")) if isinstance(a, dict) else (a, None)
    out = []
    f = open(log, "w") if log else None
    try:
        for c in cases:
            r = _guard(lambda: one(c))
            out.append(r)
            if f:
                f.write(json.dumps(r) + "\n")
                f.flush()
    finally:
        if f:
            f.close()
    return out


def _ent(name, mode, sha) -> str:
    return f"{hx(bytes(name))}:{int(mode)}:{hx(bytes(sha))}"


def _ents(items) -> str:
    return "".join(" " + _ent(*tuple(e)) for e in items)


def impl_which(a):
    _child_init()
    import dulwich.objects as O, dulwich.pack as P, dulwich.diff_tree as D
    fns = {"parse_tree": O.parse_tree, "sorted_tree_items": O.sorted_tree_items, "apply_delta": P.apply_delta,
           "bisect_find_sha": P.bisect_find_sha, "create_delta": P.create_delta, "_merge_entries": D._merge_entries,
           "_is_tree": D._is_tree, "_count_blocks": D._count_blocks}
    out = {k: (getattr(v, "__module__", None) or "?") for k, v in fns.items()}
    out["file"] = O.__file__
    ext = getattr(__import__("sys").modules.get("dulwich._objects"), "__file__", None)
    out["ext"] = ext
    return out


def _parse_one(O, c):
    sha_len, strict, text = c
    return "ok" + _ents(list(O.parse_tree(unhx(text), sha_len, strict=bool(strict))))


def impl_parse_many(a):
    _child_init()
    import dulwich.objects as O
    return _many(a, lambda c: _parse_one(O, c))


def _sort_one(O, c):
    name_order, ents = c
    d = {}
    for n, m, s in ents:
        d[unhx(n)] = (m, unhx(s))
    return "ok" + _ents(list(O.sorted_tree_items(d, bool(name_order))))


def impl_sort_many(a):
    _child_init()
    import dulwich.objects as O
    return _many(a, lambda c: _sort_one(O, c))


def _unpack_fn(kind, params):
    if kind == "strict":
        table = [unhx(x) for x in params]

        def f(i):
            if 0 <= i < len(table):
                return table[i]
            raise IndexError(i)
        return f
    if kind == "wrap":
        table = [unhx(x) for x in params]
        return lambda i: table[i]
    if kind == "synth":
        off, width = params
        return lambda i: (i + off).to_bytes(width, "big")
    raise ValueError(kind)


def _bisect_one(P, c):
    start, end, sha, kind, params = c
    r = P.bisect_find_sha(start, end, unhx(sha), _unpack_fn(kind, params))
    return "ok none" if r is None else f"ok {int(r)}"


def impl_bisect_many(a):
    _child_init()
    import dulwich.pack as P
    return _many(a, lambda c: _bisect_one(P, c))


def _mk_tree(O, ents):
    if ents is None:
        return None
    t = O.Tree()
    for n, m, s in ents:
        t.add(unhx(n), m, unhx(s))
    return t


def _merge_one(O, D, c):
    path, t1, t2 = c
    res = D._merge_entries(unhx(path), _mk_tree(O, t1), _mk_tree(O, t2))
    out = "ok"
    for e1, e2 in res:
        out += " " + ("N" if e1 is None else _ent(*tuple(e1))) + "~" + ("N" if e2 is None else _ent(*tuple(e2)))
    return out


def impl_merge_many(a):
    _child_init()
    import dulwich.objects as O, dulwich.diff_tree as D
    return _many(a, lambda c: _merge_one(O, D, c))


def _istree_one(O, D, c):
    if c == "N":
        r = D._is_tree(None)
    elif c == "M":
        r = D._is_tree(O.TreeEntry(b"a", None, _H40))
    else:
        r = D._is_tree(O.TreeEntry(b"a", int(c), _H40))
    if r is not True and r is not False:
        return f"ok {r!r}"
    return "ok 1" if r else "ok 0"


def impl_istree_many(a):
    _child_init()
    import dulwich.objects as O, dulwich.diff_tree as D
    return _many(a, lambda c: _istree_one(O, D, c))


def _blocks_one(O, D, chunks):
    b = O.Blob()
    b.chunked = [unhx(x) for x in chunks]
    d = D._count_blocks(b)
    return "ok" + "".join(f" {k}:{v}" for k, v in sorted(dict(d).items()))


def impl_blocks_many(a):
    _child_init()
    import dulwich.objects as O, dulwich.diff_tree as D
    return _many(a, lambda c: _blocks_one(O, D, c))


def impl_hash_many(a):
    """hash() of byte strings in a child (PYTHONHASHSEED=0 in every worker): maps the model's blocks to dict keys."""
    return [hash(unhx(x)) for x in a]


def impl_battery(a):
    """Repository-level battery: build a repository, commit twice (rename + edits), diff with rename detection,
    status, repack, read everything back through the pack, clone locally.  Returns only content-determined
    observations (ids, diff/status output)."""
    _child_init()
    import io
    import os
    from dulwich import porcelain
    from dulwich.repo import Repo
    from dulwich.diff_tree import RenameDetector, tree_changes
    root = a["dir"]
    src = os.path.join(root, "src")
    os.makedirs(src)
    who = b"V Erif <verif@example.com>"
    obs = {}
    porcelain.init(src)

    def put(rel, data):
        p = os.path.join(src, rel)
        os.makedirs(os.path.dirname(p), exist_ok=True)
        with open(p, "wb") as f:
            f.write(data)
    body = b"".join(b"line %d of the shared body, long enough to matter for similarity\n" % i for i in range(60))
    files = {"a.txt": b"dot\n", "a-b": b"dash\n", "a0": b"zero\n", "a/x": b"in dir a\n", "a/y/z": b"deep\n",
             "b/big.txt": body, "b/wide.bin": bytes(range(256)) * 3 + b"x" * 200, "c": b"no trailing newline",
             "d/e/f/g": b"\n\n\n", "Z": b"upper\n"}
    for k, v in files.items():
        put(k, v)
    porcelain.add(src, paths=[os.path.join(src, k) for k in files])
    c1 = porcelain.commit(src, message=b"one", author=who, committer=who, author_timestamp=1700000000, author_timezone=0,
                          commit_timestamp=1700000000, commit_timezone=0)
    # second commit: rename with small edit, modify, delete, add
    os.rename(os.path.join(src, "b/big.txt"), os.path.join(src, "b/renamed.txt"))
    put("b/renamed.txt", body.replace(b"line 7 ", b"LINE 7 "))
    put("a/x", b"in dir a, changed\n")
    os.remove(os.path.join(src, "a0"))
    put("a/w", b"new\n")
    porcelain.add(src, paths=[os.path.join(src, p) for p in ("b/renamed.txt", "a/x", "a/w")])
    porcelain.remove(src, paths=[os.path.join(src, "b/big.txt"), os.path.join(src, "a0")])
    c2 = porcelain.commit(src, message=b"two", author=who, committer=who, author_timestamp=1700000100, author_timezone=3600,
                          commit_timestamp=1700000100, commit_timezone=3600)
    obs["commits"] = [c1.decode(), c2.decode()]
    with Repo(src) as r:
        t1, t2 = r[c1].tree, r[c2].tree
        obs["trees"] = [t1.decode(), t2.decode()]
        obs["tree2_items"] = [[e.path.decode(), e.mode, e.sha.decode()] for e in r[t2].items()]
        ch = []
        for c in tree_changes(r.object_store, t1, t2, rename_detector=RenameDetector(r.object_store)):
            ch.append([c.type, None if c.old is None else list(map(_js, c.old)), None if c.new is None else list(map(_js, c.new))])
        obs["changes_rename"] = ch
        obs["changes_plain"] = [[c.type, None if c.old is None else list(map(_js, c.old)), None if c.new is None else list(map(_js, c.new))]
                                for c in tree_changes(r.object_store, t1, t2, include_trees=True)]
    out = io.BytesIO()
    porcelain.diff_tree(src, t1, t2, outstream=out)
    obs["diff_tree"] = out.getvalue().decode("latin-1")
    # working-tree status after an unstaged edit, a staged add and an untracked file
    put("c", b"no trailing newline, edited")
    put("staged.txt", b"s\n")
    porcelain.add(src, paths=[os.path.join(src, "staged.txt")])
    put("untracked.txt", b"u\n")
    st = porcelain.status(src)
    obs["status"] = {"staged": {k: sorted(_js(x) for x in v) for k, v in st.staged.items()},
                     "unstaged": sorted(_js(x) for x in st.unstaged), "untracked": sorted(_js(x) for x in st.untracked)}
    # repack and read everything back through the pack (index bisection, delta application)
    with Repo(src) as r:
        before = sorted(x.decode() for x in r.object_store)
    porcelain.repack(src)
    with Repo(src) as r:
        after = sorted(x.decode() for x in r.object_store)
        packs = r.object_store.packs
        obs["n_packs"] = len(packs)
        import hashlib
        h = hashlib.sha1()
        for oid in after:
            o = r.object_store[oid.encode()]
            h.update(oid.encode() + o.type_name + o.as_raw_string())
        obs["content_digest"] = h.hexdigest()
        obs["pack_names"] = sorted(os.path.basename(p._basename) for p in packs)
        missing = []
        for p in packs:
            idx = p.index
            for oid in after:
                try:
                    idx.object_offset(oid.encode())
                except KeyError:
                    missing.append(oid)
        obs["pack_lookup_missing"] = sorted(set(missing))
        absent = [("%040x" % (int(oid, 16) ^ 1)) for oid in after[:20]]
        obs["absent_found"] = [x for x in absent if x not in after and any(_has(p.index, x) for p in packs)]
    obs["objects_before"] = before
    obs["objects_after"] = after
    # a deltified pack written and re-read in this configuration
    from dulwich.pack import write_pack_objects, Pack
    from dulwich.object_format import DEFAULT_OBJECT_FORMAT
    with Repo(src) as r:
        objs = [(r.object_store[o.encode()], None) for o in after]
        pdir = os.path.join(root, "deltapack")
        os.makedirs(pdir)
        with open(os.path.join(pdir, "p.pack"), "wb") as f:
            entries, data_sum = write_pack_objects(f.write, objs, deltify=True, delta_window_size=10,
                                                   object_format=DEFAULT_OBJECT_FORMAT)
        from dulwich.pack import write_pack_index
        ents = sorted((k, v[0], v[1]) for k, v in entries.items())
        with open(os.path.join(pdir, "p.idx"), "wb") as f:
            write_pack_index(f, ents, data_sum)
        p = Pack(os.path.join(pdir, "p"), object_format=DEFAULT_OBJECT_FORMAT)
        h = hashlib.sha1()
        n = 0
        for oid in after:
            o = p[oid.encode()]
            h.update(oid.encode() + o.as_raw_string())
            n += 1
        obs["deltapack_digest"] = h.hexdigest()
        obs["deltapack_n"] = n
        p.close()
    dst = os.path.join(root, "dst")
    porcelain.clone(src, dst, errstream=io.BytesIO(), checkout=True).close()
    with Repo(dst) as r:
        obs["clone_head"] = r.head().decode()
        obs["clone_objects"] = sorted(x.decode() for x in r.object_store)
        st = porcelain.status(dst)
        obs["clone_status"] = [sorted(_js(x) for v in st.staged.values() for x in v), sorted(_js(x) for x in st.unstaged)]
        obs["clone_files"] = sorted(os.path.relpath(os.path.join(dp, f), dst) for dp, dn, fs in os.walk(dst) if ".git" not in dp.split(os.sep)
                                    for f in fs)
    return obs


def impl_hostile_trees(a):
    """Repository level, hostile input: tree objects with the given payloads are stored as loose objects, the
    repository is reopened and each tree is listed.  Returns 'ok <entries>' / 'err Class' per payload."""
    _child_init()
    import os
    from dulwich.repo import Repo
    from dulwich.objects import ShaFile, Tree
    root = a["dir"]
    os.makedirs(root, exist_ok=True)
    import hashlib
    import zlib
    r = Repo.init_bare(root)
    r.close()
    ids = []
    for p in a["payloads"]:
        raw = b"tree %d\0" % len(unhx(p)) + unhx(p)
        oid = hashlib.sha1(raw).hexdigest()
        os.makedirs(os.path.join(root, "objects", oid[:2]), exist_ok=True)
        with open(os.path.join(root, "objects", oid[:2], oid[2:]), "wb") as f:
            f.write(zlib.compress(raw))
        ids.append(oid.encode())
    out = []
    with Repo(root) as r:
        for oid in ids:
            out.append(_guard(lambda: "ok" + _ents([(e.path, e.mode, e.sha) for e in r[oid].iteritems(name_order=True)])))
    return out


def _has(idx, hexoid):
    try:
        idx.object_offset(hexoid.encode())
        return True
    except KeyError:
        return False


def _js(x):
    if isinstance(x, bytes):
        return x.decode("latin-1")
    return x


# ------------------------------------------------------------------------------------------------
# harness side: wire format -> driver line, batched four-way comparison, oracle

OPS = ("parse", "sort", "bisect", "merge", "istree", "blocks")
U32 = 2 ** 32


def _tok_ent(e) -> str:
    n, m, s = e
    return f"{n}:{m}:{s}"


def _tok_tree(t) -> str:
    if t is None:
        return "N"
    return "T" + "".join(";" + _tok_ent(e) for e in t)


def driver_line(op: str, a, v: str) -> str:
    """The driver request for wire-format case `a` of `op`, model variant v in {'py','rs'}."""
    if op == "parse":
        n, strict, text = a
        return f"c15.parse{v} {'N' if n is None else n} {1 if strict else 0} {text}"
    if op == "sort":
        no, ents = a
        return f"c15.sort{v} {1 if no else 0}" + "".join(" " + _tok_ent(e) for e in ents)
    if op == "bisect":
        s, e, sha, kind, params = a
        return f"c15.bisect{v} {s} {e} {sha} {kind}" + "".join(f" {p}" for p in params)
    if op == "merge":
        p, t1, t2 = a
        return f"c15.merge{v} {p} {_tok_tree(t1)} {_tok_tree(t2)}"
    if op == "istree":
        return f"c15.istree{v} {a}"
    if op == "blocks":
        return f"c15.blocks{v}" + "".join(" " + c for c in a)
    raise ValueError(op)


MAX_ISOLATED_CRASHES = 3
_LOGDIR = [None]


def _ask_many(wk, op: str, cases: list, chunk=400, timeout=30) -> list:
    """Results ('ok …' | 'err Class' | 'crash …' | None = skipped) for each case.  The child logs every result as it
    goes; when a batch hangs or kills the child, the log says which case did it ('crash …'), and the batch resumes
    after that case.  After MAX_ISOLATED_CRASHES crashes in one call the remaining cases are skipped (None)."""
    out, crashes = [], 0
    log = str(Path(_LOGDIR[0]) / f"progress-{wk.variant}.jsonl") if _LOGDIR[0] else None
    for s in range(0, len(cases), chunk):
        part = cases[s:s + chunk]
        while part:
            if crashes >= MAX_ISOLATED_CRASHES:
                out += [None] * len(part)
                break
            if log and Path(log).exists():
                Path(log).unlink()
            rep = wk.ask({"mod": MOD, "op": op + "_many", "args": {"cases": part, "log": log}}, timeout=timeout)
            if "r" in rep and len(rep["r"]) == len(part):
                out += rep["r"]
                break
            done = []
            if log and Path(log).exists():
                for line in Path(log).read_text().splitlines():
                    try:
                        done.append(json.loads(line))
                    except ValueError:
                        break
            done = done[:len(part) - 1] if len(done) >= len(part) else done
            out += done
            crashes += 1
            out.append(f"crash {rep.get('crash', rep.get('exc'))}")
            part = part[len(done) + 1:]
    return out


def _obs(r: str) -> str:
    return r if r.startswith("ok") else "fails"


def oracle(op: str, a, rpy: str, rrs: str):
    """The property's words on one input.  Returns None when it holds, else (what, cls)."""
    for v, r in (("Rust", rrs), ("Python", rpy)):
        if r.startswith("crash"):
            return f"{v} implementation killed the process / timed out: {r}", classify(op, a, rpy, rrs)
        if r == "err PanicException":
            return f"{v} implementation panicked (PanicException is a BaseException, not a failure mode)", classify(op, a, rpy, rrs)
    if _obs(rpy) != _obs(rrs):
        return f"results differ: python {rpy[:160]!r} vs rust {rrs[:160]!r}", classify(op, a, rpy, rrs)
    return None


# --- failing-input classes (narrow; matched against findings/C15.jsonl) ---------------------------------------
# All nine classes below were genuine divergences of the code before the C15 repair series and are listed as `fixed`
# in findings/C15.jsonl: fixed entries suppress nothing, so a divergence that falls in one of them again is a VIOLATION
# (the class string in the replay file then says which old defect came back).

_CPY_INT8 = re.compile(rb"^[ \t\n\x0b\x0c\r]*[+-]?(0[oO]_?)?[0-7](_?[0-7])*[ \t\n\x0b\x0c\r]*\Z")
_CANON = re.compile(rb"^\+?[0-7]+\Z")


def tok_canonical(tok: bytes) -> bool:
    return bool(_CANON.match(tok)) and int(tok, 8) < U32


def mode_tokens(text: bytes, sha_len: int):
    """The mode tokens a parser meets walking `text` entry by entry (stops where the framing breaks)."""
    toks, pos = [], 0
    while pos < len(text):
        sp = text.find(b" ", pos)
        if sp < 0:
            break
        toks.append(text[pos:sp])
        nul = text.find(b"\0", sp)
        if nul < 0:
            break
        pos = nul + 1 + sha_len
    return toks


def classify(op: str, a, rpy: str, rrs: str):
    ok_py, ok_rs = rpy.startswith("ok"), rrs.startswith("ok")
    if op == "parse":
        n, strict, text = a
        if n not in (20, 32):
            return None
        bad = [t for t in mode_tokens(unhx(text), n) if not tok_canonical(t)]
        # python accepts a token of CPython's int() grammar that is not plain octal < 2^32; rust rejects it
        if ok_py and not ok_rs and bad and all(_CPY_INT8.match(t) for t in bad):
            return "parse-tree-mode-token-python-int-leniency"
        return None
    if op == "sort":
        no, ents = a
        names = [unhx(e[0]) for e in ents]
        modes = [e[1] for e in ents]
        if any(not 0 <= m < U32 for m in modes):
            if no and ok_py and rrs == "err TypeError":
                return "sorted-tree-items-mode-outside-u32"
            return None
        if not no and ok_py and ok_rs and sorted(rpy.split()) == sorted(rrs.split()):
            if any(b"\0" in x for x in names):
                return "sorted-tree-items-name-with-nul"
            if any(b"/" in x for x in names):
                return "sorted-tree-items-name-with-slash"
        return None
    if op == "bisect":
        s, e, sha, kind, params = a
        if len(unhx(sha)) not in (20, 32):
            return None
        if (e >= 2 ** 30 or s < -2 ** 30) and rrs in ("err PanicException", "err OverflowError") and s <= e:
            return "bisect-bounds-outside-i32"
        if s < 0 and s <= e and -2 ** 30 <= s and e < 2 ** 30 and rrs != "err PanicException":
            return "bisect-negative-bound"
        return None
    if op == "merge":
        p, t1, t2 = a
        path = unhx(p)
        ents = (t1 or []) + (t2 or [])
        if any(not 0 <= x[1] < U32 for x in ents):
            return "merge-entries-mode-outside-u32" if ok_py and rrs == "err TypeError" else None
        if ok_py and ok_rs:
            if path.endswith(b"/"):
                return "merge-entries-path-trailing-slash"
            if path and any(unhx(x[0]).startswith(b"/") for x in ents):
                return "merge-entries-name-leading-slash"
        return None
    return None


def four_way(ctx, workers, stream: str, op: str, cases: list, tags=None, post=None, in_quantifier=None):
    """model-Py vs real Python, model-Rs vs real Rust (each implementation against ITS OWN model), then the oracle
    real Python vs real Rust.  `post(case, driver_out, v)` maps a driver answer to the comparable string;
    `in_quantifier(case)` = False excludes a case from the oracle (correspondence only)."""
    if not cases:
        return
    n = len(cases)
    outs = ctx.driver.batch([driver_line(op, c, "py") for c in cases] + [driver_line(op, c, "rs") for c in cases])
    model = {"py": outs[:n], "rs": outs[n:]}
    if post is not None:
        model = {v: [post(c, o, v) for c, o in zip(cases, model[v])] for v in model}
    real = {v: _ask_many(wk, op, cases) for v, wk in workers.items()}
    for i, c in enumerate(cases):
        key = json.dumps(c, sort_keys=True)
        tag = tags[i] if tags else None
        if any(rs_[i] is None for rs_ in real.values()):
            ctx.extra_cov["cases_skipped_after_crashes"] = ctx.extra_cov.get("cases_skipped_after_crashes", 0) + 1
            continue
        for v, rs_ in real.items():
            r = rs_[i]
            ctx.count(stream, (v, key), True, (tag + ":" if tag else "") + v + ":" + (r[:2] if r.startswith("ok") else r[:24]))
            if r != model[v][i]:
                ctx.disagree(stream, {"op": op, "args": c}, model[v][i][:300], r[:300], v)
        if "py" in real and "rs" in real and (in_quantifier is None or in_quantifier(c)):
            bad = oracle(op, c, real["py"][i], real["rs"][i])
            if bad:
                what, cls = bad
                ctx.oracle_fail(stream, {"op": op, "args": c, "py": real["py"][i][:400], "rs": real["rs"][i][:400]},
                                f"{op}: {what}", cls)
    if len(ctx.samples) < 6:
        ctx.sample({"stream": stream, "op": op, "args": cases[0] if len(json.dumps(cases[0])) < 400 else "…",
                    "model_py": model["py"][0][:120], "model_rs": model["rs"][0][:120],
                    **{"real_" + v: str(real[v][0])[:120] for v in real}})


# ------------------------------------------------------------------------------------------------
# generators

MODE_ALPHABET = b"014678+-_ o\t"
FILE, EXE, DIR, LINK, GITLINK = 0o100644, 0o100755, 0o40000, 0o120000, 0o160000
NAME_POOL = [b"a", b"a.", b"a/", b"a-", b"a0", b"a\x00", b"a/b", b"a//", b"ab", b"a b", b"", b"b", b"A", b"a\xff", b"\xff", b"a.b",
             b"a-b", b"/", b"/a", b"a\x00b", b"a\x01", b"a/\x00", b"\x00", b"a.\x00", b"aa"]
CLEAN_POOL = [n for n in NAME_POOL if b"\0" not in n and b"/" not in n]
MODES = [FILE, EXE, DIR, LINK, GITLINK, 0, 0o40755, 0o170000, U32 - 1, 0o140000, 0o040000 | 0o100000, 1]
BAD_MODES = [U32, -1, U32 + DIR, 2 ** 64, -DIR]


def _sha(rng, n=20) -> bytes:
    return rng.randbytes(n)


def ser_entry(tok: bytes, name: bytes, sha: bytes) -> bytes:
    return tok + b" " + name + b"\0" + sha


def gen_valid_tree(rng, sha_len, lead_zero=False):
    ents = []
    for _ in range(rng.randint(0, 5)):
        name = rng.choice([b"a", b"file.txt", b"dir", b"x y", b"\xc3\xa9", b"a\tb", b"lib", b" lead", b"", b"a/b"]) + \
            rng.choice([b"", b"1", b"2"])
        mode = rng.choice(MODES + [rng.getrandbits(rng.choice([1, 9, 16, 31, 32]))])
        tok = (b"%06o" if lead_zero or rng.random() < 0.15 else b"%o") % mode
        ents.append(ser_entry(tok, name, _sha(rng, sha_len)))
    return b"".join(ents)


ODD_TOKENS = [b"644", b"-644", b"\t644", b" 644", b"0o644", b"0O644", b"6_44", b"0o_644", b"0o__644", b"_644", b"644_", b"6__44",
              b"777777777777", b"000000000644", b"37777777777", b"40000000000", b"+37777777777", b"+40000000000", b"0" * 30 + b"7",
              b"7" * 40, b"\t644\n", b"\x0b644", b"644\x0c", b"644\r", b"\n644", b"+0", b"-0", b"00", b"0", b"", b"+", b"-", b"+-1", b"++1",
              b"\xff644", b"\xef\xbc\x96\xef\xbc\x94\xef\xbc\x94", b"6\x0044", b"644\x00", b"\x00644", b"648", b"649", b"64a", b"0x1f",
              b"0b11", b"1e3", b"6.4", b"+ 644", b"- 644", b"+_644", b"0o", b"0o8", b"0_7", b"0o-7", b"-0o7", b"+0o7", b"\t+0o_7\t",
              b"100644", b"40000", b"0100644", b"040000", b"+100644", b"\xc2\xa0644", b"644\xc2\xa0", b"\x1c644", b"\x85644",
              b"17777777777", b"20000000000", b"-20000000000", b"-1"]


def gen_parse_cases(ctx):
    """(cases, tags, in_quantifier flags) for the parse_tree stream."""
    rng = ctx.rng
    cases, tags = [], []

    def add(n, strict, text, tag):
        cases.append([n, bool(strict), hx(text)])
        tags.append(tag)
    # 1. exhaustive mode tokens over the 12-symbol alphabet, in an otherwise valid entry
    L = 5 if ctx.thorough else 4
    sha20 = bytes(range(1, 21))
    for ln in range(0, L + 1):
        for tup in itertools.product(MODE_ALPHABET, repeat=ln):
            tok = bytes(tup)
            for strict in (False, True):
                add(20, strict, ser_entry(tok, b"n", sha20), f"exh{ln}")
    ctx.extra_cov["exhaustive_mode_token_len"] = L
    # 2. the named odd tokens, first / second entry, both id lengths, strict on/off
    for tok in ODD_TOKENS:
        for n in (20, 32):
            for strict in (False, True):
                add(n, strict, ser_entry(tok, b"name", _sha(rng, n)), "odd")
            add(n, False, ser_entry(b"100644", b"first", _sha(rng, n)) + ser_entry(tok, b"second", _sha(rng, n)), "odd2")
    # 3. valid trees, and every truncation of small ones (missing terminators, truncated ids)
    for _ in range(ctx.budget(800)):
        n = rng.choice([20, 32])
        add(n, rng.random() < 0.5, gen_valid_tree(rng, n), "valid")
    for _ in range(ctx.budget(20, mult=4)):
        n = rng.choice([20, 32])
        t = b""
        while len(t) < 30:
            t = gen_valid_tree(rng, n)
        for cut in range(len(t) + 1):
            add(n, False, t[:cut], "trunc")
        add(32 if n == 20 else 20, False, t, "other-idlen")
    # 4. byte-level mutations of valid trees
    for _ in range(ctx.budget(2000)):
        n = rng.choice([20, 32])
        t = bytearray(gen_valid_tree(rng, n) or ser_entry(b"100644", b"a", _sha(rng, n)))
        for _ in range(rng.randint(1, 3)):
            p = rng.randrange(len(t) + 1)
            k = rng.choice(["ins", "del", "rep"])
            b = bytes([rng.choice(list(MODE_ALPHABET) + [0, 0x20, 0x30, 0xff, rng.randrange(256)])])
            if k == "ins":
                t[p:p] = b
            elif k == "del":
                del t[p:p + rng.randint(1, 3)]
            elif p < len(t):
                t[p:p + 1] = b
        add(n, rng.random() < 0.5, bytes(t), "mutated")
    # 5. outside the quantifier (correspondence only): sha_len None / not an id length
    for n in (None, 0, 1, 19, 21, 33):
        for text in (b"", ser_entry(b"644", b"a", bytes(40))[: 6 + (n or 0)], ser_entry(b"644", b"a", bytes(40))):
            add(n, False, text, "idlen-outside")
    return cases, tags


def _ents_wire(ents):
    return [[hx(n), m, hx(s)] for n, m, s in ents]


def gen_sort_cases(ctx):
    rng = ctx.rng
    cases, tags = [], []
    H = b"0123456789abcdef0123456789abcdef01234567"
    # 1. every ordered pair of distinct pool names x {file, dir}^2, tree order
    for n1, n2 in itertools.permutations(NAME_POOL, 2):
        for m1, m2 in itertools.product((FILE, DIR), repeat=2):
            cases.append([False, _ents_wire([(n1, m1, H), (n2, m2, H)])])
            tags.append("pair-clean" if n1 in CLEAN_POOL and n2 in CLEAN_POOL else "pair-odd")
    # 2. random dictionaries from the pool (prefix families, dir/file twins), <= 20 entries
    for _ in range(ctx.budget(2000)):
        pool = rng.choice([NAME_POOL, CLEAN_POOL, CLEAN_POOL])
        names = rng.sample(pool, rng.randint(0, min(len(pool), 9)))
        modes = [rng.choice(MODES) if rng.random() < 0.97 else rng.choice(BAD_MODES) for _ in names]
        cases.append([rng.random() < 0.35, _ents_wire([(n, m, rng.choice([H, b"", b"x"])) for n, m in zip(names, modes)])])
        tags.append("dict-clean" if pool is CLEAN_POOL else "dict-odd")
    # 3. all names of length <= 2 over a small alphabet as a family, random insertion order (clean: no NUL, no '/')
    fam = [bytes(t) for k in range(0, 3) for t in itertools.product(b"-.0a\xff", repeat=k)]
    for _ in range(ctx.budget(150)):
        names = rng.sample(fam, rng.randint(21, len(fam)))      # > 20: Rust's merge path, Python's run merging
        cases.append([rng.random() < 0.3, _ents_wire([(n, rng.choice([FILE, DIR, DIR, LINK]), H) for n in names])])
        tags.append("family>20")
    # 4. short names over an alphabet with NUL and '/', small dictionaries
    for _ in range(ctx.budget(2000)):
        names = list({bytes(rng.choice(b"-./0a\x00\xff") for _ in range(rng.randint(0, 3))) for _ in range(rng.randint(1, 6))})
        rng.shuffle(names)
        cases.append([False, _ents_wire([(n, rng.choice([FILE, DIR]), H) for n in names])])
        tags.append("alpha-odd" if any(b"\0" in n or b"/" in n for n in names) else "alpha-clean")
    # 5. modes outside u32, both orders
    for m in BAD_MODES:
        for no in (False, True):
            cases.append([no, _ents_wire([(b"a", m, H), (b"b", FILE, H)])])
            tags.append("bad-mode")
    return cases, tags


def gen_bisect_cases(ctx):
    rng = ctx.rng
    cases, tags = [], []

    def table(n, w):
        return sorted({rng.randbytes(1) * 2 + rng.randbytes(w - 2) for _ in range(n)})
    for _ in range(ctx.budget(400)):
        w = rng.choice([20, 20, 32])
        t = table(rng.choice([0, 1, 2, 3, 5, 8, 16, 33]), w)
        n = len(t)
        wire_t = [hx(x) for x in t]
        probes = list(t[:3]) + t[-2:] + [rng.randbytes(w), b"\x00" * w, b"\xff" * w]
        if t:
            x = bytearray(rng.choice(t))
            x[-1] ^= 1
            probes.append(bytes(x))
        for sha in probes:
            for (s, e, tag) in [(0, n - 1, "exact"), (0, n, "end+1"), (rng.randint(0, n), rng.randint(0, n), "sub"),
                                (rng.randint(0, n), rng.randint(-1, n), "sub"), (n, 0, "start>end")]:
                cases.append([s, e, hx(sha), "strict", wire_t])
                tags.append(tag if s <= e or tag == "start>end" else "start>end")
        # negative bounds: strict callback (IndexError below 0) and python list indexing (wraps)
        for kind in ("strict", "wrap"):
            for (s, e) in [(-1, 0), (-1, n - 1), (-n, -1), (-2, -1), (-n, n - 1), (-3, 2), (-1, -1), (-n - 1, 0), (-5, -7)]:
                sha = rng.choice(probes)
                cases.append([s, e, hx(sha), kind, wire_t])
                tags.append("negative")
    # bounds near 2^30 / 2^31 on a synthetic table defined on every index: id(i) = (i + 2^40) as 20 big-endian bytes
    OFF = 2 ** 40

    def sid(i, w=20):
        return (max(i + OFF, 0)).to_bytes(w, "big")
    edges = [2 ** 30 - 2, 2 ** 30 - 1, 2 ** 30, 2 ** 30 + 1, 2 ** 31 - 2, 2 ** 31 - 1, 2 ** 31, 2 ** 31 + 1, 2 ** 32, 2 ** 33,
             2 ** 62, 2 ** 63 - 2, 2 ** 63 - 1, 2 ** 63, 2 ** 63 + 1, 2 ** 64 - 1, 2 ** 64, 2 ** 64 + 1, 2 ** 100]
    for hi in edges:
        for lo in (0, 1, hi - 1, hi, hi // 2, 2 ** 30 - 1):
            if lo < 0:
                continue
            for target in (lo, hi, (lo + hi) // 2, hi - 1, hi + 1, 5):
                cases.append([lo, hi, hx(sid(target)), "synth", [OFF, 20]])
                tags.append("near-2^%d" % (hi.bit_length() - 1 if hi & (hi - 1) == 0 else hi.bit_length()))
    for lo in (-2 ** 31 - 1, -2 ** 31, -2 ** 31 + 1, -2 ** 30 - 1, -2 ** 30, -2 ** 30 + 1, -2 ** 63 - 1, -2 ** 63, -2 ** 63 + 1, -2 ** 64):
        for hi in (lo, lo + 1, 0, 7, -1):
            if lo <= hi:
                cases.append([lo, hi, hx(sid(rng.choice([lo, hi, (lo + hi) // 2]))), "synth", [OFF, 20]])
                tags.append("near--2^31")
    for _ in range(ctx.budget(500)):
        lo = rng.randint(0, 2 ** 30 - 1)
        hi = rng.randint(lo, 2 ** 30 - 1)
        cases.append([lo, hi, hx(sid(rng.choice([lo, hi, rng.randint(lo, hi), hi + 1, lo - 1]), 32)), "synth", [OFF, 32]])
        tags.append("synth<2^30")
    return cases, tags


def gen_merge_cases(ctx):
    rng = ctx.rng
    cases, tags = [], []
    H = b"0123456789abcdef0123456789abcdef01234567"
    H2 = b"f" * 40
    paths = [b"", b"p", b"p/", b"/", b"a/b", b"//", b"p\x00", b"\xff", b"a//", b"dir"]

    def tree(pool):
        r = rng.random()
        if r < 0.08:
            return None
        if r < 0.14:
            return []
        names = rng.sample(pool, rng.randint(1, min(7, len(pool))))
        return _ents_wire([(n, rng.choice(MODES) if rng.random() < 0.98 else rng.choice(BAD_MODES), rng.choice([H, H2])) for n in names])
    for _ in range(ctx.budget(3000)):
        pool = rng.choice([NAME_POOL, CLEAN_POOL])
        p = rng.choice(paths)
        cases.append([hx(p), tree(pool), tree(pool)])
        tags.append(("clean" if pool is CLEAN_POOL else "odd") + (":path-slash" if p.endswith(b"/") else ":path-empty" if not p else ":path"))
    for p in paths:
        for t1, t2 in [(None, None), ([], None), (None, []), (_ents_wire([(b"/a", FILE, H)]), _ents_wire([(b"b", FILE, H)])),
                       (_ents_wire([(b"a", FILE, H), (b"b", DIR, H)]), _ents_wire([(b"a", FILE, H2), (b"c", FILE, H)]))]:
            cases.append([hx(p), t1, t2])
            tags.append("fixed")
    return cases, tags


def gen_istree_cases(ctx):
    rng = ctx.rng
    cases = ["N", "M"] + MODES + BAD_MODES + [2 ** 31, 2 ** 31 - 1, U32 - 1, U32, 2 ** 63, 2 ** 64 - 1, -2 ** 31, -2 ** 63 - 1, True]
    cases = [c if isinstance(c, str) else int(c) for c in cases]
    for _ in range(ctx.budget(1000)):
        b = rng.getrandbits(rng.choice([4, 12, 15, 16, 17, 31, 32, 33, 64]))
        cases.append(rng.choice([b, b | DIR, (b & ~0o170000) | DIR, -b]))
    return cases, ["fixed" if i < 32 else "random" for i in range(len(cases))]


def gen_blocks_cases(ctx):
    rng = ctx.rng
    datas = [b"", b"a", b"\n", b"a\n", b"a\nb", b"\n\n\n", b"a\nb\na\n", b"x" * 63, b"x" * 64, b"x" * 65, b"x" * 63 + b"\n", b"x" * 64 + b"\n",
             b"x" * 128, b"x" * 129, b"x" * 127 + b"\n", b"\r\n" * 40, bytes(range(256)) * 2]
    for L in range(0, 200, 7 if not ctx.thorough else 1):
        datas.append(b"y" * L)
        datas.append(b"y" * L + b"\n" + b"z" * (L % 70))
    for _ in range(ctx.budget(800)):
        alpha = rng.choice([b"a\n", b"ab\n", b"abc", bytes(range(256))])
        datas.append(bytes(rng.choice(alpha) for _ in range(rng.choice([1, 5, 60, 64, 70, 130, 300]))))
    cases, tags = [], []
    for d in datas:
        # one chunk, then random chunkings (incl. empty chunks and cuts at block boundaries)
        cases.append([hx(d)] if d or rng.random() < 0.5 else [])
        tags.append("one-chunk")
        cuts = sorted(rng.randrange(len(d) + 1) for _ in range(rng.randint(1, 5)))
        if rng.random() < 0.5:
            cuts = sorted(set(cuts) | {c for c in (64, 128, 63, 65) if c <= len(d)})
        parts, prev = [], 0
        for c in cuts + [len(d)]:
            parts.append(d[prev:c])
            prev = c
        cases.append([hx(p) for p in parts])
        tags.append("chunked")
    return cases, tags


# ------------------------------------------------------------------------------------------------
# streams

def _mk_workers(ctx):
    ov = core.rust_overlay()
    workers = {"py": core.Worker("py", mem_mb=1024)}
    if ov is not None:
        workers["rs"] = core.Worker("rs", overlay=ov, mem_mb=1024)
    return workers, ov


def _stream_int(ctx):
    """model of CPython int(tok, 8) vs the interpreter itself (in-process; pure)."""
    rng = ctx.rng
    L = 6 if ctx.thorough else 5
    toks = [bytes(t) for ln in range(0, L + 1) for t in itertools.product(MODE_ALPHABET, repeat=ln)]
    toks += ODD_TOKENS
    wsp = b" \t\n\x0b\x0c\r"
    for _ in range(ctx.budget(10000)):
        core_ = bytes(rng.choice(b"01234567_") for _ in range(rng.randint(1, 14)))
        tok = bytes(rng.choice(wsp) for _ in range(rng.choice([0, 0, 1, 2]))) + rng.choice([b"", b"", b"+", b"-"]) + \
            rng.choice([b"", b"", b"0o", b"0O", b"0o_", b"0"]) + core_ + bytes(rng.choice(wsp) for _ in range(rng.choice([0, 0, 1])))
        if rng.random() < 0.1:
            p = rng.randrange(len(tok) + 1)
            tok = tok[:p] + bytes([rng.randrange(256)]) + tok[p:]
        toks.append(tok)
    outs = ctx.driver.batch([f"c15.intpy {hx(t)}" for t in toks])
    base = 8
    for t, o in zip(toks, outs):
        try:
            real = f"some {int(t, base)}"
        except ValueError:
            real = "none"
        ctx.count("int.py", t, True, real[:4])
        if o != real:
            ctx.disagree("int.py", {"tok": hx(t)}, o, real, "py")


def _stream_parse(ctx, workers):
    cases, tags = gen_parse_cases(ctx)
    four_way(ctx, workers, "tree.parse", "parse", cases, tags, in_quantifier=lambda c: c[0] in (20, 32))


def _stream_sort(ctx, workers):
    cases, tags = gen_sort_cases(ctx)
    four_way(ctx, workers, "tree.sort", "sort", cases, tags)


def _stream_bisect(ctx, workers):
    cases, tags = gen_bisect_cases(ctx)
    four_way(ctx, workers, "pack.bisect", "bisect", cases, tags)


def _stream_merge(ctx, workers):
    cases, tags = gen_merge_cases(ctx)
    four_way(ctx, workers, "diff.merge", "merge", cases, tags)


def _stream_istree(ctx, workers):
    cases, tags = gen_istree_cases(ctx)
    four_way(ctx, workers, "diff.istree", "istree", cases, tags)


def _stream_blocks(ctx, workers):
    cases, tags = gen_blocks_cases(ctx)
    # model blocks -> dictionary keys through the child's own hash()
    outs = ctx.driver.batch([driver_line("blocks", c, "py") for c in cases] + [driver_line("blocks", c, "rs") for c in cases])
    blocks = sorted({b for o in outs for b in o.split()[1:]})
    rep = workers["py"].ask({"mod": MOD, "op": "hash_many", "args": blocks}, timeout=120)
    if "r" not in rep:
        raise core.InfraError(f"hash_many failed: {rep}")
    hmap = dict(zip(blocks, rep["r"]))

    def post(case, out, v):
        if not out.startswith("ok"):
            return out
        d = {}
        for b in out.split()[1:]:
            d[hmap[b]] = d.get(hmap[b], 0) + len(unhx(b))
        return "ok" + "".join(f" {k}:{n}" for k, n in sorted(d.items()))
    four_way(ctx, workers, "diff.blocks", "blocks", cases, tags, post=post)


def decode_ops(delta: bytes):
    """(src_size, dst_size, ops) of a well-formed delta; consecutive pieces the emitters split are re-joined."""
    def rd(i):
        size, sh = 0, 0
        while True:
            c = delta[i]
            i += 1
            size |= (c & 0x7F) << sh
            sh += 7
            if not c & 0x80:
                return size, i
    src, i = rd(0)
    dst, i = rd(i)
    ops = []
    while i < len(delta):
        cmd = delta[i]
        i += 1
        if cmd & 0x80:
            off = sz = 0
            for k in range(4):
                if cmd & (1 << k):
                    off |= delta[i] << (8 * k)
                    i += 1
            for k in range(3):
                if cmd & (1 << (4 + k)):
                    sz |= delta[i] << (8 * k)
                    i += 1
            sz = sz or 0x10000
            if ops and ops[-1][0] == "c" and ops[-1][3] == 0xFFFF and ops[-1][1] + ops[-1][2] == off:
                ops[-1] = ("c", ops[-1][1], ops[-1][2] + sz, sz)
            else:
                ops.append(("c", off, sz, sz))
        else:
            data = delta[i:i + cmd]
            i += cmd
            if ops and ops[-1][0] == "i" and ops[-1][2] == 127:
                ops[-1] = ("i", ops[-1][1] + data, len(data))
            else:
                ops.append(("i", data, len(data)))
    return src, dst, [f"c:{o[1]}:{o[2]}" if o[0] == "c" else "i:" + hx(o[1]) for o in ops]


def _stream_delta(ctx, workers):
    """apply_delta: py vs rs vs both models on structured deltas (C03's generators); create_delta: both encoders,
    both decoders must give the target; the Rust encoder's bytes must be what the model emitter produces for the
    opcode list they denote."""
    rng = ctx.rng
    by_base: dict[bytes, list] = {}
    bases = [b"", b"a", bytes(range(256)), rng.randbytes(300)]
    for _ in range(ctx.budget(800)):
        base = rng.choice(bases)
        kind, d = c03.gen_structured_delta(rng, base)
        by_base.setdefault(base, []).append((kind, d))
    for base, lst in by_base.items():
        c03._compare_decoders(ctx, "delta.decode", workers, base, [d for _, d in lst], tags=[k for k, _ in lst])
    # a base longer than 64 KiB: copies whose size field is zero / absent (meaning 0x10000), 3-byte sizes, far offsets
    big = bytes(i % 251 for i in range(0x10001))
    hdr = c03.enc_size(len(big))
    bigd = [hdr + c03.enc_size(0x10000) + b"\x80", hdr + c03.enc_size(0x10000) + b"\x81\x01", hdr + c03.enc_size(0x10000) + b"\x81\x02",
            hdr + c03.enc_size(0x10001) + b"\x80\x01z", hdr + c03.enc_size(0x10005) + b"\x90\x05\x80",
            hdr + c03.enc_size(0x10000) + b"\xb0\x00\x00", hdr + c03.enc_size(0x10000) + b"\xf0\x00\x00\x00",
            hdr + c03.enc_size(0x10000) + b"\xc0\x01", hdr + c03.enc_size(0x10001) + b"\xd0\x01\x01",
            hdr + c03.enc_size(0x1000) + b"\xa0\x10", hdr + c03.enc_size(0x1000) + b"\x80", hdr + c03.enc_size(1) + b"\x94\x01\x01",
            hdr + c03.enc_size(2) + b"\x93\xff\xff\x02", hdr + c03.enc_size(0xFFFF) + b"\xb0\xff\xff", hdr + c03.enc_size(0x20000) + b"\x80\x80"]
    c03._compare_decoders(ctx, "delta.bigbase", workers, big, bigd, tags=["big"] * len(bigd))
    # exhaustive short deltas over C03's opcode alphabet against one base
    deltas = [bytes(t) for ln in range(0, 4) for t in itertools.product(c03.ALPHABET, repeat=ln)]
    c03._compare_decoders_batched(ctx, "delta.exhaustive3", workers, b"\x01\x02", deltas)
    pairs = [c03.gen_pair(rng) for _ in range(ctx.budget(150, mult=4))] + [("fixed", b"", b""), ("fixed", b"abc", b"abc"),
                                                                  ("fixed", b"x" * 70000, b"x" * 70000 + b"y" * 300)]
    lines, meta = [], []
    for kind, base, target in pairs:
        deltas = {}
        for v, wk in workers.items():
            rep = wk.ask({"mod": "c03", "op": "create", "args": {"base": hx(base), "target": hx(target)}}, timeout=300)
            if "r" not in rep:
                ctx.oracle_fail("delta.create", {"variant": v, "base": hx(base), "target": hx(target)}, f"create_delta failed: {rep}",
                                f"create-delta-{v}-fails")
                continue
            deltas[v] = unhx(rep["r"])
        for enc, delta in deltas.items():
            for dec, wk in workers.items():
                rep = wk.ask({"mod": "c03", "op": "apply", "args": {"base": hx(base), "delta": hx(delta)}}, timeout=300)
                r = rep.get("r") or f"crash/exc {rep}"
                ctx.count("delta.create", (enc, dec, base, target), True, f"{kind}:{enc}->{dec}")
                if r != "ok " + hx(target):
                    ctx.oracle_fail("delta.create", {"enc": enc, "dec": dec, "base": hx(base), "target": hx(target), "delta": hx(delta)},
                                    f"create_delta by {enc} does not decode to the target with the {dec} decoder: {r[:80]}")
            for dv in ("apply", "applyrs"):
                lines.append(f"c03.{dv} {hx(base)} {hx(delta)}")
                meta.append(("apply", enc, base, target, delta))
        if "rs" in deltas:
            try:
                src, dst, ops = decode_ops(deltas["rs"])
                lines.append("c15.creaters " + hx(base) + "".join(" " + o for o in ops))
                meta.append(("emit", "rs", base, target, deltas["rs"]))
            except IndexError:
                ctx.disagree("delta.create.rs-emitter", {"base": hx(base), "target": hx(target)}, "well-formed", hx(deltas["rs"])[:200], "rs")
    outs = ctx.driver.batch(lines)
    for (what, enc, base, target, delta), o in zip(meta, outs):
        if what == "apply":
            ctx.count("delta.create.model", (enc, base, target), True, enc)
            if o != "ok " + hx(target):
                ctx.disagree("delta.create.model", {"enc": enc, "base": hx(base), "delta": hx(delta)[:400]}, o[:200], "ok " + hx(target)[:200], enc)
        else:
            ctx.count("delta.create.rs-emitter", (base, target), True, "rs")
            if o.split(" ")[0] != hx(delta):
                ctx.disagree("delta.create.rs-emitter", {"base": hx(base), "target": hx(target)}, o[:200], hx(delta)[:200], "rs")


def _stream_battery(ctx, workers):
    res = {}
    for v, wk in workers.items():
        d = ctx.scratch / f"battery-{v}"
        d.mkdir(parents=True, exist_ok=True)
        rep = wk.ask({"mod": MOD, "op": "battery", "args": {"dir": str(d)}}, timeout=90)
        res[v] = rep
        ctx.count("repo.battery", v, True, v + (":ok" if "r" in rep else ":fail"))
    if "py" in res and "rs" in res:
        a, b = res["py"], res["rs"]
        if "r" not in a or "r" not in b:
            if ("r" in a) != ("r" in b) or "crash" in b or b.get("base"):
                ctx.oracle_fail("repo.battery", {"py": str(a)[:300], "rs": str(b)[:300]},
                                "repository battery fails in one configuration only / crashes", None)
            else:
                raise core.InfraError(f"repository battery fails in both configurations: {str(a)[:300]}")
            return
        for k in sorted(set(a["r"]) | set(b["r"])):
            ctx.count("repo.battery", ("key", k), True, "key")
            if a["r"].get(k) != b["r"].get(k):
                ctx.oracle_fail("repo.battery", {"key": k, "py": str(a["r"].get(k))[:600], "rs": str(b["r"].get(k))[:600]},
                                f"enabling the extensions changes the repository-level result {k!r}", None)
        ctx.extra_cov["battery_keys"] = sorted(a["r"])
        ctx.sample({"stream": "repo.battery", "commits": a["r"].get("commits"), "n_objects": len(a["r"].get("objects_after", []))})


def _stream_hostile_trees(ctx, workers):
    """Repository-level face of the parse_tree divergences: loose tree objects with odd mode tokens, read back
    through Repo.__getitem__ in both configurations."""
    sha = bytes(range(1, 21))
    toks = [b"100644", b"40000", b"-644", b"\t644", b"0o100644", b"100_644", b"777777777777", b"644\n", b"+100644", b"0100644", b"648", b""]
    payloads = [hx(ser_entry(t, b"f", sha)) for t in toks] + [hx(ser_entry(b"100644", b"f", sha)[:-1])]
    res = {}
    for v, wk in workers.items():
        rep = wk.ask({"mod": MOD, "op": "hostile_trees", "args": {"dir": str(ctx.scratch / f"hostile-{v}"), "payloads": payloads}}, timeout=90)
        if "r" not in rep:
            ctx.oracle_fail("repo.hostile-tree", {"variant": v, "rep": str(rep)[:300]}, f"listing stored tree objects crashed in the {v} configuration", None)
            return
        res[v] = rep["r"]
    if len(res) == 2:
        for p, a, b in zip(payloads, res["py"], res["rs"]):
            ctx.count("repo.hostile-tree", p, True, ("py:" + a[:2]) + "/" + ("rs:" + b[:2]))
            bad = oracle("parse", [20, False, p], a, b)
            if bad:
                ctx.oracle_fail("repo.hostile-tree", {"op": "parse", "args": [20, False, p], "py": a[:300], "rs": b[:300]},
                                "repository level: Repo[tree_id] lists a stored tree object in one configuration only: " + bad[0], bad[1])


def _run_corpus(ctx, workers):
    d = core.VERIF / "corpus" / "C15"
    if not d.exists():
        return
    by_op: dict[str, list] = {}
    for f in sorted(d.glob("*.json")):
        c = json.loads(f.read_text())
        by_op.setdefault(c["op"], []).append((f.stem, c["args"]))
    for op, lst in by_op.items():
        if op == "blocks":
            continue
        four_way(ctx, workers, "corpus", op, [a for _, a in lst], tags=[s for s, _ in lst])


def _streams(ctx, workers):
    import time
    t = ctx.extra_cov.setdefault("stream_wall_s", {})
    for name, fn in [("corpus", _run_corpus), ("int", lambda c, w: _stream_int(c)), ("parse", _stream_parse), ("sort", _stream_sort),
                     ("bisect", _stream_bisect), ("merge", _stream_merge), ("istree", _stream_istree), ("blocks", _stream_blocks),
                     ("delta", _stream_delta)]:
        t0 = time.time()
        fn(ctx, workers)
        t[name] = round(t.get(name, 0) + time.time() - t0, 2)


def run(ctx: core.Ctx):
    _LOGDIR[0] = ctx.scratch
    workers, ov = _mk_workers(ctx)
    if ov is None:
        ctx.notes.append("cargo build failed: Rust variant not exercised (see .cache/cargo.log)")
        ctx.disagree("rust.build", {}, "builds", "cargo build failed", "rs")
    ctx.assumptions += [
        "CPython semantics of int(bytes, 8), bytes comparison, sorted(), posixpath.join, stat.S_ISDIR and Rust's "
        "from_str_radix, slice ordering, sort_by are modelled (not verified) and tied by the correspondence streams",
        "Rust extension = debug profile build of the working tree (overflow checks on), 64-bit usize/isize, as the installed "
        "artefact; sys.maxsize = isize::MAX (checked by the translator)",
        "the `unpack_name` callback of bisect_find_sha is a parameter; the harness instantiates it with three callbacks "
        "(strict table, Python list indexing, a synthetic table defined on every index)",
        "hash() of a block is Python's own in both implementations; children run with PYTHONHASHSEED=0",
        "exceptions are compared as 'fails' only (the property says 'failure in both'); each implementation's exception "
        "class is still compared with its own model",
    ]
    try:
        w = {k: v.ask({"mod": MOD, "op": "which"}) for k, v in workers.items()}
        ctx.extra_cov["variants"] = {k: v.get("r") for k, v in w.items()}
        if "rs" in w:
            r = w["rs"].get("r", {})
            if not all(str(r.get(k, "")).startswith("dulwich._") for k in ("parse_tree", "sorted_tree_items", "bisect_find_sha",
                                                                          "_merge_entries", "_is_tree", "_count_blocks", "apply_delta")):
                raise core.InfraError(f"rs worker did not load the rebuilt extensions: {w['rs']}")
        r = w["py"].get("r", {})
        if any(str(v).startswith("dulwich._") for k, v in r.items() if k not in ("file", "ext")):
            raise core.InfraError(f"py worker loaded an extension: {w['py']}")
        _streams(ctx, workers)
        _stream_battery(ctx, workers)
        _stream_hostile_trees(ctx, workers)
    finally:
        for v in workers.values():
            v.close()


def search(ctx: core.Ctx):
    """Failing-input search after a broken obligation / correspondence: neighbourhood of the disagreeing cases,
    then the whole direct oracle again with fresh randomness (the budget is already x5 when a proof broke)."""
    _LOGDIR[0] = ctx.scratch
    workers, ov = _mk_workers(ctx)
    try:
        neigh: dict[str, list] = {}
        for dgr in ctx.disagreements[:200]:
            c = dgr["case"]
            if "op" not in c:
                continue
            op, a = c["op"], c["args"]
            lst = neigh.setdefault(op, [])
            lst.append(a)
            if op == "parse":
                n, strict, text = a
                t = unhx(text)
                for cut in range(len(t) + 1):
                    lst.append([n, strict, hx(t[:cut])])
                lst.append([n, not strict, text])
                lst.append([32 if n == 20 else 20, strict, text])
            elif op == "sort":
                no, ents = a
                for e1, e2 in itertools.permutations(ents, 2):
                    lst.append([no, [e1, e2]])
                lst.append([not no, ents])
            elif op == "bisect":
                s, e, sha, kind, params = a
                for ds, de in itertools.product((-1, 0, 1), repeat=2):
                    lst.append([s + ds, e + de, sha, kind, params])
                if kind != "synth":
                    for p in params:
                        lst.append([s, e, p, kind, params])
            elif op == "merge":
                p, t1, t2 = a
                lst += [[p, t2, t1], ["-", t1, t2], [p, t1, None], [p, None, t2]]
            elif op == "istree" and isinstance(a, int):
                lst += [a + 1, a - 1, a ^ DIR]
            elif op == "blocks":
                lst.append([hx(b"".join(unhx(x) for x in a))])
        for op, lst in neigh.items():
            if op == "blocks":
                continue
            four_way(ctx, workers, "search." + op, op, lst)
        if ctx.oracle_failures:
            return
        _streams(ctx, workers)
    finally:
        for v in workers.values():
            v.close()


def replay(ctx: core.Ctx, data: dict) -> int:
    c = data.get("case", {})
    _LOGDIR[0] = ctx.scratch
    workers, ov = _mk_workers(ctx)
    try:
        if "op" in c and c["op"] in OPS:
            op, a = c["op"], c["args"]
            real = {v: _ask_many(wk, op, [a])[0] for v, wk in workers.items()}
            print("replay", op, json.dumps(a)[:300])
            for v, r in real.items():
                print(f"  real {v}: {r[:300]}")
            bad = oracle(op, a, real.get("py", ""), real.get("rs", "")) if len(real) == 2 else ("rust variant unavailable", None)
            if bad:
                print(f"  {bad[0]} (class {bad[1]})")
                print(f"VIOLATION property=C15 replay={data.get('_path', '<replayed>')}")
                return 1
            print("replay: property holds on this case")
            return 0
        if "delta" in c:
            base = unhx(c.get("base", "-"))
            res = {}
            for v, wk in workers.items():
                res[v] = wk.ask({"mod": "c03", "op": "apply", "args": {"base": hx(base), "delta": c["delta"]}})
                print("replay decode", v, str(res[v])[:200])
            if "target" in c:
                ok = all(r.get("r") == "ok " + c["target"] for r in res.values())
            else:
                ok = len({_obs(str(r.get("r", "crash"))) for r in res.values()}) == 1 and all("r" in r for r in res.values())
            if not ok:
                print(f"VIOLATION property=C15 replay={data.get('_path', '<replayed>')}")
                return 1
            print("replay: property holds on this case")
            return 0
        if data.get("stream") == "repo.battery":
            _stream_battery(ctx, workers)
            if ctx.oracle_failures:
                print(f"VIOLATION property=C15 replay={data.get('_path', '<replayed>')}")
                return 1
            print("replay: property holds on this case")
            return 0
        print("replay: unrecognised case")
        return 2
    finally:
        for v in workers.values():
            v.close()
