"""C04 — corrupt or hostile input is contained; failed ingestion leaves no trace.

Model: lean/DulwichModel/Model/Ingest.lean; theorems: Props/C04.lean; driver: Driver/C04.lean.
Tie: translate() regenerates Gen/Ingest.lean (pack framing constants, guards present in the source, the rollback /
abort steps of the ingestion paths, the exception family of ReceivePackHandler._apply_pack); run() drives
  * correspondence streams: model parser vs PackStreamReader / PackData on every mutant, model forward-chaining
    resolver + logical ingest vs the real stores, model random access vs Pack.get_raw, model FS programs vs the
    recorded system calls of the real ingestion paths;
  * the direct oracle in the property's words on the real code (child processes with timeout and rlimits).
"""
from __future__ import annotations

import ast
import hashlib
import json
import os
import struct
import zlib
from pathlib import Path

from .. import core, translate as T
from ..core import hx, unhx

MOD = "c04"
DEPENDS = ["C03"]


# ------------------------------------------------------------------------------------------------
# translator

def _has_compare(func, left_name, op_type, value):
    for n in ast.walk(func):
        if isinstance(n, ast.Compare) and isinstance(n.left, ast.Name) and n.left.id == left_name \
                and isinstance(n.ops[0], op_type):
            try:
                if T.eval_literal(n.comparators[0]) == value:
                    return n
            except T.TranslateError:
                pass
    return None


def _if_raises(func, pred):
    """first `if <test>: raise X(...)` in func whose test satisfies pred -> exception class name"""
    for n in ast.walk(func):
        if isinstance(n, ast.If) and pred(n.test) and n.body and isinstance(n.body[-1], ast.Raise):
            exc = n.body[-1].exc
            if isinstance(exc, ast.Call):
                exc = exc.func
            return getattr(exc, "id", getattr(exc, "attr", "?"))
    return None


def _calls(node, dotted: str) -> list[ast.Call]:
    """all calls `a.b(...)` / `f(...)` under node whose dotted name is `dotted`"""
    out = []
    for n in ast.walk(node):
        if isinstance(n, ast.Call):
            try:
                name = ast.unparse(n.func)
            except Exception:
                continue
            if name == dotted:
                out.append(n)
    return out


def _lean_bool(b) -> str:
    return "true" if b else "false"


def translate(repo: Path) -> dict:
    ptree = T.module_ast(repo / "dulwich" / "pack.py")
    ofs, ref = T.const_value(ptree, "OFS_DELTA"), T.const_value(ptree, "REF_DELTA")
    if set(T.const_value(ptree, "DELTA_TYPES")) != {ofs, ref}:
        raise T.TranslateError("DELTA_TYPES is not (OFS_DELTA, REF_DELTA)")
    # -- pack header
    rph = T.find_def(ptree, "read_pack_header_at")
    magic = None
    versions = None
    for n in ast.walk(rph):
        if isinstance(n, ast.Compare) and isinstance(n.ops[0], ast.NotEq) and isinstance(n.comparators[0], ast.Constant) \
                and isinstance(n.comparators[0].value, bytes):
            magic = n.comparators[0].value
        if isinstance(n, ast.Compare) and isinstance(n.ops[0], ast.NotIn):
            versions = tuple(T.eval_literal(n.comparators[0]))
    consts = T.int_constants(rph)
    if magic is None or versions is None or consts != [0, 12, 4, 4] + list(versions) + [8]:
        raise T.TranslateError(f"read_pack_header_at: unexpected shape magic={magic} versions={versions} consts={consts}")
    hdr_len = consts[1]
    # -- object header / ofs varint
    doh = T.int_constants(T.find_def(ptree, "_decode_object_header"))
    if len(doh) != 9 or doh[0] != 0 or doh[3] != 0 or doh[5] != 1:
        raise T.TranslateError(f"_decode_object_header: unexpected constants {doh}")
    type_shift, type_mask, low_mask, grp_mask, grp_shift, low_bits = doh[1], doh[2], doh[4], doh[6], doh[7], doh[8]
    for m in (type_mask, low_mask, grp_mask):
        if (m + 1) & m:
            raise T.TranslateError(f"_decode_object_header: mask {m:#x} is not 2^k-1")
    ddo = T.find_def(ptree, "_decode_delta_base_offset")
    dconst = T.int_constants(ddo)
    zero_exc = _if_raises(ddo, lambda t: isinstance(t, ast.Compare) and isinstance(t.left, ast.Name)
                          and t.left.id == "delta_base_offset" and isinstance(t.ops[0], ast.Eq)
                          and isinstance(t.comparators[0], ast.Constant) and t.comparators[0].value == 0)
    expect = [1, 128, 0, 127, 1, 1, 7, 127] + ([0] if zero_exc else [])
    if dconst != expect:
        raise T.TranslateError(f"_decode_delta_base_offset: unexpected constants {dconst}")
    if zero_exc not in (None, "ApplyDeltaError"):
        raise T.TranslateError(f"_decode_delta_base_offset: zero offset raises {zero_exc}")
    tmb = T.int_constants(T.find_def(ptree, "take_msb_bytes"))
    if tmb != [0, 1, 128, 1, 1] or T.int_constants(T.find_def(ptree, "take_msb_bytes_at"))[:3] != [0, 1, 128]:
        raise T.TranslateError(f"take_msb_bytes: unexpected constants {tmb}")
    # -- zlib size bounding (both readers)
    flags = {}
    for fn in ("read_zlib_chunks", "read_zlib_chunks_at"):
        f = T.find_def(ptree, fn)
        dec = _calls(f, "decomp_obj.decompress")
        bounded = bool(dec) and all(len(c.args) == 2 for c in dec) and _if_raises(
            f, lambda t: isinstance(t, ast.Attribute) and t.attr == "unconsumed_tail") == "error"
        sized = _if_raises(f, lambda t: isinstance(t, ast.Compare) and ast.unparse(t) == "decomp_len != unpacked.decomp_len") == "error"
        eof = _if_raises(f, lambda t: ast.unparse(t) == "not add") == "error"
        plus1 = any(ast.unparse(n.value) == "max_decomp - decomp_len + 1" for n in ast.walk(f)
                    if isinstance(n, ast.Assign) and ast.unparse(n.targets[0]) == "remaining")
        flags[fn] = (bounded and plus1, sized, eof)
    if flags["read_zlib_chunks"] != flags["read_zlib_chunks_at"]:
        raise T.TranslateError(f"the two zlib readers differ in their guards: {flags}")
    z_bounded, z_sized, z_eof = flags["read_zlib_chunks"]
    if not z_eof:
        raise T.TranslateError("read_zlib_chunks: `if not add: raise zlib.error` not found")
    # -- trailer verification in PackStreamReader.read_objects
    ro = T.find_def(ptree, "PackStreamReader.read_objects")
    trailer = _if_raises(ro, lambda t: ast.unparse(t) == "pack_sha != self.sha.digest()") == "ChecksumMismatch"
    # -- forward chaining: pending entries are popped (removed) when unblocked
    fc = T.find_def(ptree, "DeltaChainIterator._follow_chain")
    pops = len(_calls(fc, "self._pending_ofs.pop")) == 1 and len(_calls(fc, "self._pending_ref.pop")) == 1
    if not pops:
        raise T.TranslateError("_follow_chain: pending entries are no longer popped when unblocked")
    fc_src = ast.unparse(fc)
    chain_check = "on_chain" in fc_src and _if_raises(fc, lambda t_: "sha in on_chain" in ast.unparse(t_)) == "ApplyDeltaError"
    wr = T.find_def(ptree, "DeltaChainIterator._walk_ref_chains")
    if len(_calls(wr, "self._pending_ref.pop")) != 1 or len(_calls(wr, "sorted")) != 1:
        raise T.TranslateError("_walk_ref_chains: shape changed (sorted snapshot + pop expected)")
    ro2 = T.find_def(ptree, "DeltaChainIterator._resolve_object")
    empty_guard = _if_raises(ro2, lambda t: "chunks_length(unpacked.obj_chunks) == 0" in ast.unparse(t)) == "ApplyDeltaError"
    blob_num = None
    for n in ast.walk(ro2):
        if isinstance(n, ast.Compare) and ast.unparse(n.left) == "obj_type_num" and isinstance(n.ops[0], ast.NotEq):
            blob_num = T.eval_literal(n.comparators[0])
    if empty_guard and blob_num is None:
        raise T.TranslateError("_resolve_object: empty-payload guard without a type test")
    # -- random access
    res = T.find_def(ptree, "Pack.resolve_object")
    self_ref = _if_raises(res, lambda t: ast.unparse(t) == "base_offset == prev_offset") == "UnresolvedDeltas"
    visited = any(isinstance(n, ast.Call) and ast.unparse(n.func).endswith(".add") for n in ast.walk(res)) or \
        any(isinstance(n, ast.Compare) and isinstance(n.ops[0], ast.In) for n in ast.walk(res)
            if "DELTA_TYPES" not in ast.unparse(n))
    # -- object type table
    otree = T.module_ast(repo / "dulwich" / "objects.py")
    types = []
    for cls in ast.iter_child_nodes(otree):
        if isinstance(cls, ast.ClassDef):
            tn = tnum = None
            for st in cls.body:
                if isinstance(st, ast.Assign) and len(st.targets) == 1 and isinstance(st.targets[0], ast.Name):
                    if st.targets[0].id == "type_name" and isinstance(st.value, ast.Constant) and isinstance(st.value.value, bytes):
                        tn = st.value.value
                    if st.targets[0].id == "type_num" and isinstance(st.value, ast.Constant) and isinstance(st.value.value, int):
                        tnum = st.value.value
            if tn is not None and tnum is not None:
                types.append((tnum, tn))
    types.sort()
    if len(types) < 4:
        raise T.TranslateError(f"objects.py: type table not found ({types})")
    oh = T.find_def(otree, "object_header")
    if "cls.type_name + b' ' + str(length).encode('ascii') + b'\\x00'" not in ast.unparse(oh):
        raise T.TranslateError("object_header: `type_name + b' ' + str(length) + NUL` not found")
    # -- server exception family
    stree = T.module_ast(repo / "dulwich" / "server.py")
    ap = T.find_def(stree, "ReceivePackHandler._apply_pack")
    family = None
    for n in ast.walk(ap):
        if isinstance(n, ast.Assign) and ast.unparse(n.targets[0]) == "all_exceptions" and isinstance(n.value, ast.Tuple):
            family = [ast.unparse(e) for e in n.value.elts]
    if not family:
        raise T.TranslateError("_apply_pack: all_exceptions tuple not found")
    # -- store-level steps: rollback in _complete_pack, abort() of add_pack, trailer check of the memory store
    stt = T.module_ast(repo / "dulwich" / "object_store.py")
    cp = T.find_def(stt, "DiskObjectStore._complete_pack")
    rollback_pack = rollback_idx = False
    close_guarded = False
    validates = False
    rename_before_validate = False
    for n in ast.walk(cp):
        if isinstance(n, ast.Try):
            body_src = "\n".join(ast.unparse(b) for b in n.body)
            if "check_length_and_checksum" in body_src and "PackInflater.for_pack_data" in body_src:
                validates = True
                for h in n.handlers:
                    hs = "\n".join(ast.unparse(b) for b in h.body)
                    rollback_pack = "os.remove(target_pack_path)" in hs and "raise" in hs
                    rollback_idx = "os.remove(target_index_path)" in hs and "raise" in hs
                    # `final_pack.close()` as a bare first statement can raise (BufferError) and skip the removals
                    close_guarded = not any(isinstance(b, ast.Expr) and ast.unparse(b) == "final_pack.close()" for b in h.body)
                ren = [c.lineno for c in _calls(cp, "os.rename")]
                rename_before_validate = bool(ren) and max(ren) < n.lineno
    if not validates:
        raise T.TranslateError("_complete_pack: post-install validation (check_length_and_checksum + PackInflater) not found")
    if not rename_before_validate:
        raise T.TranslateError("_complete_pack: the pack is no longer renamed into place before validation "
                               "(F13 repaired?) - update the FS program of the model")
    # -- statement structure of _complete_pack between "pack under its final name" and "validated"
    rename_stmt = next((st for st in cp.body if isinstance(st, ast.Expr) and ast.unparse(st).startswith("os.rename(path, target_pack_path)")), None)
    val_try = next((st for st in cp.body if isinstance(st, ast.Try) and "check_length_and_checksum" in ast.unparse(st)), None)
    if rename_stmt is None or val_try is None:
        raise T.TranslateError("_complete_pack: `os.rename(path, target_pack_path)` / the validation try are not top-level statements any more")
    between = cp.body[cp.body.index(rename_stmt) + 1: cp.body.index(val_try)]
    idx_write_guarded = False
    unguarded_calls = 0
    bitmap_block = False
    for st in between:
        src_ = ast.unparse(st)
        if isinstance(st, ast.Try) and "write_pack_index" in src_:
            idx_write_guarded = any(h.type is not None and ast.unparse(h.type) == "BaseException" and "os.remove(target_pack_path)" in ast.unparse(h)
                                    and isinstance(h.body[-1], ast.Raise) for h in st.handlers)
            if not idx_write_guarded:
                unguarded_calls += 1
        elif isinstance(st, ast.If) and "self.pack_write_bitmaps" in ast.unparse(st.test):
            bitmap_block = True
        elif isinstance(st, ast.Assign) and src_.startswith("final_pack = Pack("):
            continue        # the constructor opens nothing
        elif any(isinstance(n, ast.Call) for n in ast.walk(st)):
            unguarded_calls += 1
    after_val = cp.body[cp.body.index(val_try) + 1:]
    for st in after_val:
        if any(isinstance(n, ast.Call) and ast.unparse(n.func) not in ("self._add_cached_pack", "os.path.basename") for n in ast.walk(st)):
            unguarded_calls += 1
    vh = next(h for h in val_try.handlers if h.type is not None and ast.unparse(h.type) == "BaseException")
    vsrc = ast.unparse(vh)
    rollback_idx_first = "os.remove(target_index_path)" in vsrc and "os.remove(target_pack_path)" in vsrc and \
        vsrc.index("os.remove(target_index_path)") < vsrc.index("os.remove(target_pack_path)")
    removes = [n for n in ast.walk(vh) if isinstance(n, ast.Call) and ast.unparse(n.func) == "os.remove"]

    def _own_guard(call):
        # the removal sits alone under `with suppress(OSError)`
        for w_ in ast.walk(vh):
            if isinstance(w_, ast.With) and any(call is n for n in ast.walk(w_)) and len(w_.body) == 1 and \
                    "suppress(OSError)" in ast.unparse(w_.items[0]):
                return True
        return False
    in_finally = any(isinstance(n, ast.Try) and n.finalbody for n in ast.walk(vh))
    rollback_independent = bool(removes) and all(_own_guard(c_) for c_ in removes) and in_finally
    passes_refs = any("refs=" in ast.unparse(c_) for q in ("DiskObjectStore.add_thin_pack", "DiskObjectStore.add_pack")
                      for c_ in _calls(T.find_def(stt, q), "self._complete_pack"))
    addp = T.find_def(stt, "DiskObjectStore.add_pack")
    abort = T.find_def(addp, "abort")
    abort_removes = "os.remove(path)" in ast.unparse(abort)
    thin = T.find_def(stt, "DiskObjectStore.add_thin_pack")
    thin_src = ast.unparse(thin)
    thin_cleans = "os.remove(path)" in thin_src or "os.unlink(path)" in thin_src or "_remove_readonly(path)" in thin_src
    commit = T.find_def(addp, "commit")
    commit_src = ast.unparse(commit)
    commit_cleans = any(isinstance(n, ast.Try) for n in ast.walk(commit)) and \
        ("os.remove(path)" in "".join(ast.unparse(h) for n in ast.walk(commit) if isinstance(n, ast.Try) for h in n.handlers + n.finalbody))
    addp_src = ast.unparse(addp)
    commit_checks = "pd.check()" in addp_src and "PackIndexer.for_pack_data" in addp_src and \
        addp_src.index("pd.check()") < addp_src.index("PackIndexer.for_pack_data")
    mem = T.find_def(stt, "MemoryObjectStore.add_pack")
    mcommit = T.find_def(mem, "commit")
    msrc = ast.unparse(mcommit)
    mem_checks = "p.check()" in msrc and msrc.index("p.check()") < msrc.index("PackInflater.for_pack_data")
    # objects added one at a time while the iterator is being drained = no all-or-nothing
    mem_incremental = any(isinstance(n, ast.For) and "PackInflater.for_pack_data" in ast.unparse(n.iter)
                          and "self.add_object(obj)" in ast.unparse(n) for n in ast.walk(mcommit))
    mem_deletes = any(isinstance(n, ast.Delete) for n in ast.walk(mcommit)) or any(
        x in msrc for x in ("self._data.pop", "__delitem__", "self._data.clear", "del self"))
    # -- the stores ask their indexers / inflaters to refuse deltas onto their own chain
    stores_reject = chain_check and all("reject_delta_cycles=True" in ast.unparse(n) for n in (thin, addp, cp, mcommit)) and \
        "base_sha=base_sha" in ast.unparse(wr)
    # -- packed-refs cache: the validity key is recorded only after the parse loops have run to their end
    rtree = T.module_ast(repo / "dulwich" / "refs.py")
    gpr = T.find_def(rtree, "DiskRefsContainer.get_packed_refs")
    key_after_parse = False
    stale_checked = "self._packed_refs_key != self._current_packed_refs_key()" in ast.unparse(gpr)
    for wnode in ast.walk(gpr):
        if isinstance(wnode, ast.With):
            loops = [n for n in ast.walk(wnode) if isinstance(n, ast.For) and "read_packed_refs" in ast.unparse(n.iter)]
            if not loops:
                continue
            assigns = [n for n in ast.walk(gpr) if isinstance(n, ast.Assign) and ast.unparse(n.targets[0]) == "self._packed_refs_key"]
            real = [n for n in assigns if not (isinstance(n.value, ast.Constant) and n.value.value is None)]
            reset = [n for n in assigns if isinstance(n.value, ast.Constant) and n.value.value is None and n.lineno < wnode.lineno]
            # dominated by the loops: a direct statement of the with-body, after every loop (and after the branch holding them)
            top = [st for st in wnode.body if st in real]
            last_loop_end = max(getattr(n, "end_lineno", n.lineno) for n in loops)
            key_after_parse = len(real) == 1 and len(top) == 1 and top[0].lineno > last_loop_end and bool(reset) and \
                wnode.body.index(top[0]) == len(wnode.body) - 1
    if not any(isinstance(n, ast.With) for n in ast.walk(gpr)):
        raise T.TranslateError("DiskRefsContainer.get_packed_refs: `with f:` parse block not found")
    rewrites_invalidate = all(
        any(isinstance(n, ast.Try) and "self._invalidate_packed_refs_cache()" in "".join(ast.unparse(x) for x in n.finalbody)
            for n in ast.walk(T.find_def(rtree, q)))
        for q in ("DiskRefsContainer.add_packed_refs", "DiskRefsContainer._remove_packed_ref"))
    # -- index trailer check (SHA1Reader.check_sha)
    cs = T.find_def(ptree, "SHA1Reader.check_sha")
    cs_src = ast.unparse(cs)
    index_short_trailer_ok = "len(stored) == 20" in cs_src   # the as-coded condition lets a short trailer through

    ftree = T.module_ast(repo / "dulwich" / "object_format.py")
    oid_len = None
    for st in ftree.body:
        if isinstance(st, ast.Assign) and ast.unparse(st.targets[0]) == "SHA1" and isinstance(st.value, ast.Call):
            for kw in st.value.keywords:
                if kw.arg == "oid_length":
                    oid_len = T.eval_literal(kw.value)
    if oid_len is None:
        raise T.TranslateError("object_format.py: SHA1 oid_length not found")

    def lean_str_list(xs):
        return "[" + ", ".join(json.dumps(x) for x in xs) + "]"

    src = T.lean_header("dulwich/pack.py: OFS_DELTA, REF_DELTA, read_pack_header_at, _decode_object_header, "
                        "_decode_delta_base_offset, take_msb_bytes, read_zlib_chunks(_at), PackStreamReader.read_objects, "
                        "DeltaChainIterator, Pack.resolve_object, SHA1Reader.check_sha; dulwich/objects.py: type table, "
                        "object_header; dulwich/object_store.py: _complete_pack, add_pack, add_thin_pack, "
                        "MemoryObjectStore.add_pack; dulwich/server.py: ReceivePackHandler._apply_pack") + f"""
namespace Dulwich.Gen.Ingest
/-- `OFS_DELTA`, `REF_DELTA` -/
def ofsDelta : Nat := {ofs}
def refDelta : Nat := {ref}
/-- `read_pack_header_at`: magic, accepted versions, header length -/
def packMagic : List UInt8 := {T.lean_bytes(magic)}
def packVersions : List Nat := {list(versions)}
def packHeaderLen : Nat := {hdr_len}
/-- `_decode_object_header`: `(raw[0] >> typeShift) & typeMask`, `raw[0] & lowMask`, groups of `groupBits` bits
(mask `groupMask`) shifted by `i*groupBits + lowBits` -/
def typeShift : Nat := {type_shift}
def typeMask : Nat := {type_mask}
def lowMask : Nat := {low_mask}
def groupMask : Nat := {grp_mask}
def groupBits : Nat := {grp_shift}
def lowBits : Nat := {low_bits}
/-- `_decode_delta_base_offset`: `if delta_base_offset == 0: raise ApplyDeltaError` is present -/
def ofsZeroRejected : Bool := {_lean_bool(zero_exc == "ApplyDeltaError")}
/-- `read_zlib_chunks(_at)`: `decompress(add, max_decomp - decomp_len + 1)` + `unconsumed_tail` ⇒ error -/
def zlibBounded : Bool := {_lean_bool(z_bounded)}
/-- `read_zlib_chunks(_at)`: `decomp_len != unpacked.decomp_len` ⇒ error -/
def zlibSizeChecked : Bool := {_lean_bool(z_sized)}
/-- `PackStreamReader.read_objects`: `pack_sha != self.sha.digest()` ⇒ ChecksumMismatch -/
def trailerVerified : Bool := {_lean_bool(trailer)}
/-- `DeltaChainIterator._resolve_object`: a delta resolving to an empty non-blob raises ApplyDeltaError; the blob type number -/
def emptyGuard : Bool := {_lean_bool(empty_guard)}
def blobType : Nat := {blob_num if blob_num is not None else 3}
/-- `Pack.resolve_object`: `if base_offset == prev_offset: raise UnresolvedDeltas`; a visited set exists -/
def selfRefChecked : Bool := {_lean_bool(self_ref)}
def visitedSet : Bool := {_lean_bool(visited)}
/-- object type numbers and names (dulwich/objects.py) -/
def typeNames : List (Nat × List UInt8) := [{", ".join(f'({n}, {T.lean_bytes(t)})' for n, t in types)}]  -- {", ".join(f"{n}={t.decode()}" for n, t in types)}
/-- `SHA1.oid_length` (dulwich/object_format.py) -/
def oidLen : Nat := {oid_len}
/-- `ReceivePackHandler._apply_pack`: `all_exceptions` -/
def applyPackFamily : List String := {lean_str_list(family)}
/-- `_complete_pack`: the `except BaseException` handler after the post-install validation removes the pack / the index -/
def rollbackRemovesPack : Bool := {_lean_bool(rollback_pack)}
def rollbackRemovesIdx : Bool := {_lean_bool(rollback_idx)}
/-- the handler cannot be cut short by `final_pack.close()` raising (it is not a bare statement of the handler) -/
def rollbackCloseGuarded : Bool := {_lean_bool(close_guarded)}
/-- `_complete_pack` between `os.rename(path, target_pack_path)` and the validation `try`: the index is written inside a `try`
whose `except BaseException` removes the pack again; statements with calls that are under no such handler (the `Pack(...)`
constructor and the bitmap block aside); the bitmap block exists / the ingestion paths pass `refs` (only then it runs) -/
def idxWriteGuarded : Bool := {_lean_bool(idx_write_guarded)}
def unguardedCallsAfterInstall : Nat := {unguarded_calls}
def bitmapBlockAfterInstall : Bool := {_lean_bool(bitmap_block)}
def ingestPassesRefs : Bool := {_lean_bool(passes_refs)}
/-- rollback handler of the validation: the index is removed before the pack; every removal is attempted on its own
(`with suppress(OSError)` each, chained by try/finally) -/
def rollbackIdxFirst : Bool := {_lean_bool(rollback_idx_first)}
def rollbackIndependent : Bool := {_lean_bool(rollback_independent)}
/-- `DiskObjectStore.add_pack`: `abort()` removes the temporary file; `commit()` removes it when indexing fails -/
def abortRemovesTmp : Bool := {_lean_bool(abort_removes)}
def commitFailureRemovesTmp : Bool := {_lean_bool(commit_cleans)}
/-- `DiskObjectStore.add_pack().commit` verifies the trailer (`pd.check()`) before indexing -/
def commitChecksTrailer : Bool := {_lean_bool(commit_checks)}
/-- `DiskObjectStore.add_thin_pack` removes `tmp_pack_*` when copying / indexing fails -/
def thinFailureRemovesTmp : Bool := {_lean_bool(thin_cleans)}
/-- `MemoryObjectStore.add_pack.commit`: `p.check()` precedes the inflater; objects are added while the inflater is drained -/
def memChecksTrailer : Bool := {_lean_bool(mem_checks)}
def memAddsIncrementally : Bool := {_lean_bool(mem_incremental)}
/-- `MemoryObjectStore.add_pack.commit` removes objects on some path (a "rollback" by deletion) -/
def memCommitDeletes : Bool := {_lean_bool(mem_deletes)}
/-- `_follow_chain` raises ApplyDeltaError for `sha in on_chain` and add_thin_pack, add_pack, _complete_pack and
MemoryObjectStore all pass `reject_delta_cycles=True` -/
def storesRejectDeltaCycles : Bool := {_lean_bool(stores_reject)}
/-- `DiskRefsContainer.get_packed_refs`: `_packed_refs_key` is reset to None before the file is opened and assigned its
real value by the LAST statement of the `with f:` block, after the parse loops; a stale key is checked on entry;
add_packed_refs / _remove_packed_ref drop the cache in a `finally` -/
def packedRefsKeyAfterParse : Bool := {_lean_bool(key_after_parse)}
def packedRefsStaleChecked : Bool := {_lean_bool(stale_checked)}
def packedRefsRewriteInvalidates : Bool := {_lean_bool(rewrites_invalidate)}
/-- `SHA1Reader.check_sha(allow_empty=True)` as coded accepts a trailer shorter than 20 bytes unverified -/
def indexShortTrailerAccepted : Bool := {_lean_bool(index_short_trailer_ok)}
end Dulwich.Gen.Ingest
"""
    return {"Ingest": src}


# ------------------------------------------------------------------------------------------------
# independent encoders (the harness builds its packs itself; dulwich's writers are not involved)

TYPE_NAMES = {1: b"commit", 2: b"tree", 3: b"blob", 4: b"tag"}


def sha1(b: bytes) -> bytes:
    return hashlib.sha1(b).digest()


def obj_name(ty: int, data: bytes) -> bytes:
    return sha1(TYPE_NAMES[ty] + b" " + str(len(data)).encode() + b"\0" + data)


def enc_objhdr(ty: int, size: int, pad: int = 0) -> bytes:
    """pack entry header; pad>0 appends that many over-long continuation groups (still decodes to `size`)."""
    b = (ty << 4) | (size & 0x0F)
    size >>= 4
    out = bytearray()
    while size or pad:
        out.append(b | 0x80)
        b = size & 0x7F
        size >>= 7
        if not size and pad:
            pad -= 1
    out.append(b)
    return bytes(out)


def enc_ofs(k: int) -> bytes:
    out = bytearray([k & 0x7F])
    k >>= 7
    while k:
        k -= 1
        out.insert(0, 0x80 | (k & 0x7F))
        k >>= 7
    return bytes(out)


def enc_varint(n: int) -> bytes:
    out = bytearray()
    while True:
        c = n & 0x7F
        n >>= 7
        if n:
            out.append(c | 0x80)
        else:
            out.append(c)
            return bytes(out)


def make_delta(base: bytes, target: bytes) -> bytes:
    """copy(common prefix) + insert(middle) + copy(common suffix)"""
    p = 0
    while p < min(len(base), len(target)) and base[p] == target[p]:
        p += 1
    s = 0
    while s < min(len(base), len(target)) - p and base[-1 - s] == target[-1 - s]:
        s += 1
    out = bytearray(enc_varint(len(base)) + enc_varint(len(target)))

    def copy(off, ln):
        while ln > 0:
            n = min(ln, 0xFFFF)
            cmd, args = 0x80, bytearray()
            for i in range(4):
                byte = (off >> (8 * i)) & 0xFF
                if byte:
                    cmd |= 1 << i
                    args.append(byte)
            for i in range(2):
                byte = (n >> (8 * i)) & 0xFF
                if byte:
                    cmd |= 1 << (4 + i)
                    args.append(byte)
            out.append(cmd)
            out.extend(args)
            off += n
            ln -= n
    copy(0, p)
    mid = target[p:len(target) - s]
    for i in range(0, len(mid), 127):
        chunk = mid[i:i + 127]
        out.append(len(chunk))
        out.extend(chunk)
    copy(len(base) - s, s)
    return bytes(out)


class Built:
    """a pack built from a spec: bytes, entry offsets, header positions, the objects a correct reader yields"""

    def __init__(self):
        self.data = b""
        self.offsets: list[int] = []
        self.struct_pos: set[int] = set()
        self.objects: list[tuple[int, bytes]] = []   # resolved (ty, data) per entry
        self.ext: list[tuple[int, bytes]] = []       # objects that must pre-exist in the store (thin packs)
        self.name = ""


def _spec_resolve(items, ext, i):
    it = items[i]
    if it[0] == "full":
        return it[1], it[2]
    if it[0] == "ofs":
        return _spec_resolve(items, ext, it[1])[0], it[2]
    if it[0] == "ref":
        bref = it[1]
        if isinstance(bref, int):
            return _spec_resolve(items, ext, bref)[0], it[2]
        if bref[0] == "ext":
            return ext[bref[1]][0], it[2]
        return bref[2], it[2]
    return it[2], it[3]


def build_pack(name, items, ext=(), version=2, level=6, count=None, trailer=None) -> Built:
    """items: ("full", ty, data) | ("ofs", base_index, target) | ("ref", base_index | ("ext", j) | ("name", raw20, ty, basedata), target)
             | ("raw", bytes, ty_or_None, data_or_None)   raw entry bytes (attacks)"""
    b = Built()
    b.name = name
    b.ext = list(ext)
    body = bytearray(b"PACK" + struct.pack(">LL", version, len(items) if count is None else count))
    b.struct_pos.update(range(12))
    resolved: list[tuple[int, bytes] | None] = []
    for it in items:
        off = len(body)
        b.offsets.append(off)
        if it[0] == "full":
            _, ty, data = it
            h = enc_objhdr(ty, len(data))
            body += h + zlib.compress(data, level)
            resolved.append((ty, data) if ty in TYPE_NAMES else None)
        elif it[0] == "ofs":
            _, bi, target = it
            bty, bdata = resolved[bi]
            d = make_delta(bdata, target)
            h = enc_objhdr(6, len(d)) + enc_ofs(off - b.offsets[bi])
            body += h + zlib.compress(d, level)
            resolved.append((bty, target))
        elif it[0] == "ref":
            _, bref, target = it
            if isinstance(bref, int):
                # forward references are allowed: the base is known from the spec
                bty, bdata = _spec_resolve(items, b.ext, bref)
            elif bref[0] == "ext":
                bty, bdata = b.ext[bref[1]]
            else:
                _, _raw, bty, bdata = bref
            d = make_delta(bdata, target)
            bname = bref[1] if (not isinstance(bref, int) and bref[0] == "name") else obj_name(bty, bdata)
            h = enc_objhdr(7, len(d)) + bname
            body += h + zlib.compress(d, level)
            resolved.append((bty, target))
        else:
            _, raw, ty, data = it
            h = b""
            body += raw
            resolved.append((ty, data) if ty is not None else None)
        b.struct_pos.update(range(off, off + len(h)))
    n = len(body)
    body += sha1(bytes(body)) if trailer is None else trailer
    b.struct_pos.update(range(n, len(body)))
    b.data = bytes(body)
    b.objects = [r for r in resolved if r is not None]
    return b


def blob_text(rng, n):
    words = [b"alpha", b"beta", b"gamma", b"delta", b"\n", b" ", b"x", b"lorem ipsum"]
    out = bytearray()
    while len(out) < n:
        out += rng.choice(words)
    return bytes(out[:n])


def sample_objects():
    blob = b"hello world\n"
    tree = b"100644 a.txt\0" + obj_name(3, blob)
    tree_id = obj_name(2, tree).hex().encode()
    commit = b"tree " + tree_id + b"\nauthor A U Thor <a@example.com> 1700000000 +0000\ncommitter A U Thor <a@example.com> 1700000000 +0000\n\nfirst\n"
    commit_id = obj_name(1, commit).hex().encode()
    tag = b"object " + commit_id + b"\ntype commit\ntag v1\ntagger A U Thor <a@example.com> 1700000000 +0000\n\nrelease\n"
    return blob, tree, commit, tag


def valid_packs(rng) -> list[Built]:
    """~30 small valid packs: full objects of every type, OFS and REF deltas (backward, forward, chains), thin packs."""
    blob, tree, commit, tag = sample_objects()
    b2 = blob + b"second line\n"
    b3 = b"header\n" + b2 + b"trailer\n"
    big = blob_text(rng, 300)
    big2 = big[:150] + b"EDIT" + big[150:]
    huge = blob_text(rng, 5000)
    extb = b"external base object\n" * 3
    exto = (3, extb)
    P = []
    P.append(build_pack("one-blob", [("full", 3, blob)]))
    P.append(build_pack("empty-blob", [("full", 3, b"")]))
    P.append(build_pack("zero-objects", []))
    P.append(build_pack("all-types", [("full", 3, blob), ("full", 2, tree), ("full", 1, commit), ("full", 4, tag)]))
    P.append(build_pack("v3-header", [("full", 3, blob)], version=3))
    P.append(build_pack("ofs-delta", [("full", 3, blob), ("ofs", 0, b2)]))
    P.append(build_pack("ref-delta-back", [("full", 3, blob), ("ref", 0, b2)]))
    P.append(build_pack("ref-delta-forward", [("ref", 1, b2), ("full", 3, blob)]))
    P.append(build_pack("ofs-chain-3", [("full", 3, blob), ("ofs", 0, b2), ("ofs", 1, b3), ("ofs", 2, b3 + b"!")]))
    P.append(build_pack("ref-chain", [("ref", 1, b3), ("ref", 2, b2), ("full", 3, blob)]))
    P.append(build_pack("mixed-chain", [("full", 3, blob), ("ref", 0, b2), ("ofs", 1, b3)]))
    P.append(build_pack("two-children", [("full", 3, blob), ("ofs", 0, b2), ("ofs", 0, b3), ("ref", 0, blob + b"x")]))
    P.append(build_pack("size-2byte-hdr", [("full", 3, big)]))
    P.append(build_pack("size-3byte-hdr", [("full", 3, huge)]))
    P.append(build_pack("ofs-2byte-offset", [("full", 3, big), ("full", 3, rng.randbytes(150)), ("ofs", 0, big2)]))
    P.append(build_pack("stored-block", [("full", 3, blob), ("ofs", 0, b2)], level=0))
    P.append(build_pack("thin-ref", [("ref", ("ext", 0), extb + b"changed\n")], ext=[exto]))
    P.append(build_pack("thin-chain", [("ref", ("ext", 0), extb + b"1\n"), ("ofs", 0, extb + b"1\n2\n"), ("full", 3, blob)], ext=[exto]))
    P.append(build_pack("thin-two-bases", [("ref", ("ext", 0), extb + b"a"), ("ref", ("ext", 1), blob + b"b")], ext=[exto, (3, blob)]))
    P.append(build_pack("tree-delta", [("full", 2, tree), ("ofs", 0, tree + b"100644 b.txt\0" + obj_name(3, b2)), ("full", 3, blob), ("full", 3, b2)]))
    P.append(build_pack("commit-delta", [("full", 1, commit), ("ref", 0, commit + b"more\n")]))
    P.append(build_pack("duplicate-object", [("full", 3, blob), ("full", 3, blob)]))
    P.append(build_pack("tag-only", [("full", 4, tag)]))
    P.append(build_pack("binary-blob", [("full", 3, bytes(range(256)))]))
    for i in range(6):
        n = rng.choice([1, 15, 16, 17, 100, 127, 128, 2047, 2048])
        base = blob_text(rng, n) if rng.random() < 0.7 else rng.randbytes(n)
        t1 = base[: len(base) // 2] + rng.randbytes(rng.choice([1, 3, 130])) + base[len(base) // 2:]
        items = [("full", 3, base)]
        items.append((rng.choice(["ofs", "ref"]), 0, t1))
        if rng.random() < 0.5:
            items.append((rng.choice(["ofs", "ref"]), 1, t1 + b"tail"))
        if rng.random() < 0.3:
            items.insert(0, ("ref", ("ext", 0), extb[:20] + rng.randbytes(5)))
            # indices shift by one
            items = [items[0]] + [(k, (a + 1 if k in ("ofs", "ref") else a), c) for (k, a, c) in items[1:]]
            P.append(build_pack(f"random-{i}", items, ext=[exto]))
        else:
            P.append(build_pack(f"random-{i}", items))
    return P


# ------------------------------------------------------------------------------------------------
# mutations

def mutants_of(b: bytes, struct_pos, rng, thorough: bool, flip_stride: int = 1):
    """(tag, mutant) for: every single-byte mutation at header/trailer positions (all 255 values in thorough,
    8 bit flips + boundary + random values in quick), 8 bit flips elsewhere, every truncation point, three tails."""
    L = len(b)
    for pos in range(L):
        if pos in struct_pos:
            if thorough:
                vals = [v for v in range(256) if v != b[pos]]
            else:
                vals = {b[pos] ^ (1 << i) for i in range(8)} | {0x00, 0x7F, 0x80, 0xFF, rng.randrange(256), rng.randrange(256)}
                vals.discard(b[pos])
                vals = sorted(vals)
            for v in vals:
                yield f"byte@struct", b[:pos] + bytes([v]) + b[pos + 1:]
        else:
            if flip_stride > 1 and (pos % flip_stride) != (L % flip_stride):
                continue
            for i in range(8):
                yield f"flip@body", b[:pos] + bytes([b[pos] ^ (1 << i)]) + b[pos + 1:]
    for cut in range(L):
        yield "trunc", b[:cut]
    yield "tail", b + b"\0"
    yield "tail", b + rng.randbytes(20)
    yield "tail", b + b[-20:] + b"PACK"


def zlib_table(data: bytes, start: int = 12, cap: int = 1 << 22):
    """For every position >= start at which the system zlib finds a complete stream: (pos, consumed, output).
    This is zlib's actual behaviour on this input - the instantiation of the model's `inflate` parameter."""
    out = []
    n = len(data)
    for p in range(start, n - 1):
        b0 = data[p]
        if (b0 & 0x0F) != 8 or ((b0 << 8) | data[p + 1]) % 31:
            continue
        d = zlib.decompressobj()
        try:
            o = d.decompress(data[p:], cap)
        except zlib.error:
            continue
        if d.eof:
            out.append((p, n - p - len(d.unused_data), o))
    return out


def ztbl_args(tbl) -> str:
    return "".join(f" {p}:{c}:{hx(o)}" for p, c, o in tbl)


# ------------------------------------------------------------------------------------------------
# worker-side adapters (run inside harness/worker.py children; real dulwich code)

FORMAT_EXC = {"AssertionError", "error", "TypeError", "ValueError", "IndexError", "ObjectFormatException", "AttributeError",
              "EOFError", "OverflowError", "EmptyFileException", "NotCommitError", "NotTreeError", "NotBlobError",
              "NotTagError", "MemoryError"}


def exc_class(e: BaseException) -> str:
    """exception -> the model's error enum (Basic.Err); anything unexpected keeps its own name"""
    n = type(e).__name__
    if n == "ChecksumMismatch":
        return "checksum"
    if n == "ApplyDeltaError":
        return "delta"
    if n in ("UnresolvedDeltas", "KeyError"):
        return "key"
    if n == "BufferError":
        return "masked"       # mmap.close() inside `with PackData(...)` replaces the in-flight error
    if n in FORMAT_EXC or n == "error" and type(e).__module__ in ("zlib", "struct"):
        return "format"
    return "exc:" + n


def _in_family(e: BaseException) -> bool:
    import socket
    import zlib as _z
    from dulwich.errors import ApplyDeltaError, ChecksumMismatch, ObjectFormatException
    fam = {"IOError": IOError, "OSError": OSError, "ChecksumMismatch": ChecksumMismatch, "ApplyDeltaError": ApplyDeltaError,
           "AssertionError": AssertionError, "socket.error": socket.error, "zlib.error": _z.error,
           "ObjectFormatException": ObjectFormatException}
    names = _FAMILY or list(fam)
    return isinstance(e, tuple(fam[n] for n in names if n in fam))


_FAMILY: list[str] = []


def _canon_unpacked(u) -> str:
    data = b"".join(u.decomp_chunks)
    h = hashlib.sha1(data).hexdigest()
    if u.pack_type_num == 6:
        return f"{u.offset}:o{u.delta_base}:{h}"
    if u.pack_type_num == 7:
        return f"{u.offset}:r{hx(u.delta_base)}:{h}"
    return f"{u.offset}:f{u.pack_type_num}:{h}"


def _parse_one(variant: str, data: bytes) -> str:
    import io
    from dulwich.object_format import SHA1
    from dulwich.pack import PackData, PackStreamReader
    try:
        if variant == "stream":
            r = PackStreamReader(hashlib.sha1, io.BytesIO(data).read)
            us = [_canon_unpacked(u) for u in r.read_objects()]
        else:
            pd = PackData.from_file(io.BytesIO(data), SHA1)
            try:
                us = []
                for u in pd.iter_unpacked():
                    us.append(_canon_unpacked(u))
            finally:
                pd.close()
        return " ".join([f"ok {len(us)}"] + us)
    except Exception as e:
        return "err " + exc_class(e)


def impl_parse_batch(a):
    return [_parse_one(a["variant"], unhx(m)) for m in a["mutants"]]


def _independent_id(obj) -> str:
    raw = obj.as_raw_string()
    return hashlib.sha1(obj.type_name + b" " + str(len(raw)).encode() + b"\0" + raw).hexdigest()


def _listing(root: str):
    out = []
    for r, ds, fs in os.walk(root):
        ds.sort()
        for f in sorted(fs):
            p = os.path.join(r, f)
            try:
                out.append((os.path.relpath(p, root), os.path.getsize(p)))
            except OSError:
                out.append((os.path.relpath(p, root), -1))
    return out


class _StoreUnderTest:
    """a disk or memory object store pre-populated with loose `pre` objects, re-created when it changed"""

    def __init__(self, kind: str, pre, scratch: str, pre_mode: str = "loose"):
        self.kind, self.pre, self.scratch, self.pre_mode = kind, pre, scratch, pre_mode
        self.store = None
        self.root = None
        self.n = 0

    def fresh(self):
        import shutil
        import tempfile
        from dulwich.object_store import DiskObjectStore, MemoryObjectStore
        from dulwich.objects import ShaFile
        self.close()
        if self.kind == "disk":
            if self.root:
                shutil.rmtree(self.root, ignore_errors=True)
            self.root = tempfile.mkdtemp(prefix="store", dir=self.scratch)
            self.store = DiskObjectStore.init(os.path.join(self.root, "objects"))
        else:
            self.store = MemoryObjectStore()
        if self.pre_mode == "packed" and self.kind == "disk" and self.pre:
            # the pre-existing objects live in an older pack
            self.store.add_objects([(ShaFile.from_raw_string(ty, data), None) for ty, data in self.pre])
        else:
            for ty, data in self.pre:
                self.store.add_object(ShaFile.from_raw_string(ty, data))
        self.before_ids = sorted(set(self.store))
        self.before_listing = _listing(self.root) if self.root else None

    def reopen(self):
        """a FRESH DiskObjectStore over the same directory (what another process sees)"""
        from dulwich.object_store import DiskObjectStore
        return DiskObjectStore(os.path.join(self.root, "objects"))

    def close(self):
        if self.store is not None:
            try:
                self.store.close()
            except Exception:
                pass
        self.store = None

    def destroy(self):
        import shutil
        self.close()
        if self.root:
            shutil.rmtree(self.root, ignore_errors=True)


def _do_ingest(store, path: str, data: bytes):
    """one ingestion path, used the way dulwich's own callers use it"""
    import io
    if path == "thin":
        f = io.BytesIO(data)
        store.add_thin_pack(f.read, None)
    elif path == "thin-recv":
        f = io.BytesIO(data)
        store.add_thin_pack(f.read, lambda n: f.read(min(n, 7)))       # a socket that returns small pieces
    elif path == "addpack":
        f, commit, abort = store.add_pack()
        try:
            f.write(data)
        except BaseException:
            abort()
            raise
        else:
            commit()
    elif path == "addpack-abort":
        f, commit, abort = store.add_pack()
        try:
            f.write(data[: len(data) // 2])
            raise ConnectionResetError("peer went away")           # what a dropped fetch looks like
        except BaseException:
            abort()
            raise
    elif path == "packdata":
        from dulwich.object_format import SHA1
        from dulwich.pack import PackData
        pd = PackData.from_file(io.BytesIO(data), SHA1)
        try:
            store.add_pack_data(len(pd), pd.iter_unpacked())
        finally:
            pd.close()
    else:
        raise RuntimeError("unknown path " + path)


def _check_objects(store, ids, bad, limit=200):
    """every object in the store hashes to the name it is stored under (independent recomputation)"""
    for i in ids[:limit]:
        try:
            o = store[i]
        except Exception as e:      # a visible id that cannot be read
            bad.append(f"unreadable {i.decode()}: {type(e).__name__}")
            continue
        if _independent_id(o) != i.decode() or o.id != i:
            bad.append(f"misnamed {i.decode()} content hashes to {_independent_id(o)}")


def _check_new_pack(base: str, bad: list, limit: int = 600):
    """an ACCEPTED pack is read back through that pack ALONE (no other pack, no loose object, no external resolver):
    every index entry by get_raw, iterobjects(), check()"""
    from dulwich.object_format import SHA1
    from dulwich.pack import Pack
    name = os.path.basename(base)[:17]
    p = Pack(base, object_format=SHA1)
    selfnamed = False
    try:
        n = 0
        for sha, _off, _crc in p.index.iterentries():
            n += 1
            if n > limit:
                break
            try:
                u = p.data.get_unpacked_object_at(_off)
                if u.pack_type_num == 7 and bytes(u.delta_base) == bytes(sha):
                    selfnamed = True        # a REF_DELTA stored under the very name it gives as its base
            except Exception:
                pass
            try:
                ty, raw = p.get_raw(sha)
                got = hashlib.sha1(TYPE_NAMES.get(ty, b"?") + b" " + str(len(raw)).encode() + b"\0" + raw).digest()
                if got != bytes(sha):
                    bad.append(f"not-self-contained: {name}.get_raw({bytes(sha).hex()[:12]}) hashes to {got.hex()[:12]}")
            except Exception as e:
                bad.append(f"not-self-contained: {name}.get_raw({bytes(sha).hex()[:12]}) raises {type(e).__name__}")
        try:
            m = sum(1 for _ in p.iterobjects())
            if m != len(p.index):
                bad.append(f"not-self-contained: {name}.iterobjects() yields {m} objects for {len(p.index)} index entries")
        except Exception as e:
            bad.append(f"not-self-contained: {name}.iterobjects() raises {type(e).__name__}")
        try:
            p.check()
        except Exception as e:
            # ObjectFormatException = ShaFile.check() finds the CONTENTS of an object malformed (e.g. a commit without a tree
            # that the lenient parser let in): the object still hashes to its name — well-formedness is property C01's, not
            # a question of whether the pack can be read on its own
            if type(e).__name__ != "ObjectFormatException":
                bad.append(f"not-self-contained: {name}.check() raises {type(e).__name__}: {str(e)[:80]}")
    finally:
        p.close()
    return selfnamed


def _ingest_one(sut: _StoreUnderTest, path: str, data: bytes, expect_ids) -> dict:
    import time
    import warnings
    warnings.simplefilter("ignore")
    if sut.store is None:
        sut.fresh()
    t0 = time.time()
    rep: dict = {}
    try:
        _do_ingest(sut.store, path, data)
        rep["res"] = "ok"
    except Exception as e:
        rep["res"] = "err " + exc_class(e)
        rep["exc"] = type(e).__name__
        rep["family"] = _in_family(e)
    except BaseException as e:          # PanicException, SystemExit, ...: NOT an ordinary error
        if isinstance(e, KeyboardInterrupt):
            raise
        rep["res"] = "base " + type(e).__name__
    rep["t"] = round(time.time() - t0, 3)
    bad: list[str] = []
    if rep["res"] != "ok":
        # the SAME store object, right after the failed call and before anything rescans the pack directory:
        # every id involved answers `in` and `[]` exactly as before the call
        stale = []
        for i in sorted(set(expect_ids) | {b.decode() for b in sut.before_ids}):
            ib = i.encode()
            was = ib in sut.before_ids
            try:
                now_in = ib in sut.store
            except Exception as e:
                stale.append(f"`{i[:12]} in store` raises {type(e).__name__}")
                continue
            try:
                o = sut.store[ib]
                readable = _independent_id(o) == i
            except KeyError:
                readable = False
            except Exception as e:
                readable = None
                if was:
                    stale.append(f"pre-existing {i[:12]} is no longer readable through the store that failed: {type(e).__name__}")
            if was and (not now_in or readable is False):
                stale.append(f"pre-existing {i[:12]}: in={now_in} readable={readable} after the failed call")
            if not was and (now_in or readable):
                stale.append(f"{i[:12]} of the REJECTED pack: in={now_in} readable={readable} through the store that failed")
        if stale:
            rep["stale"] = stale[:6]
    try:
        after = sorted(set(sut.store))
    except Exception as e:
        after = []
        bad.append(f"iteration of the store raises {type(e).__name__}")
    fresh_after = after
    listing = None
    if sut.kind == "disk":
        listing = _listing(sut.root)
        try:
            fs = sut.reopen()
            fresh_after = sorted(set(fs))
            if rep["res"] == "ok":
                _check_objects(fs, fresh_after, bad)
            fs.close()
        except Exception as e:
            bad.append(f"fresh DiskObjectStore over the directory raises {type(e).__name__}: {e}")
    rep["ids"] = [i.decode() for i in fresh_after]
    if rep["res"] == "ok" and listing is not None:
        for f, _sz in listing:
            if f.endswith(".pack") and (f, _sz) not in sut.before_listing and os.path.exists(os.path.join(sut.root, f[:-5] + ".idx")):
                if _check_new_pack(os.path.join(sut.root, f[:-5]), bad):
                    rep["selfnamed_ref_delta"] = True
    if rep["res"] == "ok":
        _check_objects(sut.store, after, bad)
        if after != fresh_after:
            bad.append("the ingesting store and a fresh store disagree on the set of ids")
    else:
        changed = []
        if after != sut.before_ids:
            changed.append("ids(same store): +" + ",".join(i.decode()[:12] for i in set(after) - set(sut.before_ids)) +
                           " -" + ",".join(i.decode()[:12] for i in set(sut.before_ids) - set(after)))
        if fresh_after != sut.before_ids:
            changed.append("ids(fresh store): +" + ",".join(i.decode()[:12] for i in set(fresh_after) - set(sut.before_ids)) +
                           " -" + ",".join(i.decode()[:12] for i in set(sut.before_ids) - set(fresh_after)))
        if set(sut.before_ids) - set(after) or set(sut.before_ids) - set(fresh_after):
            rep["prestate_lost"] = sorted(i.decode() for i in (set(sut.before_ids) - set(after)) | (set(sut.before_ids) - set(fresh_after)))
        for i in expect_ids:
            ib = i.encode()
            if ib not in sut.before_ids:
                try:
                    if ib in sut.store:
                        changed.append(f"`{i[:12]} in store` is now true")
                        break
                except Exception as e:
                    changed.append(f"`in` raises {type(e).__name__}")
                    break
        if listing is not None and listing != sut.before_listing:
            new = [p for p in listing if p not in sut.before_listing]
            gone = [p for p in sut.before_listing if p not in listing]
            rep["newfiles"] = [p for p, _ in new]
            rep["gonefiles"] = [p for p, _ in gone]
        if changed:
            rep["changed"] = changed
    if bad:
        rep["bad"] = bad[:5]
    # the next case needs a pristine store unless this one provably left it untouched
    if rep["res"] == "ok" or rep.get("changed") or rep.get("gonefiles") or rep.get("stale") or bad:
        sut.close()
    elif rep.get("newfiles"):
        # only stray files were left behind (reported by the caller): remove them and keep the store
        for f in rep["newfiles"]:
            try:
                os.remove(os.path.join(sut.root, f))
            except OSError:
                pass
        if _listing(sut.root) != sut.before_listing:
            sut.close()
    return rep


_SUT: dict = {}


def impl_ingest_batch(a):
    """a = {kind, path, pre: [[ty, hex]], mutants: [hex], expect: [hexid], scratch, family}"""
    global _FAMILY
    _FAMILY = a.get("family") or []
    key = (a["kind"], tuple(map(tuple, a["pre"])), a.get("pre_mode", "loose"))
    sut = _SUT.get(key)
    if sut is None:
        for s in _SUT.values():
            s.destroy()
        _SUT.clear()
        sut = _SUT[key] = _StoreUnderTest(a["kind"], [(ty, unhx(d)) for ty, d in a["pre"]], a["scratch"], a.get("pre_mode", "loose"))
    out = []
    for m in a["mutants"]:
        out.append(_ingest_one(sut, a["path"], unhx(m), a.get("expect", [])))
    return out


class _Wire:
    """a peer: `prefix`, then `unit` repeated for ever (EOF only after `hard` bytes); counts the bytes it hands out"""

    def __init__(self, prefix: bytes, unit: bytes, hard: int):
        self.prefix, self.unit, self.hard = prefix, unit, hard
        self.handed = 0
        self.calls = 0

    def _take(self, n: int) -> bytes:
        n = max(0, min(n, self.hard - self.handed))
        if n == 0:
            return b""
        start = self.handed
        out = bytearray()
        if start < len(self.prefix):
            out += self.prefix[start:start + n]
        if len(out) < n and self.unit:
            pos = start + len(out) - len(self.prefix)
            need = n - len(out)
            u = self.unit
            rep = u * (need // len(u) + 2)
            k = pos % len(u)
            out += rep[k:k + need]
        self.handed += len(out)
        self.calls += 1
        return bytes(out)

    def read(self, n: int) -> bytes:      # read_all
        return self._take(n)

    def recv(self, n: int) -> bytes:      # read_some
        return self._take(n)


def _capped_wire(attack: str, cap: int):
    """(prefix, unit): packs that only an INPUT cap can stop"""
    hdr1 = b"PACK" + struct.pack(">LL", 2, 1)
    empty_stored = b"\x00\x00\x00\xff\xff"            # non-final stored deflate block of length 0: input, no output
    if attack == "endless-empty-stored-blocks":
        return hdr1 + enc_objhdr(3, 10) + b"\x78\x01", empty_stored
    if attack == "endless-stream-in-ref-delta":
        return hdr1 + enc_objhdr(7, 10) + b"\x11" * 20 + b"\x78\x01", empty_stored
    if attack == "endless-stream-after-valid-entry":
        return b"PACK" + struct.pack(">LL", 2, 2) + raw_entry(3, b"hello world\n") + enc_objhdr(3, 10) + b"\x78\x01", empty_stored
    if attack == "endless-tiny-entries":
        return b"PACK" + struct.pack(">LL", 2, 2 ** 32 - 1), b"\x30" + zlib.compress(b"")
    if attack == "valid-pack-larger-than-cap":
        import random
        body = hdr1 + raw_entry(3, random.Random(1).randbytes(3 * cap), level=0)
        return body + sha1(body), b""
    if attack == "valid-pack-below-cap":
        body = hdr1 + raw_entry(3, b"hello world\n")
        return body + sha1(body), b""
    raise RuntimeError(attack)


def impl_capped(a):
    """a pack that never ends against `max_input_size` / receive.maxInputSize, with SEPARATE read_all and read_some"""
    import shutil
    import tempfile
    import time
    import warnings
    warnings.simplefilter("ignore")
    from dulwich.object_store import DiskObjectStore, MemoryObjectStore
    cap, hard = a["cap"], a["hard"]
    prefix, unit = _capped_wire(a["attack"], cap)
    root = tempfile.mkdtemp(prefix="cap", dir=a["scratch"])
    rep: dict = {}
    try:
        if a["mode"] == "direct":
            store = DiskObjectStore.init(os.path.join(root, "objects")) if a["kind"] == "disk" else MemoryObjectStore()
            before = _listing(root)
            wire = _Wire(prefix, unit, hard)
            t0 = time.time()
            try:
                if a["kind"] == "disk":
                    store.add_thin_pack(wire.read, wire.recv, max_input_size=cap)
                else:
                    store.add_thin_pack(wire.read, wire.recv)     # the memory store has no cap: bounded by the wire only
                rep["res"] = "ok"
            except Exception as e:
                rep["res"] = "err " + exc_class(e)
                rep["exc"] = type(e).__name__
            except BaseException as e:
                rep["res"] = "base " + type(e).__name__
            rep["t"] = round(time.time() - t0, 3)
            rep["ids"] = len(set(store))
            rep["newfiles"] = [p for p, _ in _listing(root) if (p, _) not in before]
            store.close()
        else:
            from dulwich.protocol import ReceivableProtocol, pkt_line
            from dulwich.repo import Repo
            from dulwich.server import DictBackend, ReceivePackHandler
            repo = Repo.init_bare(os.path.join(root, "repo.git"), mkdir=True)
            cfg = repo.get_config()
            cfg.set((b"receive",), b"maxInputSize", str(cap).encode())
            cfg.write_to_path()
            repo.close()
            repo = Repo(os.path.join(root, "repo.git"))
            before = _listing(os.path.join(root, "repo.git", "objects"))
            cmds = pkt_line(b"0" * 40 + b" " + b"1" * 40 + b" refs/heads/x\x00report-status\n") + b"0000"
            wire = _Wire(cmds + prefix, unit, hard + len(cmds))
            outbuf = bytearray()
            proto = ReceivableProtocol(wire.recv, lambda d: outbuf.extend(d) or len(d))
            handler = ReceivePackHandler(DictBackend({b"/": repo}), [b"/"], proto, stateless_rpc=True)
            t0 = time.time()
            try:
                handler.handle()
                rep["res"] = "ok"
            except Exception as e:
                rep["res"] = "err " + exc_class(e)
                rep["exc"] = type(e).__name__
            except BaseException as e:
                rep["res"] = "base " + type(e).__name__
            rep["t"] = round(time.time() - t0, 3)
            rep["reply"] = bytes(outbuf)[:300].decode("latin1")
            rep["ids"] = len(set(repo.object_store))
            rep["refs"] = sorted(k.decode("latin1") for k in repo.get_refs())
            rep["newfiles"] = [p for p, _ in _listing(os.path.join(root, "repo.git", "objects")) if (p, _) not in before]
            rep["cmd_bytes"] = len(cmds)
            repo.close()
        rep["handed"] = wire.handed
        rep["calls"] = wire.calls
    finally:
        shutil.rmtree(root, ignore_errors=True)
    return rep


def impl_rss(a):
    import resource
    return resource.getrusage(resource.RUSAGE_SELF).ru_maxrss


def impl_bomb(a):
    """ingest a pack whose single entry declares `declared` bytes but inflates to `mb` MiB; report time and peak RSS growth"""
    import resource
    import time
    mb, declared = a["mb"], a["declared"]
    co = zlib.compressobj(9)
    z = bytearray()
    chunk = b"\0" * (1 << 20)
    for _ in range(mb):
        z += co.compress(chunk)
    z += co.flush()
    body = b"PACK" + struct.pack(">LL", 2, 1) + enc_objhdr(3, declared) + bytes(z)
    data = body + sha1(body)
    del z, body
    sut = _StoreUnderTest(a["kind"], [], a["scratch"])
    r0 = resource.getrusage(resource.RUSAGE_SELF).ru_maxrss
    if a["path"] == "reader":
        t0 = time.time()
        res = _parse_one("stream", data)[:20]
        rep = {"res": res, "t": round(time.time() - t0, 3)}
    elif a["path"] == "loose":
        import tempfile
        from dulwich.objects import ShaFile
        d = tempfile.mkdtemp(dir=a["scratch"])
        p = os.path.join(d, "obj")
        co = zlib.compressobj(9)
        z = bytearray(co.compress(b"blob 10\0"))
        for _ in range(mb):
            z += co.compress(chunk)
        z += co.flush()
        with open(p, "wb") as f:
            f.write(z)
        del z
        r0 = resource.getrusage(resource.RUSAGE_SELF).ru_maxrss
        t0 = time.time()
        try:
            ShaFile.from_path(p, max_size=a.get("limit", 1 << 20))
            rep = {"res": "ok"}
        except Exception as e:
            rep = {"res": "err " + exc_class(e), "exc": type(e).__name__}
        rep["t"] = round(time.time() - t0, 3)
    else:
        rep = _ingest_one(sut, a["path"], data, [])
    rep["rss_growth_kb"] = resource.getrusage(resource.RUSAGE_SELF).ru_maxrss - r0
    rep["input_kb"] = len(data) // 1024
    sut.destroy()
    return rep


# ------------------------------------------------------------------------------------------------
# harness side: batching with crash isolation

def _ask_batched(w: core.Worker, op: str, args: dict, mutants: list[bytes], chunk: int = 100, one_timeout: float = 8.0):
    """Run `op` over `mutants` in chunks; when a chunk kills the child, times out or raises at top level, its members
    are re-run one at a time (timeout `one_timeout`) so that the culprit is isolated.  Returns one reply per mutant:
    the adapter's result, or {"crash": ...} / {"exc": ..., "base": ...}."""
    out = []
    for s in range(0, len(mutants), chunk):
        part = mutants[s:s + chunk]
        rep = w.ask({"mod": MOD, "op": op, "args": dict(args, mutants=[hx(m) for m in part])},
                    timeout=one_timeout + 0.05 * len(part))
        if "r" in rep and len(rep["r"]) == len(part):
            out.extend(rep["r"])
            continue
        for m in part:
            r1 = w.ask({"mod": MOD, "op": op, "args": dict(args, mutants=[hx(m)])}, timeout=one_timeout)
            if "r" in r1 and len(r1["r"]) == 1:
                out.append(r1["r"][0])
            else:
                out.append(r1)
    return out


def _be32(b: bytes) -> int:
    return struct.unpack(">L", b)[0] if len(b) == 4 else -1


KIND_OF_CRASH = {"timeout": "nonterminating"}


def _process_failure(ctx, stream, case, rep, what_prefix, cls_prefix) -> bool:
    """timeouts, crashes and BaseExceptions are violations whatever the input; returns True when reported"""
    if isinstance(rep, dict) and "crash" in rep:
        c = rep["crash"]
        ctx.oracle_fail(stream, case, f"{what_prefix}: child {('did not finish within the time limit' if c == 'timeout' else 'died: ' + str(c))}",
                        f"{cls_prefix}:{'nonterminating' if c == 'timeout' else 'crash'}")
        return True
    if isinstance(rep, dict) and "exc" in rep and "res" not in rep:
        ctx.oracle_fail(stream, case, f"{what_prefix}: raised {rep['exc']} outside the ordinary-exception family "
                        f"(BaseException={rep.get('base')}): {rep.get('msg')}", f"{cls_prefix}:{rep['exc']}")
        return True
    return False


# ------------------------------------------------------------------------------------------------
# stream 1: framing — model parser vs PackStreamReader / PackData on every mutant (+ trailer oracle)

def _trailer_ok(m: bytes) -> bool:
    """independent statement of what an accepted STREAM must satisfy: the 20 bytes after the data read from the wire
    are the SHA-1 of everything before them (whole input once an object was read; header+20 for an empty pack)"""
    if len(m) < 32:
        return False
    consumed = m[:32] if _be32(m[8:12]) == 0 else m
    return sha1(consumed[:-20]) == consumed[-20:]


def _stream_parse(ctx, w, label, cases, stream="parse"):
    """cases: list of (tag, bytes).  Both framing readers against the model; oracle: termination, ordinary errors,
    an accepted stream has a correct trailer."""
    seen = set()
    uniq = []
    for tag, m in cases:
        if m not in seen:
            seen.add(m)
            uniq.append((tag, m))
    tbls = [ztbl_args(zlib_table(m)) for _, m in uniq]
    lines = [f"c04.parse stream {hx(m)}{t}" for (_, m), t in zip(uniq, tbls)] + \
            [f"c04.parse data {hx(m)}{t}" for (_, m), t in zip(uniq, tbls)]
    outs = ctx.driver.batch(lines)
    n = len(uniq)
    for vi, variant in enumerate(("stream", "data")):
        reps = _ask_batched(w, "parse_batch", {"variant": variant}, [m for _, m in uniq], chunk=400)
        for i, ((tag, m), rep) in enumerate(zip(uniq, reps)):
            model = outs[vi * n + i]
            case = {"pack": label, "mutation": tag, "reader": variant, "input": hx(m)}
            if _process_failure(ctx, stream, case, rep, f"{variant} reader on a damaged pack", f"reader-{variant}"):
                continue
            cls = rep.split(" ")[0] + (":" + rep.split(" ")[1] if rep.startswith("err") else "")
            ctx.count(stream, (variant, m), True, f"{variant}:{tag}:{cls}")
            if rep.startswith("err exc:"):
                # an exception class the translator table does not know: still an ordinary Exception, but untied
                ctx.disagree(stream, case, model[:200], rep[:200], variant)
                continue
            if rep != model:
                ctx.disagree(stream, case, model[:300], rep[:300], variant)
            if variant == "stream" and rep.startswith("ok") and not _trailer_ok(m):
                ctx.oracle_fail(stream, case, "PackStreamReader accepted a stream whose trailer is not the SHA-1 of the data read",
                                "stream-accepted-bad-trailer")
    return uniq


# ------------------------------------------------------------------------------------------------
# stream 2: ingestion paths x store kinds — direct oracle + logical model

TMP_PATTERNS = ("objects/tmp_pack_", "objects/pack/tmp")
COMBOS = [("disk", "thin"), ("disk", "addpack"), ("mem", "thin"), ("mem", "addpack"), ("disk", "packdata"), ("mem", "packdata")]
MODELLED = {("disk", "thin"), ("disk", "addpack"), ("mem", "thin"), ("mem", "addpack")}
_valid_cache: dict = {}


def _object_valid(ty: int, data: bytes) -> bool:
    """dulwich's own object parser (objects.py, property C01) — the model's `valid` parameter"""
    key = (ty, data)
    if key not in _valid_cache:
        from dulwich.objects import ShaFile
        try:
            ShaFile.from_raw_string(ty, data)
            _valid_cache[key] = True
        except Exception:
            _valid_cache[key] = False
    return _valid_cache[key]


def _model_ingest(ctx, kind, path, pre, muts, tbls):
    """model answers `status names=...` for each mutant, with the two-pass instantiation of `valid`"""
    # third field: zlib.compress at the level dulwich's stores use (-1): the model's `deflate` parameter
    store = ",".join(f"{ty}:{hx(d)}:{hx(zlib.compress(d, -1))}" for ty, d in pre) or "-"
    mpath = "thin" if path.startswith("thin") else "addpack"
    if kind == "disk":
        # round 1: the file the model says `_complete_pack` installs; round 2 gets zlib's behaviour on it as a second table
        finals = ctx.driver.batch([f"c04.final {mpath} {hx(m)} {store}{t}" for m, t in zip(muts, tbls)])
        tbls = [t + " |" + (ztbl_args(zlib_table(unhx(f[6:]))) if f.startswith("final ") else "") for f, t in zip(finals, tbls)]
    lines = [f"c04.ingest {kind} {mpath} {hx(m)} {store} -{t}" for m, t in zip(muts, tbls)]
    outs = ctx.driver.batch(lines)
    redo = []
    for i, o in enumerate(outs):
        ys = o.rsplit(" yields=", 1)[1] if " yields=" in o else "-"
        inv = []
        if ys != "-":
            for y in ys.split(","):
                parts = y.split(":")
                if len(parts) == 3 and not _object_valid(int(parts[0]), unhx(parts[2])):
                    inv.append(parts[1])
        if inv:
            redo.append((i, inv))
    # an object rejected by the content parser stops the walk, which may hide later yields: iterate to a fixed point
    rounds = 0
    while redo and rounds < 4:
        rounds += 1
        lines2 = [f"c04.ingest {kind} {mpath} {hx(muts[i])} {store} {','.join(inv)}{tbls[i]}" for i, inv in redo]
        outs2 = ctx.driver.batch(lines2)
        nxt = []
        for (i, inv), o in zip(redo, outs2):
            outs[i] = o
            ys = o.rsplit(" yields=", 1)[1]
            more = []
            if ys != "-":
                for y in ys.split(","):
                    parts = y.split(":")
                    if len(parts) == 3 and parts[1] not in inv and not _object_valid(int(parts[0]), unhx(parts[2])):
                        more.append(parts[1])
            if more:
                nxt.append((i, inv + more))
        redo = nxt
    return [o.rsplit(" yields=", 1)[0] for o in outs]


def _classify_ingest(ctx, stream, case, kind, path, rep, m, pack_ids):
    """the property's words on one real ingest.  Returns the canonical `status names=` string or None."""
    if _process_failure(ctx, stream, case, rep, f"{kind}/{path} ingest", f"ingest-{kind}-{path}"):
        return None
    res = rep["res"]
    if res.startswith("base "):
        ctx.oracle_fail(stream, case, f"ingest raised {res[5:]}, not an ordinary Exception", f"ingest-baseexception:{res[5:]}")
        return None
    if rep.get("t", 0) > 5.0:
        ctx.oracle_fail(stream, case, f"ingest of a {len(m)}-byte input took {rep['t']} s", "ingest-slow")
    for b in rep.get("bad", []):
        if rep.get("selfnamed_ref_delta") and "UnresolvedDeltas" in b and (b.startswith("unreadable ") or ".get_raw(" in b):
            cls = "accepted-pack-ref-delta-named-like-its-base"
        elif b.startswith("not-self-contained"):
            cls = "accepted-pack-not-self-contained:" + ("get_raw" if ".get_raw(" in b else "iterobjects" if ".iterobjects(" in b else "check")
        else:
            cls = f"store-inconsistent:{b.split(' ')[0]}"
        ctx.oracle_fail(stream, dict(case, detail=b), "after the ingest the store holds an object that does not hash to its name / "
                        "cannot be read / the accepted pack cannot be read on its own: " + b, cls)
    if res != "ok" and rep.get("stale"):
        ctx.oracle_fail(stream, dict(case, stale=rep["stale"], exc=rep.get("exc")),
                        f"after the FAILED ingest ({rep.get('exc')}) the SAME store object answers differently than before the call "
                        f"(before any rescan of the pack directory): {rep['stale']}", f"failed-ingest-stale-store-object:{kind}")
    if res != "ok":
        new = rep.get("newfiles", [])
        installed = sorted(f.rsplit(".", 1)[-1] for f in new) == ["idx", "pack"] and all(f.startswith("objects/pack/pack-") for f in new)
        if rep.get("changed"):
            only_partial = kind == "mem" and all(c.startswith("ids(") or " in store` is now true" in c for c in rep["changed"])
            if rep.get("prestate_lost"):
                cls = f"failed-ingest-removed-prestate-object:{kind}"
            elif only_partial:
                cls = "memory-store-partial-ingest-visible"
            elif kind == "disk" and rep.get("exc") == "BufferError" and installed and not rep.get("gonefiles"):
                cls = "disk-validation-rollback-skipped-by-BufferError"
            else:
                cls = f"failed-ingest-visible:{kind}-{path}"
            ctx.oracle_fail(stream, dict(case, changed=rep["changed"], exc=rep.get("exc"), newfiles=new, prestate_lost=rep.get("prestate_lost")),
                            (f"FAILED ingest ({rep.get('exc')}) REMOVED objects the store held before: {rep.get('prestate_lost')} ({rep['changed']})"
                             if rep.get("prestate_lost") else
                             f"FAILED ingest ({rep.get('exc')}) left new objects visible: {rep['changed']} files {new}"), cls)
        if new or rep.get("gonefiles"):
            if kind == "disk" and rep.get("exc") == "BufferError" and installed and not rep.get("gonefiles") and rep.get("changed"):
                pass    # reported just above (same defect: the rollback was skipped)
            elif not rep.get("gonefiles") and all(f.startswith(TMP_PATTERNS) for f in new):
                # the two known leftovers are exactly ONE temp file at the place the path creates it
                if path.startswith("thin") and len(new) == 1 and new[0].startswith(TMP_PATTERNS[0]):
                    cls = "failed-thin-pack-leaves-tmp_pack-file"
                elif path == "addpack" and len(new) == 1 and new[0].startswith(TMP_PATTERNS[1]) and new[0].endswith(".pack"):
                    cls = "failed-commit-leaves-tmp-pack-file"
                else:
                    cls = f"failed-ingest-leaves-tmp:{path}"
                ctx.oracle_fail(stream, dict(case, newfiles=new, exc=rep.get("exc")),
                                f"FAILED ingest ({rep.get('exc')}) left files behind in the object directory: {new}", cls)
            else:
                cls = f"failed-ingest-changes-directory:{kind}-{path}"
                ctx.oracle_fail(stream, dict(case, newfiles=new, gonefiles=rep.get("gonefiles"), exc=rep.get("exc")),
                                f"FAILED ingest ({rep.get('exc')}) changed the object directory: new {new} gone {rep.get('gonefiles')}", cls)
    names = ",".join(sorted(rep.get("ids", []))) or "-"
    return f"{res} names={names}"


def _stream_ingest(ctx, w, label, pre, cases, pack_ids, combos=COMBOS, stream="ingest", pre_mode="loose"):
    """cases: (tag, bytes).  Every combo: real ingest in the child (oracle), and for the modelled combos the logical model."""
    muts = [m for _, m in cases]
    tbls = None
    for kind, path in combos:
        args = {"kind": kind, "path": path, "pre": [[ty, hx(d)] for ty, d in pre], "expect": pack_ids, "pre_mode": pre_mode,
                "scratch": str(ctx.scratch), "family": ctx.extra_cov.get("apply_pack_family", [])}
        reps = _ask_batched(w, "ingest_batch", args, muts, chunk=100)
        model = None
        if (kind, path) in MODELLED:
            if tbls is None:
                tbls = [ztbl_args(zlib_table(m)) for m in muts]
            model = _model_ingest(ctx, kind, path, pre, muts, tbls)
        for i, ((tag, m), rep) in enumerate(zip(cases, reps)):
            case = {"pack": label, "mutation": tag, "store": kind, "path": path, "input": hx(m),
                    "pre": [[ty, hx(d)] for ty, d in pre], "pre_mode": pre_mode, "expect": pack_ids}
            canon = _classify_ingest(ctx, stream, case, kind, path, rep, m, pack_ids)
            if canon is None:
                continue
            res = rep["res"]
            ctx.count(stream, (kind, path, m), True, f"{kind}/{path}:{tag}:{res}")
            if res != "ok":
                fam = ctx.extra_cov.setdefault("exceptions_seen", {})
                key = f"{rep.get('exc')}{'' if rep.get('family') else ' (outside _apply_pack family)'}"
                fam[key] = fam.get(key, 0) + 1
            if model is not None:
                mo = model[i]
                a, b = canon, mo
                if res == "err masked":   # BufferError replaced the real error: compare ok/err and the store only
                    a = "err * " + canon.split(" ", 2)[2]
                    b = ("err * " + mo.split(" ", 2)[2]) if mo.startswith("err ") else mo
                elif mo.startswith("err other "):
                    b = "err masked " + mo.split(" ", 2)[2]
                if res.startswith("err exc:") or a != b:
                    ctx.disagree(stream, case, mo[:300], canon[:300], f"{kind}/{path}")


# ------------------------------------------------------------------------------------------------
# grammar-aware attacks (one constructor per item of the property's quantifier)

def raw_entry(ty: int, payload: bytes, size=None, base: bytes = b"", level=6) -> bytes:
    """entry with an arbitrary declared size / base field"""
    return enc_objhdr(ty, len(payload) if size is None else size) + base + zlib.compress(payload, level)


def attacks(rng):
    """(tag, bytes, pre) — every pack has a CORRECT trailer unless the trailer is the attack, so each path reaches it"""
    blob = b"hello world\n"
    b2 = blob + b"second line\n"
    tree_bad = b"1x0644 a\0" + b"\x22" * 20
    extb = b"external base object\n" * 3
    d12 = make_delta(blob, b2)
    A = []

    def add(tag, built, pre=(), mode="loose"):
        ids = [obj_name(ty, d).hex() for ty, d in built.objects if ty in TYPE_NAMES] if isinstance(built, Built) else []
        A.append((tag, built.data if isinstance(built, Built) else built, list(pre), ids, mode))
    two = [("full", 3, blob), ("ofs", 0, b2)]
    # object count too high / too low
    for tag, c in (("count+1", 3), ("count-1", 1), ("count=0-with-entries", 0), ("count=2^32-1", 2 ** 32 - 1), ("count+1000", 1002)):
        add("count:" + tag, build_pack("a", two, count=c))
    # wrong trailer
    add("trailer:zeros", build_pack("a", two, trailer=b"\0" * 20))
    add("trailer:random", build_pack("a", two, trailer=rng.randbytes(20)))
    add("trailer:short", build_pack("a", two, trailer=b"\x01\x02\x03"))
    add("trailer:missing", build_pack("a", two, trailer=b""))
    # OFS offsets
    first = raw_entry(3, blob)
    off2 = 12 + len(first)
    for tag, k in (("zero", None), ("beyond-start", off2 + 5), ("into-header", off2 - 3), ("into-middle", len(first) - 1),
                   ("huge", 2 ** 40), ("exact", len(first))):
        ofs_bytes = b"\x00" if k is None else enc_ofs(k)
        add("ofs:" + tag, build_pack("a", [("raw", first, 3, blob), ("raw", raw_entry(6, d12, base=ofs_bytes), None, None)]))
    add("ofs:zero-first-entry", build_pack("a", [("raw", raw_entry(6, d12, base=b"\x00"), None, None)]))
    add("ofs:overlong-zero", build_pack("a", [("raw", first, 3, blob), ("raw", raw_entry(6, d12, base=b"\x80\x00"), None, None)]))
    # REF deltas: missing / cyclic / self
    nA, nB = b"\xaa" * 20, b"\xbb" * 20
    add("ref:missing", build_pack("a", [("full", 3, blob), ("raw", raw_entry(7, d12, base=b"\x11" * 20), None, None)]))
    add("ref:missing-only", build_pack("a", [("raw", raw_entry(7, d12, base=b"\x11" * 20), None, None)]))
    add("ref:cycle-2", build_pack("a", [("raw", raw_entry(7, d12, base=nB), None, None), ("raw", raw_entry(7, d12, base=nA), None, None)]))
    ident = make_delta(b2, b2)
    add("ref:self", build_pack("a", [("raw", raw_entry(7, ident, base=obj_name(3, b2)), None, None)]))
    add("ref:self-after-full", build_pack("a", [("full", 3, blob), ("raw", raw_entry(7, ident, base=obj_name(3, b2)), None, None)]))
    add("ref:ofs-ref-cycle", build_pack("a", [("raw", raw_entry(7, d12, base=nA), None, None),
                                               ("raw", raw_entry(6, d12, base=enc_ofs(len(raw_entry(7, d12, base=nA)))), None, None)]))
    add("ref:thin-base-missing", build_pack("a", [("ref", ("ext", 0), extb + b"x")], ext=[(3, extb)]), pre=[])
    # REF delta whose base is an object X the store already has and whose RESULT is X itself ("REF delta to self" with the
    # base outside the pack), next to a new object Y: the completed pack must carry X as a full object too, or its entry
    # for X needs X to be resolved.  X loose / X in an older pack.
    ident_x = make_delta(extb, extb)
    for mode in ("loose", "packed"):
        add("ref:self-via-external-base", build_pack("a", [("raw", raw_entry(7, ident_x, base=obj_name(3, extb)), 3, extb), ("full", 3, b2)]),
            pre=[(3, extb)], mode=mode)
        add("ref:self-via-external-base-last", build_pack("a", [("full", 3, b2), ("raw", raw_entry(7, ident_x, base=obj_name(3, extb)), 3, extb)]),
            pre=[(3, extb)], mode=mode)
        add("ref:self-via-external-base-then-child", build_pack("a", [("raw", raw_entry(7, ident_x, base=obj_name(3, extb)), 3, extb),
                                                                       ("ofs", 0, extb + b"child\n")]), pre=[(3, extb)], mode=mode)
        add("ref:thin-base-present", build_pack("a", [("full", 3, blob), ("ref", ("ext", 0), extb + b"x")], ext=[(3, extb)]), pre=[(3, extb)], mode=mode)
        # longer circle through the external base: X -> Y and Y -> X
        ybig = extb + b"more\n"
        add("ref:circle-via-external-base", build_pack("a", [("raw", raw_entry(7, make_delta(extb, ybig), base=obj_name(3, extb)), 3, ybig),
                                                              ("raw", raw_entry(7, make_delta(ybig, extb), base=obj_name(3, ybig)), 3, extb)]),
            pre=[(3, extb)], mode=mode)
    # the same circle of names inside one self-contained pack (every name has a full entry AND a delta entry)
    ybig = extb + b"more\n"
    add("ref:circle-of-names-in-pack", build_pack("a", [("full", 3, extb), ("full", 3, ybig),
                                                        ("raw", raw_entry(7, make_delta(ybig, extb), base=obj_name(3, ybig)), 3, extb),
                                                        ("raw", raw_entry(7, make_delta(extb, ybig), base=obj_name(3, extb)), 3, ybig)]))
    add("ofs:identity-delta", build_pack("a", [("full", 3, blob), ("ofs", 0, blob)]))
    # packs that pass the trailer check, are refused later, and CONTAIN COPIES of objects the store already holds (before and after
    # the offending entry, as full objects and as deltas resolving to existing ids): the refusal must leave the pre-state EXACTLY
    wpre = b"a second object the store holds\n"
    zfull = extb + b"basis of a delta\n"
    offenders = {"unresolved": ("raw", raw_entry(7, d12, base=b"\x11" * 20), None, None),
                 "garbage-tree": ("full", 2, tree_bad),
                 "bad-delta": ("raw", raw_entry(7, enc_varint(99) + make_delta(zfull, wpre)[1:], base=obj_name(3, zfull)), None, None)}
    for oname, off_item in offenders.items():
        add(f"prestate:copies-around-{oname}", build_pack("a", [("full", 3, extb), ("full", 3, zfull), ("ofs", 1, wpre), off_item, ("full", 3, wpre), ("full", 3, extb)]),
            pre=[(3, extb), (3, wpre)])
        add(f"prestate:copies-before-{oname}", build_pack("a", [("full", 3, wpre), ("full", 3, zfull), ("ref", 1, extb), off_item]), pre=[(3, extb), (3, wpre)])
        add(f"prestate:copies-after-{oname}", build_pack("a", [off_item, ("full", 3, zfull), ("ofs", 1, extb), ("full", 3, wpre)]), pre=[(3, extb), (3, wpre)])
    add("ref:thin-then-missing", build_pack("a", [("ref", ("ext", 0), extb + b"x"), ("raw", raw_entry(7, d12, base=b"\x11" * 20), None, None)],
                                            ext=[(3, extb)]), pre=[(3, extb)])
    # zlib: trailing garbage, over-long output, size header disagreeing with payload
    add("zlib:garbage-between-entries", build_pack("a", [("raw", first + b"JUNK", 3, blob), ("full", 3, b2)]))
    add("zlib:garbage-before-trailer", build_pack("a", [("raw", first + b"\0" * 7, 3, blob)]))
    for tag, sz in (("size+1", len(blob) + 1), ("size-1", len(blob) - 1), ("size=0", 0), ("size=2^40", 2 ** 40), ("size+16", len(blob) + 16)):
        add("zlib:" + tag, build_pack("a", [("raw", raw_entry(3, blob, size=sz), None, None), ("full", 3, b2)]))
    add("zlib:overlong-size-varint", build_pack("a", [("raw", enc_objhdr(3, len(blob), pad=40) + zlib.compress(blob), 3, blob)]))
    add("zlib:delta-size-mismatch", build_pack("a", [("raw", first, 3, blob), ("raw", raw_entry(6, d12, size=len(d12) + 1, base=enc_ofs(len(first))), None, None)]))
    add("zlib:truncated-stream", build_pack("a", [("raw", first[:-3], None, None)]))
    add("zlib:stream-ends-at-eof", build_pack("a", [("raw", first, 3, blob)], trailer=b""))
    add("zlib:preset-dictionary", build_pack("a", [("raw", enc_objhdr(3, 5) + b"\x78\xbb\x00\x00\x00\x01" + zlib.compress(b"hello")[2:], None, None)]))
    add("zlib:two-streams", build_pack("a", [("raw", first + zlib.compress(b"again"), 3, blob)]))
    # type numbers 0 and 5
    add("type:0", build_pack("a", [("raw", raw_entry(0, blob), None, None)]))
    add("type:5", build_pack("a", [("full", 3, blob), ("raw", raw_entry(5, blob), None, None)]))
    # hostile deltas
    add("delta:bad-src-size", build_pack("a", [("raw", first, 3, blob), ("raw", raw_entry(6, enc_varint(99) + d12[1:], base=enc_ofs(len(first))), None, None)]))
    add("delta:truncated", build_pack("a", [("raw", first, 3, blob), ("raw", raw_entry(6, d12[:-2], base=enc_ofs(len(first))), None, None)]))
    add("delta:copy-out-of-range", build_pack("a", [("raw", first, 3, blob), ("raw", raw_entry(6, enc_varint(len(blob)) + enc_varint(5) + bytes([0x91, 200, 5]),
                                                                                             base=enc_ofs(len(first))), None, None)]))
    add("delta:empty-header", build_pack("a", [("raw", first, 3, blob), ("raw", raw_entry(6, b"", base=enc_ofs(len(first))), None, None)]))
    add("delta:huge-dest", build_pack("a", [("raw", first, 3, blob), ("raw", raw_entry(6, enc_varint(len(blob)) + enc_varint(2 ** 45) + bytes([0x90, 5]),
                                                                                       base=enc_ofs(len(first))), None, None)]))
    tfirst = raw_entry(2, b"100644 a\0" + obj_name(3, blob))
    add("delta:empty-tree", build_pack("a", [("raw", tfirst, 2, b""), ("raw", raw_entry(6, enc_varint(29) + enc_varint(0), base=enc_ofs(len(tfirst))), None, None)]))
    add("delta:empty-blob-ok", build_pack("a", [("raw", first, 3, blob), ("raw", raw_entry(6, enc_varint(len(blob)) + enc_varint(0), base=enc_ofs(len(first))), 3, b"")]))
    # objects the content parser rejects (validation after install)
    add("content:tree-garbage-mode", build_pack("a", [("full", 3, blob), ("full", 2, tree_bad)]))
    add("content:commit-garbage", build_pack("a", [("full", 3, blob), ("full", 1, b"tree zzzz\n\x00\xff")]))
    add("content:tree-via-delta", build_pack("a", [("full", 2, b"100644 a\0" + obj_name(3, blob)),
                                                   ("ofs", 0, b"100644 a\0" + obj_name(3, blob) + b"garbage")]))
    # headers
    for tag, raw in (("empty", b""), ("magic-only", b"PACK"), ("header-only", b"PACK" + struct.pack(">LL", 2, 1)),
                     ("version-1", build_pack("a", two, version=1).data), ("version-4", build_pack("a", two, version=4).data),
                     ("version-0", build_pack("a", two, version=0).data), ("lowercase-magic", b"pack" + build_pack("a", two).data[4:]),
                     ("header+trailer-count1", b"PACK" + struct.pack(">LL", 2, 1) + b"\0" * 20),
                     ("1-byte", b"P"), ("31-bytes", build_pack("a", []).data[:31])):
        add("header:" + tag, raw)
    # deep chains (no recursion, no quadratic blow-up)
    n = 200
    items = [("full", 3, blob)]
    cur = blob
    for i in range(n):
        cur = cur + bytes([65 + i % 26])
        items.append(("ofs", i, cur))
    add(f"chain:ofs-depth-{n}", build_pack("a", items))
    items = [("full", 3, blob)]
    cur = blob
    for i in range(60):
        cur = cur + bytes([97 + i % 26])
        items.append(("ref", i, cur))
    items.reverse()
    items = [(k, (len(items) - 1 - a if k == "ref" else a), c) for (k, a, c) in items]
    add("chain:ref-forward-depth-60", build_pack("a", items))
    # the same object many times / many tiny objects
    add("dup:x50", build_pack("a", [("full", 3, blob)] * 50))
    return A


# ------------------------------------------------------------------------------------------------
# random access (Pack.get_raw with an index the attacker controls)

def write_idx_v2(entries, pack_sha: bytes) -> bytes:
    """pack index v2 for [(name20, offset)] — written by the harness, not by dulwich"""
    entries = sorted(entries)
    out = bytearray(b"\377tOc" + struct.pack(">L", 2))
    fan = [0] * 256
    for n, _ in entries:
        fan[n[0]] += 1
    tot = 0
    for i in range(256):
        tot += fan[i]
        out += struct.pack(">L", tot)
    for n, _ in entries:
        out += n
    for _ in entries:
        out += struct.pack(">L", 0)
    for _, o in entries:
        out += struct.pack(">L", o)
    out += pack_sha
    out += sha1(bytes(out))
    return bytes(out)


def impl_random_access(a):
    """write pack + idx, then Pack.get_raw(name) [correspondence] and DiskObjectStore[name] [oracle]"""
    import tempfile
    import warnings
    warnings.simplefilter("ignore")
    from dulwich.object_format import SHA1
    from dulwich.object_store import DiskObjectStore
    from dulwich.objects import ShaFile
    from dulwich.pack import Pack
    root = tempfile.mkdtemp(prefix="ra", dir=a["scratch"])
    s = DiskObjectStore.init(os.path.join(root, "objects"))
    for ty, d in a["ext"]:
        s.add_object(ShaFile.from_raw_string(ty, unhx(d)))
    base = os.path.join(root, "objects", "pack", "pack-" + "0" * 40)
    with open(base + ".pack", "wb") as f:
        f.write(unhx(a["pack"]))
    with open(base + ".idx", "wb") as f:
        f.write(unhx(a["idx"]))
    name = unhx(a["name"])
    rep = {}
    if a["what"] == "pack":
        ext = {obj_name(ty, unhx(d)): (ty, unhx(d)) for ty, d in a["ext"]}

        def resolve(n):
            if bytes(n) in ext:
                return ext[bytes(n)]
            raise KeyError(n)
        p = Pack(base, object_format=SHA1, resolve_ext_ref=resolve if a["ext"] else None)
        try:
            ty, data = p.get_raw(name)
            rep["r"] = f"ok {ty} {hashlib.sha1(data).hexdigest()}"
        except Exception as e:
            rep["r"] = "err " + exc_class(e)
            rep["exc"] = type(e).__name__
        finally:
            try:
                p.close()
            except Exception:
                pass
    else:
        st = DiskObjectStore(os.path.join(root, "objects"))
        try:
            o = st[name.hex().encode()]
            rep["r"] = "ok"
            if _independent_id(o) != name.hex():
                rep["bad"] = f"store[{name.hex()[:12]}] returned an object hashing to {_independent_id(o)}"
        except Exception as e:
            rep["r"] = "err " + exc_class(e)
            rep["exc"] = type(e).__name__
        try:
            ids = sorted(set(st))
            rep["n_ids"] = len(ids)
        except Exception as e:
            rep["iter_exc"] = type(e).__name__
        st.close()
    s.close()
    import shutil
    shutil.rmtree(root, ignore_errors=True)
    return rep


def random_access_cases(rng, packs, thorough):
    """(tag, pack bytes, [(name, off)], ext, names to read, cyclic?)"""
    blob = b"hello world\n"
    b2 = blob + b"second line\n"
    d12 = make_delta(blob, b2)
    extb = b"external base object\n" * 3
    C = []
    # honest indexes for the valid packs
    for p in packs:
        if not p.offsets or len(p.objects) != len(p.offsets):
            continue
        idx = [(obj_name(ty, d), off) for (ty, d), off in zip(p.objects, p.offsets)]
        C.append(("valid:" + p.name, p.data, idx, p.ext, [n for n, _ in idx][:4], False))
    nA, nB, nC = b"\xaa" * 20, b"\xbb" * 20, b"\xcc" * 20
    first = raw_entry(3, blob)

    def mk(items):
        return build_pack("ra", [("raw", r, None, None) for r in items])
    # REF cycles through the index
    pk = mk([raw_entry(7, d12, base=nB), raw_entry(7, d12, base=nA)])
    C.append(("cycle:ref-2", pk.data, [(nA, pk.offsets[0]), (nB, pk.offsets[1])], [], [nA], True))
    e0 = raw_entry(7, d12, base=nB)
    pk = mk([e0, raw_entry(6, d12, base=enc_ofs(len(e0)))])
    C.append(("cycle:ref-ofs", pk.data, [(nA, pk.offsets[0]), (nB, pk.offsets[1])], [], [nA], True))
    if thorough:
        pk = mk([raw_entry(7, d12, base=nB), raw_entry(7, d12, base=nC), raw_entry(7, d12, base=nA)])
        C.append(("cycle:ref-3", pk.data, [(nA, pk.offsets[0]), (nB, pk.offsets[1]), (nC, pk.offsets[2])], [], [nB], True))
        pk = mk([first, raw_entry(7, d12, base=nB), raw_entry(7, d12, base=nA)])
        C.append(("cycle:ref-2-after-full", pk.data, [(obj_name(3, blob), pk.offsets[0]), (nA, pk.offsets[1]), (nB, pk.offsets[2])], [], [nA, obj_name(3, blob)], True))
    # self reference (detected as coded), missing base, base outside the pack
    pk = mk([raw_entry(7, d12, base=nA)])
    C.append(("ref:self", pk.data, [(nA, pk.offsets[0])], [], [nA], False))
    pk = mk([raw_entry(7, d12, base=nB)])
    C.append(("ref:missing", pk.data, [(nA, pk.offsets[0])], [], [nA], False))
    pk = mk([raw_entry(7, make_delta(extb, extb + b"x"), base=obj_name(3, extb))])
    C.append(("ref:external", pk.data, [(obj_name(3, extb + b"x"), pk.offsets[0])], [(3, extb)], [obj_name(3, extb + b"x")], False))
    # OFS attacks
    for tag, ofsb in (("zero", b"\x00"), ("beyond-start", enc_ofs(12 + len(first) + 9)), ("into-header", enc_ofs(len(first) + 5)),
                      ("into-middle", enc_ofs(len(first) - 2)), ("huge", enc_ofs(2 ** 40))):
        pk = mk([first, raw_entry(6, d12, base=ofsb)])
        C.append(("ofs:" + tag, pk.data, [(obj_name(3, blob), pk.offsets[0]), (obj_name(3, b2), pk.offsets[1])], [],
                  [obj_name(3, b2)], False))
    pk = mk([raw_entry(6, d12, base=b"\x00")])
    C.append(("ofs:zero-alone", pk.data, [(nA, pk.offsets[0])], [], [nA], False))
    # the index names the wrong object / an offset that is no entry / an offset past the end
    pk = mk([first, raw_entry(3, b2)])
    C.append(("idx:swapped", pk.data, [(obj_name(3, blob), pk.offsets[1]), (obj_name(3, b2), pk.offsets[0])], [], [obj_name(3, blob)], False))
    C.append(("idx:mid-entry", pk.data, [(obj_name(3, blob), pk.offsets[0] + 1), (obj_name(3, b2), pk.offsets[1])], [], [obj_name(3, blob)], False))
    C.append(("idx:past-end", pk.data, [(obj_name(3, blob), len(pk.data) + 10), (obj_name(3, b2), pk.offsets[1])], [], [obj_name(3, blob)], False))
    C.append(("idx:in-trailer", pk.data, [(obj_name(3, blob), len(pk.data) - 5), (obj_name(3, b2), pk.offsets[1])], [], [obj_name(3, blob)], False))
    C.append(("idx:offset-0", pk.data, [(obj_name(3, blob), 0), (obj_name(3, b2), pk.offsets[1])], [], [obj_name(3, blob)], False))
    # deep chain: no recursion limit
    items = [("full", 3, blob)]
    cur = blob
    objs = [(3, blob)]
    for i in range(300):
        cur = cur + bytes([65 + i % 26])
        items.append(("ofs", i, cur))
        objs.append((3, cur))
    pk = build_pack("deep", items)
    C.append(("chain:ofs-depth-300", pk.data, [(obj_name(*o), off) for o, off in zip(objs, pk.offsets)], [], [obj_name(*objs[-1])], False))
    return C


def _stream_random_access(ctx, w, packs):
    stream = "random-access"
    cases = random_access_cases(ctx.rng, packs, ctx.thorough)
    lines, meta = [], []
    for tag, pack, idx, ext, names, cyclic in cases:
        n_entries = max(1, _be32(pack[8:12])) if len(pack) >= 12 else 1
        tbl = ztbl_args(zlib_table(pack))
        idxs = ",".join(f"{hx(n)}={o}" for n, o in idx) or "-"
        exts = ",".join(f"{ty}:{hx(d)}" for ty, d in ext) or "-"
        for name in names:
            lines.append(f"c04.resolveat {hx(pack)} {idxs} {exts} {hx(name)} {4 * min(n_entries, 1000) + 8}{tbl}")
            meta.append((tag, pack, idx, ext, name, cyclic))
    outs = ctx.driver.batch(lines)
    for (tag, pack, idx, ext, name, cyclic), model in zip(meta, outs):
        case = {"case": tag, "pack": hx(pack), "index": [[hx(n), o] for n, o in idx], "ext": [[ty, hx(d)] for ty, d in ext], "name": hx(name)}
        args = {"pack": hx(pack), "idx": hx(write_idx_v2(idx, pack[-20:] if len(pack) >= 20 else b"\0" * 20)),
                "ext": [[ty, hx(d)] for ty, d in ext], "name": hx(name), "scratch": str(ctx.scratch)}
        rep = w.ask({"mod": MOD, "op": "random_access", "args": dict(args, what="pack")}, timeout=4.0)
        if "crash" in rep or "r" not in rep:
            impl = "fuel" if rep.get("crash") == "timeout" else f"crash {rep}"
            through_ref = cyclic
            ctx.oracle_fail(stream, case, f"Pack.get_raw on a crafted pack+index: {('did not return within 4 s' if impl == 'fuel' else impl)}",
                            "random-access-ref-delta-cycle-nonterminating" if (impl == "fuel" and through_ref) else f"random-access:{tag.split(':')[0]}:{impl.split(' ')[0]}")
        else:
            impl = rep["r"]["r"]
        ctx.count(stream, (tag, name), True, f"{tag.split(':')[0]}:{impl.split(' ')[0]}{':' + impl.split(' ')[1] if impl.startswith('err') else ''}")
        if impl != model:
            ctx.disagree(stream, case, model, impl, "Pack.get_raw")
        if impl == "fuel":
            continue
        # oracle through the object store: an ordinary error, or an object that hashes to the requested name
        rep = w.ask({"mod": MOD, "op": "random_access", "args": dict(args, what="store")}, timeout=6.0)
        if _process_failure(ctx, stream, case, rep, "DiskObjectStore[name] on a crafted pack+index", "random-access-store"):
            continue
        r = rep["r"]
        if r.get("bad"):
            ctx.oracle_fail(stream, dict(case, detail=r["bad"]), "the store returned an object that does not hash to the name asked for: " + r["bad"],
                            "random-access-misnamed-object")
        ctx.count(stream + ".store", (tag, name), True, f"{tag.split(':')[0]}:{r['r']}")


# ------------------------------------------------------------------------------------------------
# file-system programs, crash snapshots and injected faults (in-process, harness/sched.py Recorder)

def _canon_events(events):
    """recorded mutating calls -> the model's FsOp names (chmod/fsync/utime are not modelled)"""
    out = []
    for _who, call, paths, outcome in events:
        if call in ("remove", "unlink") and outcome == "FileNotFoundError":
            continue        # cleanup of a file that is already gone (suppressed by the code): no effect
        p = paths[0] if paths else ""
        base = os.path.basename(p)
        is_tmp = base.startswith("tmp_pack_") or (base.startswith("tmp") and base.endswith(".pack"))
        if call in ("open-x", "open-w") and is_tmp:
            out.append("createTmp")
        elif call in ("rename", "replace") and is_tmp and paths[1].endswith(".pack"):
            out.append("renameTmpToPack")
        elif call in ("open-x", "open-w") and base.endswith(".idx.lock"):
            out.append("openIdxLock")
        elif call in ("rename", "replace") and base.endswith(".idx.lock") and paths[1].endswith(".idx"):
            out.append("renameIdxLock")
        elif call in ("remove", "unlink") and is_tmp:
            out.append("removeTmp")
        elif call in ("remove", "unlink") and base.endswith(".pack"):
            out.append("removePack")
        elif call in ("remove", "unlink") and base.endswith(".idx"):
            out.append("removeIdx")
        elif call in ("remove", "unlink") and base.endswith(".idx.lock"):
            out.append("removeIdxLock")
        elif call in ("chmod", "fsync", "utime", "mkdir", "close-w", "write"):
            continue
        else:
            out.append(f"{call}:{base}")
        if outcome != "ok":
            out[-1] += "!" + outcome
    return out


def _visible(objects_dir: str):
    """what a fresh process sees: ids + inconsistencies (a reader that raises is an inconsistency, not a harness crash)"""
    import warnings
    warnings.simplefilter("ignore")
    from dulwich.object_store import DiskObjectStore
    bad: list[str] = []
    ids: list = []
    try:
        st = DiskObjectStore(objects_dir)
        try:
            ids = sorted(set(st))
            _check_objects(st, ids, bad)
        finally:
            st.close()
    except Exception as e:      # noqa: BLE001
        bad.append(f"unreadable-store: a fresh DiskObjectStore over the directory raises {type(e).__name__}: {str(e)[:120]}")
    return ids, bad


def _stream_fs(ctx):
    import shutil
    import warnings
    warnings.simplefilter("ignore")
    from .. import sched
    from dulwich.object_store import DiskObjectStore
    from dulwich.objects import ShaFile
    stream = "fs"
    blob, tree, commit, tag = sample_objects()
    b2 = blob + b"second line\n"
    extb = b"external base object\n" * 3
    good = build_pack("g", [("full", 3, blob), ("ofs", 0, b2)]).data
    thin = build_pack("t", [("ref", ("ext", 0), extb + b"x"), ("full", 3, blob)], ext=[(3, extb)]).data
    badtree = build_pack("b", [("full", 3, blob), ("full", 2, b"1x0644 a\0" + b"\x22" * 20)]).data
    badtrailer = good[:-1] + bytes([good[-1] ^ 1])
    badzlib = good[:20] + bytes([good[20] ^ 0x40]) + good[21:]
    cut = good[:-7]
    # a thin pack with one junk byte between its last entry and a CORRECT trailer: accepted by the stream reader, but the
    # bases `extend_pack` appends land after the junk and the installed pack fails inside zlib
    jb = build_pack("j", [("ref", ("ext", 0), extb + b"x")], ext=[(3, extb)]).data[:-20] + b"\x35"
    junk = jb + sha1(jb)
    gen = (core.LEAN_DIR / "DulwichModel" / "Gen" / "Ingest.lean").read_text()
    cut_fails_at = "copy" if "def commitChecksTrailer : Bool := true" in gen else "validatezlib"
    scen = [("thin", "never", "thin", good), ("thin", "never", "thin", thin), ("thin", "copy", "thin", badtrailer),
            ("thin", "copy", "thin", badzlib), ("thin", "validate", "thin", badtree),
            ("addpack", "never", "addpack", good), ("addpack", "never", "addpack", thin), ("addpack", "copy", "addpack", badzlib),
            ("addpack", "validate", "addpack", badtree), ("addpack", cut_fails_at, "addpack", cut),
            ("thin", "validatezlib", "thin", junk), ("addpack", "validatezlib", "addpack", junk),
            ("abort", "never", "addpack-abort", good)]
    model = ctx.driver.batch([f"c04.fsprog {a} {b}" for a, b, _, _ in scen])
    for (mpath, fail, path, data), mo in zip(scen, model):
        mprog = [op for op in mo.split(" | ")[0].split(" ") if op != "writeTmp"]
        mfinal = mo.split(" | ")[1]
        root = os.path.join(str(ctx.scratch), f"fs-{len(os.listdir(ctx.scratch))}")
        os.makedirs(root)
        st = DiskObjectStore.init(os.path.join(root, "objects"))
        st.add_object(ShaFile.from_raw_string(3, extb))
        before_ids, _ = _visible(os.path.join(root, "objects"))
        before_listing = _listing(root)
        snaps = []

        def on_boundary(k, pending, root=root, snaps=snaps):
            if k < 40:
                d = f"{root}-snap{k}"
                shutil.copytree(root, d)
                snaps.append((k, pending, d))
        err = None
        with sched.Recorder(root, on_boundary) as rec:
            try:
                _do_ingest(st, path, data)
            except Exception as e:       # noqa: BLE001 — outcome of the scenario
                err = e
        st.close()
        prog = _canon_events(rec.events)
        case = {"scenario": f"{path}/{fail}", "input": hx(data), "recorded": prog}
        ctx.count(stream, (path, fail, data), True, f"{path}:{fail}:{'ok' if err is None else type(err).__name__}")
        if prog != mprog:
            ctx.disagree(stream, case, " ".join(mprog), " ".join(prog), "syscall program")
        after_ids, bad = _visible(os.path.join(root, "objects"))
        files = [p for p, _ in _listing(root)]
        final = f"visible={int(after_ids != before_ids)} tmp={int(any(os.path.basename(f).startswith('tmp') for f in files))} " \
                f"pack={int(any(f.endswith('.pack') and 'pack-' in f for f in files))} idx={int(any(f.endswith('.idx') for f in files))}"
        if final != mfinal:
            ctx.disagree(stream, case, mfinal, final, "final state")
        if (err is None) != (fail == "never" and path != "addpack-abort"):
            ctx.disagree(stream, case, f"fails={fail}", f"raised={type(err).__name__ if err else None}", "scenario outcome")
        # oracle on every crash snapshot: only consistent objects are visible; a failing ingest shows nothing new, ever
        for k, pending, d in snaps:
            ids, sbad = _visible(os.path.join(d, "objects"))
            scase = dict(case, crash_before_call=k, pending=[pending[0], list(pending[1])])
            if err is None or ids == before_ids:
                for b in sbad:
                    ctx.oracle_fail(stream, dict(scase, detail=b), f"crash snapshot {k}: a visible object is unreadable or misnamed: {b}",
                                    "snapshot-inconsistent-object")
            if err is not None and ids != before_ids:
                ctx.oracle_fail(stream, dict(scase, new=[i.decode() for i in set(ids) - set(before_ids)], unreadable=sbad),
                                f"objects of an ingest that FAILS ({type(err).__name__}) are visible to a fresh reader before call {k} "
                                f"({pending[0]}): the pack is installed before it is validated",
                                "visible-before-validation-window" if fail in ("validate", "validatezlib") else f"failed-ingest-visible-midway:{path}")
            if err is None and ids not in (before_ids, after_ids):
                ctx.oracle_fail(stream, scase, f"crash snapshot {k}: the visible set is neither the old nor the new one", "snapshot-partial-visibility")
            ctx.count(stream + ".snapshot", (path, fail, data, k), True, f"{path}:{fail}:{'new-visible' if ids != before_ids else 'old'}")
            shutil.rmtree(d, ignore_errors=True)
        # the end state of a failing ingest, in the property's words
        if err is not None:
            rep = {"res": "err " + exc_class(err), "exc": type(err).__name__, "ids": [i.decode() for i in after_ids]}
            if after_ids != before_ids:
                rep["changed"] = ["ids(fresh store): +" + ",".join(i.decode()[:12] for i in set(after_ids) - set(before_ids))]
            new = [p for p in _listing(root) if p not in before_listing]
            if new:
                rep["newfiles"] = [p for p, _ in new]
            _classify_ingest(ctx, stream, dict(case, store="disk", path=path), "disk", path, rep, data, [])
        else:
            for b in bad:
                ctx.oracle_fail(stream, dict(case, detail=b), "after a successful ingest: " + b, "store-inconsistent:" + b.split(" ")[0])
        shutil.rmtree(root, ignore_errors=True)
    # injected faults: every mutating call of a SUCCESSFUL ingest fails in turn with EIO; the ingest must fail cleanly
    for path, data in (("thin", good), ("addpack", good)):
        root2 = os.path.join(str(ctx.scratch), f"fsf-{path}-clean")
        os.makedirs(root2)
        st2 = DiskObjectStore.init(os.path.join(root2, "objects"))
        clean_err = None
        with sched.Recorder(root2, None) as rec2:
            try:
                _do_ingest(st2, path, data)
            except Exception as e:       # noqa: BLE001
                clean_err = e
        st2.close()
        n_calls = len(rec2.events)
        shutil.rmtree(root2, ignore_errors=True)
        if clean_err is not None:
            ctx.disagree(stream, {"scenario": f"{path}/clean", "input": hx(data)}, "ok",
                         f"a valid pack is not ingested: {type(clean_err).__name__}: {str(clean_err)[:200]}", "scenario outcome")
            continue
        for k in range(n_calls):
            root = os.path.join(str(ctx.scratch), f"fsf-{path}-{k}")
            os.makedirs(root)
            st = DiskObjectStore.init(os.path.join(root, "objects"))
            before_ids, _ = _visible(os.path.join(root, "objects"))
            before_listing = _listing(root)
            err = None
            with sched.Recorder(root, None, fail_at={k: OSError(5, "injected EIO")}) as rec:
                try:
                    _do_ingest(st, path, data)
                except Exception as e:   # noqa: BLE001
                    err = e
            st.close()
            case = {"scenario": f"{path}/fault@{k}", "input": hx(data), "recorded": _canon_events(rec.events)}
            ctx.count(stream + ".fault", (path, k), True, f"{path}:{rec.events[-1][1] if rec.events else '-'}:{'raised' if err else 'ok'}")
            after_ids, bad = _visible(os.path.join(root, "objects"))
            if err is None:
                if after_ids == before_ids:
                    ctx.oracle_fail(stream, case, "an I/O error was swallowed: the ingest reports success but nothing was stored", "fault-swallowed")
                for b in bad:
                    ctx.oracle_fail(stream, dict(case, detail=b), "after an ingest that survived an I/O error: " + b, "store-inconsistent:" + b.split(" ")[0])
            else:
                rep = {"res": "err " + exc_class(err), "exc": type(err).__name__, "ids": [i.decode() for i in after_ids]}
                if after_ids != before_ids:
                    rep["changed"] = ["ids(fresh store): +" + ",".join(i.decode()[:12] for i in set(after_ids) - set(before_ids))]
                new = [p for p, _ in _listing(root) if (p, _) not in before_listing]
                if new:
                    rep["newfiles"] = new
                if new and not rep.get("changed") and len(new) == 1 and os.path.basename(new[0]).startswith("pack-") and new[0].endswith(".pack"):
                    ctx.oracle_fail(stream, dict(case, newfiles=new), f"an I/O error while the index is written leaves the renamed pack behind "
                                    f"without an index: {new}", "io-fault-after-pack-rename-leaves-orphan-pack")
                else:
                    _classify_ingest(ctx, stream, dict(case, store="disk", path=path), "disk", path, rep, data, [])
            shutil.rmtree(root, ignore_errors=True)


# ------------------------------------------------------------------------------------------------
# other damaged files: pack index, loose object, index file, packed-refs (direct oracle)

_LEFT: list = []


def impl_files_batch(a):
    import shutil
    import tempfile
    import warnings
    warnings.simplefilter("ignore")
    kind = a["kind"]
    out = []
    root = tempfile.mkdtemp(prefix="files", dir=a["scratch"])
    try:
        if kind == "idx":
            from dulwich.object_store import DiskObjectStore
            DiskObjectStore.init(os.path.join(root, "objects")).close()
            base = os.path.join(root, "objects", "pack", "pack-" + "1" * 40)
            with open(base + ".pack", "wb") as f:
                f.write(unhx(a["pack"]))
            names = [n.encode() for n in a["names"]]
            for m in a["mutants"]:
                with open(base + ".idx", "wb") as f:
                    f.write(unhx(m))
                rep = {"res": [], "bad": []}
                st = DiskObjectStore(os.path.join(root, "objects"))
                try:
                    try:
                        listed = sorted(set(st))[:12]
                        rep["res"].append(f"iter:{len(listed)}")
                    except Exception as e:
                        listed = []
                        rep["res"].append("iter:" + exc_class(e))
                    for n in names + [i for i in listed if i not in names]:
                        try:
                            present = n in st
                            o = st[n]
                            if _independent_id(o) != n.decode():
                                rep["bad"].append(f"store[{n.decode()[:12]}] hashes to {_independent_id(o)[:12]}")
                            rep["res"].append("ok" if present else "ok-but-not-in")
                        except Exception as e:
                            rep["res"].append(exc_class(e))
                finally:
                    st.close()
                out.append(rep)
        elif kind == "loose":
            from dulwich.object_store import DiskObjectStore
            sha = a["sha"]
            DiskObjectStore.init(os.path.join(root, "objects")).close()
            d = os.path.join(root, "objects", sha[:2])
            os.makedirs(d, exist_ok=True)
            for m in a["mutants"]:
                with open(os.path.join(d, sha[2:]), "wb") as f:
                    f.write(unhx(m))
                rep = {"res": [], "bad": []}
                st = DiskObjectStore(os.path.join(root, "objects"))
                try:
                    try:
                        o = st[sha.encode()]
                        if _independent_id(o) != sha:
                            rep["bad"].append(f"store[{sha[:12]}] hashes to {_independent_id(o)[:12]}")
                        rep["res"].append("ok")
                    except Exception as e:
                        rep["res"].append(exc_class(e))
                    try:
                        rep["res"].append("in" if sha.encode() in st else "not-in")
                    except Exception as e:
                        rep["res"].append("in:" + exc_class(e))
                finally:
                    st.close()
                out.append(rep)
        elif kind == "index":
            from dulwich.index import ConflictedIndexEntry, Index
            import dulwich.pack as _P
            p = os.path.join(root, "index")
            seen_left = []
            if not getattr(_P.SHA1Reader.check_sha, "_verif_wrapped", False):
                _orig = _P.SHA1Reader.check_sha

                def check_sha(self, *aa, **kw):       # observation only: how many bytes are left when the trailer is read
                    try:
                        pos = self.f.tell()
                        self.f.seek(0, 2)
                        end = self.f.tell()
                        self.f.seek(pos)
                        _LEFT.append(end - pos)
                    except Exception:
                        _LEFT.append(None)
                    return _orig(self, *aa, **kw)
                check_sha._verif_wrapped = True
                _P.SHA1Reader.check_sha = check_sha
            for m in a["mutants"]:
                with open(p, "wb") as f:
                    f.write(unhx(m))
                del _LEFT[:]
                try:
                    ix = Index(p)
                    ents = []
                    for k in ix:
                        e = ix[k]
                        if isinstance(e, ConflictedIndexEntry):
                            ents.append([k.hex(), "conflict", repr((e.ancestor, e.this, e.other))])
                        else:
                            ents.append([k.hex(), e.sha.decode("latin1"), e.mode, e.size, repr(e.ctime), repr(e.mtime), e.dev, e.ino,
                                         e.uid, e.gid, getattr(e, "flags", 0), getattr(e, "extended_flags", 0)])
                    out.append({"res": "ok", "entries": ents, "version": ix._version, "left_at_check": _LEFT[-1] if _LEFT else None})
                except Exception as e:
                    out.append({"res": "err " + exc_class(e), "exc": type(e).__name__})
        elif kind == "packed-refs":
            from dulwich.refs import DiskRefsContainer
            os.makedirs(os.path.join(root, "refs", "heads"), exist_ok=True)
            p = os.path.join(root, "packed-refs")
            for m in a["mutants"]:
                with open(p, "wb") as f:
                    f.write(unhx(m))
                try:
                    rc = DiskRefsContainer(root)
                    refs = rc.get_packed_refs()
                    peeled = {}
                    for n in refs:
                        try:
                            pv = rc.get_peeled(n)
                        except KeyError:
                            pv = None
                        peeled[n.hex()] = pv.decode("latin1") if pv is not None else None
                    out.append({"res": "ok", "refs": {k.hex(): v.decode("latin1") for k, v in refs.items()}, "peeled": peeled})
                except Exception as e:
                    out.append({"res": "err " + exc_class(e), "exc": type(e).__name__})
        else:
            raise RuntimeError("unknown kind " + kind)
    finally:
        shutil.rmtree(root, ignore_errors=True)
    return out


import re as _re

_HEX40 = _re.compile(rb"^[0-9a-f]{40}$")


def _refname_plausible(n: bytes) -> bool:
    """independent structural check of a ref name (subset of git-check-ref-format)"""
    if not n or n.startswith(b"/") or n.endswith(b"/") or n.endswith(b".") or n.endswith(b".lock") or b".." in n or b"//" in n or b"@{" in n:
        return False
    if any(c < 0x20 or c == 0x7F or c in b" ~^:?*[\\" for c in n):
        return False
    return all(part and not part.startswith(b".") and not part.endswith(b".lock") for part in n.split(b"/"))


def _index_accept_class(m: bytes, left):
    """why Index.read let a file through whose checksum does not verify — the failing-input class"""
    if left is not None and left < 20:
        return "index-short-trailer-accepted-unverified", (f" (only {left} bytes were left for the 20-byte trailer: "
                                                           "check_sha(allow_empty=True) does not raise on a short trailer)")
    if left is not None and left > 20 and m[len(m) - left: len(m) - left + 20] == b"\0" * 20:
        return "index-zero-run-taken-for-skiphash-trailer", (f" ({left} bytes were left when the trailer was read and the next 20 of them are "
                                                             "zero: taken for the all-zero index.skipHash trailer, the rest of the file ignored)")
    return "index-damaged-accepted", ""


def _git_index_files(ctx):
    """index files written by C git (independent of dulwich): v2, v2 with TREE extension, v4, and one conflicted"""
    import subprocess
    out = []
    env = core.clean_env()
    base = ctx.scratch / f"gitidx{len(list(ctx.scratch.iterdir()))}"
    for tag, cmds in (
        ("v2", [["git", "add", "."]]),
        ("v2-tree-ext", [["git", "add", "."], ["git", "write-tree"]]),
        ("v4", [["git", "add", "."], ["git", "update-index", "--index-version", "4"]]),
        ("v3-intent-to-add", [["git", "add", "a.txt"], ["git", "add", "-N", "dir/some_long_file_name.txt"]]),
    ):
        d = base / tag
        (d / "dir").mkdir(parents=True)
        (d / "a.txt").write_text("y\n")
        (d / "dir" / "some_long_file_name.txt").write_text("x\n")
        (d / "b.sh").write_text("#!/bin/sh\n")
        os.chmod(d / "b.sh", 0o755)
        subprocess.run(["git", "init", "-q", "."], cwd=d, env=env, check=True, capture_output=True)
        for c in cmds:
            subprocess.run(c, cwd=d, env=env, check=True, capture_output=True)
        out.append((tag, (d / ".git" / "index").read_bytes()))
    return out


def _stream_files(ctx, w, packs):
    rng = ctx.rng
    n_quick = ctx.budget(500)

    def pick(cases):
        cases = list(cases)
        if len(cases) <= n_quick:
            return cases
        keep = [c for c in cases if c[0] in ("trunc", "tail")]
        rest = [c for c in cases if c[0] not in ("trunc", "tail")]
        if len(keep) > n_quick // 2:
            keep = rng.sample(keep, n_quick // 2)
        return keep + rng.sample(rest, max(0, min(len(rest), n_quick - len(keep))))
    # ---- pack indexes
    stream = "idx"
    from dulwich.pack import write_pack_index_v1
    import io
    for p in [q for q in packs if q.name in ("all-types", "ofs-chain-3", "ref-delta-back", "one-blob")]:
        idx_entries = [(obj_name(ty, d), off) for (ty, d), off in zip(p.objects, p.offsets)]
        v2 = write_idx_v2(idx_entries, p.data[-20:])
        f = io.BytesIO()
        write_pack_index_v1(f, sorted((n, o, 0) for n, o in idx_entries), p.data[-20:])
        for ver, raw in (("v2", v2), ("v1", f.getvalue())):
            hdr = 8 if ver == "v2" else 0
            struct_pos = set(range(hdr)) | set(range(hdr + 1024, len(raw)))
            cases = pick(mutants_of(raw, struct_pos, rng, ctx.thorough, flip_stride=1 if ctx.thorough else 16))
            names = [n.hex() for n, _ in idx_entries]
            reps = _ask_batched(w, "files_batch", {"kind": "idx", "pack": hx(p.data), "names": names, "scratch": str(ctx.scratch)},
                                [m for _, m in cases], chunk=150)
            for (tag, m), rep in zip(cases, reps):
                case = {"file": f"pack index {ver} of {p.name}", "mutation": tag, "pack": hx(p.data), "idx": hx(m)}
                if _process_failure(ctx, stream, case, rep, "reading through a damaged pack index", "idx"):
                    continue
                for b in rep["bad"]:
                    ctx.oracle_fail(stream, dict(case, detail=b), "a damaged pack index made the store return an object under the wrong name: " + b,
                                    "idx-misnamed-object")
                ctx.count(stream, (ver, m), True, f"{ver}:{tag}:{'all-ok' if all(r.startswith(('ok', 'iter:')) and not r.startswith('iter:f') for r in rep['res']) else 'some-error'}")
    # ---- loose objects
    stream = "loose"
    blob, tree, commit, tag_ = sample_objects()
    for name, ty, data, level in (("blob", 3, blob, 6), ("empty-blob", 3, b"", 6), ("tree", 2, tree, 6), ("commit", 1, commit, 1),
                                  ("tag", 4, tag_, 9), ("blob-stored", 3, blob * 3, 0), ("blob-5k", 3, blob_text(rng, 5000), 6)):
        raw = zlib.compress(TYPE_NAMES[ty] + b" " + str(len(data)).encode() + b"\0" + data, level)
        sha = obj_name(ty, data).hex()
        struct_pos = set(range(2)) | set(range(len(raw) - 4, len(raw)))
        cases = pick(mutants_of(raw, struct_pos, rng, ctx.thorough))
        # crafted: a well-formed loose object of OTHER content under this name; wrong declared length; wrong type word
        other = zlib.compress(b"blob 5\0other")
        cases += [("crafted:other-content", other),
                  ("crafted:wrong-length", zlib.compress(TYPE_NAMES[ty] + b" " + str(len(data) + 1).encode() + b"\0" + data)),
                  ("crafted:no-nul", zlib.compress(TYPE_NAMES[ty] + b" " + str(len(data)).encode() + data)),
                  ("crafted:unknown-type", zlib.compress(b"blub " + str(len(data)).encode() + b"\0" + data)),
                  ("crafted:new-style-header", enc_objhdr(ty, len(data)) + zlib.compress(data)),
                  ("crafted:empty-file", b"")]
        reps = _ask_batched(w, "files_batch", {"kind": "loose", "sha": sha, "scratch": str(ctx.scratch)}, [m for _, m in cases], chunk=300)
        for (tag, m), rep in zip(cases, reps):
            case = {"file": f"loose {name}", "mutation": tag, "sha": sha, "content": hx(m)}
            if _process_failure(ctx, stream, case, rep, "reading a damaged loose object", "loose"):
                continue
            for b in rep["bad"]:
                ctx.oracle_fail(stream, dict(case, detail=b), "a damaged loose object was returned under a name it does not hash to: " + b,
                                "loose-misnamed-object")
            ctx.count(stream, (name, m), True, f"{name}:{tag.split(':')[0]}:{rep['res'][0]}")
    # ---- index files
    stream = "index-file"
    for name, raw in _git_index_files(ctx):
        orig = w.ask({"mod": MOD, "op": "files_batch", "args": {"kind": "index", "mutants": [hx(raw)], "scratch": str(ctx.scratch)}})
        if "r" not in orig or orig["r"][0]["res"] != "ok":
            ctx.oracle_fail(stream, {"file": name, "content": hx(raw)}, f"an index written by C git is not read: {orig}", "git-index-unreadable")
            continue
        orig = orig["r"][0]
        struct_pos = set(range(12)) | set(range(len(raw) - 20, len(raw)))
        cases = pick(mutants_of(raw, struct_pos, rng, ctx.thorough))
        reps = _ask_batched(w, "files_batch", {"kind": "index", "scratch": str(ctx.scratch)}, [m for _, m in cases], chunk=400)
        for (tag, m), rep in zip(cases, reps):
            case = {"file": f"index {name}", "mutation": tag, "content": hx(m), "original": hx(raw)}
            if _process_failure(ctx, stream, case, rep, "reading a damaged index file", "index"):
                continue
            verdict = rep["res"]
            if rep["res"] == "ok":
                checksum_ok = len(m) >= 20 and (sha1(m[:-20]) == m[-20:] or m[-20:] == b"\0" * 20)
                same = rep["entries"] == orig["entries"]
                if not checksum_ok and not same:
                    left = rep.get("left_at_check")
                    cls, why = _index_accept_class(m, left)
                    ctx.oracle_fail(stream, dict(case, entries=rep["entries"][-1:], left_at_check=left),
                                    "a damaged index file whose checksum does not verify was accepted and yields entries that differ from "
                                    "the ones written" + why, cls)
                verdict = "ok-verified" if checksum_ok else ("ok-same-entries" if same else "ok-ALTERED")
            ctx.count(stream, (name, m), True, f"{name}:{tag}:{verdict}")
    # ---- packed-refs
    stream = "packed-refs"
    h1, h2, h3 = (hashlib.sha1(x).hexdigest().encode() for x in (b"1", b"2", b"3"))
    files = [("plain", h1 + b" refs/heads/main\n" + h2 + b" refs/tags/v1\n"),
             ("peeled", b"# pack-refs with: peeled fully-peeled sorted \n" + h1 + b" refs/heads/main\n" + h2 + b" refs/tags/v1\n^" + h3 + b"\n"),
             ("comment", b"# a comment\n" + h3 + b" refs/remotes/origin/topic/x\n")]
    for name, raw in files:
        cases = pick(mutants_of(raw, set(range(len(raw))) if ctx.thorough else set(), rng, ctx.thorough))
        reps = _ask_batched(w, "files_batch", {"kind": "packed-refs", "scratch": str(ctx.scratch)}, [m for _, m in cases], chunk=400)
        for (tag, m), rep in zip(cases, reps):
            case = {"file": f"packed-refs {name}", "mutation": tag, "content": hx(m)}
            if _process_failure(ctx, stream, case, rep, "reading a damaged packed-refs file", "packed-refs"):
                continue
            verdict = rep["res"]
            if rep["res"] == "ok":
                for n, v in rep["refs"].items():
                    nb, vb = unhx(n), v.encode("latin1")
                    pv = rep["peeled"].get(n)
                    if not _HEX40.match(vb.lower()) or not _refname_plausible(nb) or (pv is not None and not _HEX40.match(pv.encode("latin1").lower())):
                        ctx.oracle_fail(stream, dict(case, ref=[nb.decode("latin1"), v, pv]),
                                        f"a damaged packed-refs file yields a malformed entry {nb!r} -> {v!r} (peeled {pv!r})", "packed-refs-malformed-entry")
                        verdict = "ok-MALFORMED"
            ctx.count(stream, (name, m), True, f"{name}:{tag}:{verdict}")


# ------------------------------------------------------------------------------------------------
# decompression bombs (resource oracle: time and peak-RSS growth in a fresh child)

def _stream_bombs(ctx):
    stream = "bomb"
    mb = 128
    for kind, path in (("-", "reader"), ("disk", "thin"), ("disk", "addpack"), ("mem", "thin"), ("mem", "addpack"), ("-", "loose")):
        w = core.Worker("py", mem_mb=1024)
        try:
            rep = w.ask({"mod": MOD, "op": "bomb", "args": {"kind": kind if kind != "-" else "mem", "path": path, "mb": mb, "declared": 10,
                                                              "scratch": str(ctx.scratch)}}, timeout=60)
        finally:
            w.close()
        case = {"bomb": f"entry declares 10 bytes, stream inflates to {mb} MiB", "store": kind, "path": path}
        if _process_failure(ctx, stream, case, rep, "decompression bomb", f"bomb-{path}"):
            continue
        r = rep["r"]
        ctx.count(stream, (kind, path), True, f"{kind}/{path}:{r['res'].split(' ')[0]}")
        if r["res"].startswith("ok"):
            ctx.oracle_fail(stream, dict(case, reply=r), "a stream inflating to far more than its declared size was accepted", "bomb-accepted")
        if r.get("exc") == "MemoryError" or r["rss_growth_kb"] > 48 * 1024 or r["t"] > 5.0:
            ctx.oracle_fail(stream, dict(case, reply=r), f"the bomb was inflated instead of being stopped at the declared size: "
                            f"peak RSS grew by {r['rss_growth_kb'] // 1024} MiB in {r['t']} s for a {r['input_kb']} KiB input ({r['res']})",
                            f"bomb-inflated:{path}")
        ctx.extra_cov.setdefault("bombs", {})[f"{kind}/{path}"] = {"res": r["res"], "t": r["t"], "rss_growth_mib": r["rss_growth_kb"] // 1024,
                                                                    "input_kib": r["input_kb"]}


# ------------------------------------------------------------------------------------------------
# fault sequences: a one-shot fault at EVERY interposed system call of every ingestion path, store options that add calls ON

FAULT_OPTIONS = {
    "default": {},
    "fsync": {"fsync_object_files": True},
    "shared": {"shared": "group"},
    "idx-v1": {"pack_index_version": 1},
    "idx-v3": {"pack_index_version": 3},
    "fsync+shared+level0": {"fsync_object_files": True, "shared": "group", "pack_compression_level": 0, "loose_compression_level": 0},
    "midx": {"midx": True},
}


def _fault_packs():
    blob, tree, commit, tag = sample_objects()
    b2 = blob + b"second line\n"
    first = raw_entry(3, blob)
    return {
        "valid": (build_pack("v", [("full", 3, blob), ("ofs", 0, b2), ("full", 2, tree)]).data, False),
        "valid-full": (build_pack("f", [("full", 3, blob), ("full", 3, b2), ("full", 2, tree)]).data, False),
        "garbage-tree": (build_pack("g", [("full", 3, blob), ("full", 2, b"1x0644 a\0" + b"\x22" * 20)]).data, True),
        "unresolved-delta": (build_pack("u", [("full", 3, blob), ("raw", raw_entry(7, make_delta(blob, b2), base=b"\x11" * 20), None, None)]).data, True),
        "bad-delta": (build_pack("d", [("raw", first, 3, blob), ("raw", raw_entry(6, enc_varint(99) + make_delta(blob, b2)[1:], base=enc_ofs(len(first))),
                                                                         None, None)]).data, True),
    }


def _fault_store(root: str, opts: dict):
    """pre-state: one loose object and one pack; returns a NEW store object with the options on"""
    import warnings
    warnings.simplefilter("ignore")
    from dulwich.file import PERM_GROUP
    from dulwich.object_store import DiskObjectStore
    from dulwich.objects import Blob
    kw = {k: v for k, v in opts.items() if k not in ("shared", "midx")}
    if opts.get("shared"):
        kw["shared_perm"] = PERM_GROUP
    st = DiskObjectStore.init(os.path.join(root, "objects"))
    st.add_object(Blob.from_string(b"pre-existing loose object\n"))
    _do_ingest(st, "addpack", build_pack("p", [("full", 3, b"pre-existing packed object\n"), ("full", 3, b"another one\n")]).data)
    if opts.get("midx"):
        st.write_midx()
    st.close()
    return DiskObjectStore(os.path.join(root, "objects"), **kw)


_INGEST_DONE: list = []


def _fault_ingest(store, root: str, path: str, data: bytes, opts: dict):
    import io
    if path == "addobjects":
        from dulwich.objects import Blob
        store.add_objects([(Blob.from_string(b"object %d given to add_objects\n" % i), None) for i in range(3)])
    elif path == "receive":
        from dulwich.protocol import ReceivableProtocol, pkt_line
        from dulwich.repo import Repo
        from dulwich.server import DictBackend, ReceivePackHandler

        class _R:       # the handler only needs these of a repo
            pass
        repo = Repo(root)
        try:
            repo.object_store.close()
            repo.object_store = store
            _orig = store.add_thin_pack

            def _noting(*aa, **kw):
                r = _orig(*aa, **kw)
                _INGEST_DONE.append(1)
                return r
            store.add_thin_pack = _noting
            cmds = pkt_line(b"0" * 40 + b" " + obj_name(3, b"hello world\n").hex().encode() + b" refs/heads/x\x00report-status\n") + b"0000"
            out = bytearray()
            proto = ReceivableProtocol(io.BytesIO(cmds + data).read, lambda d: out.extend(d) or len(d))
            ReceivePackHandler(DictBackend({b"/": repo}), [b"/"], proto, stateless_rpc=True).handle()
            if b"unpack ok" not in bytes(out):
                raise OSError("receive-pack answered: " + bytes(out)[:80].decode("latin1"))
        finally:
            repo.refs.close() if hasattr(repo.refs, "close") else None
    else:
        _do_ingest(store, path, data)


def _stream_faults(ctx):
    import errno
    import shutil
    import warnings
    warnings.simplefilter("ignore")
    from .. import sched
    stream = "faults"
    rng = ctx.rng
    packs = _fault_packs()
    kinds = [("EIO", lambda: OSError(errno.EIO, "injected EIO")), ("ENOSPC", lambda: OSError(errno.ENOSPC, "injected ENOSPC")),
             ("EPERM", lambda: PermissionError(errno.EPERM, "injected EPERM")), ("KeyboardInterrupt", lambda: KeyboardInterrupt())]
    combos = []
    for oname in FAULT_OPTIONS:
        for path in ("thin", "addpack", "packdata", "addobjects", "receive"):
            for pname in packs:
                if path == "addobjects" and pname != "valid":
                    continue
                # add_pack_data(len(pd), pd.iter_unpacked()) does not take delta entries at all: full objects only
                if (path == "packdata") != (pname == "valid-full") and (path == "packdata" or pname == "valid-full") and pname != "garbage-tree":
                    continue
                combos.append((oname, path, pname))
    if not ctx.thorough:
        # every combination of path x pack with the default and one other option set; the other option sets on the install paths
        combos = [c for i, c in enumerate(combos) if c[0] == "default" or (c[1] in ("thin", "addpack", "receive") and (i + ctx.seed) % 3 == 0)]
    n_runs = 0
    for ci, (oname, path, pname) in enumerate(combos):
        data, hostile = packs[pname]
        opts = FAULT_OPTIONS[oname]

        def one(fail_at):
            root = os.path.join(str(ctx.scratch), f"flt{ci}-{len(os.listdir(ctx.scratch))}")
            os.makedirs(root)
            if path == "receive":
                from dulwich.repo import Repo
                Repo.init_bare(root).close()
                shutil.rmtree(os.path.join(root, "objects"))
            st = _fault_store(root, opts)
            before_ids, _ = _visible(os.path.join(root, "objects"))
            before = _listing(root)
            err = None
            del _INGEST_DONE[:]
            with sched.Recorder(root, None, reads=True, fail_at=fail_at) as rec:
                try:
                    _fault_ingest(st, root, path, data, opts)
                except BaseException as e:       # noqa: BLE001 — the outcome, KeyboardInterrupt included (it is the injected one)
                    err = e
            try:
                st.close()
            except Exception:
                pass
            after_ids, bad = _visible(os.path.join(root, "objects"))
            newf = [p_ for p_, _s in _listing(root) if (p_, _s) not in before]
            shutil.rmtree(root, ignore_errors=True)
            return err, rec.events, before_ids, after_ids, bad, newf, bool(_INGEST_DONE)
        err0, events0, *_ = one({})
        n_calls = len(events0)
        ctx.count(stream + ".program", (oname, path, pname), True, f"{oname}:{path}:{pname}:{n_calls} calls:{'raises ' + type(err0).__name__ if err0 else 'ok'}")
        if (err0 is None) == hostile and path != "addobjects":
            ctx.oracle_fail(stream, {"options": oname, "path": path, "pack": pname, "input": hx(data)},
                            f"without any fault: {'a hostile pack is accepted' if hostile else 'a valid pack is refused: ' + repr(err0)[:120]}", "faults-baseline")
            continue
        for k in range(n_calls):
            for kname, mk in kinds:
                if kname != "EIO" and not ctx.thorough and (k + ci + len(kname)) % 4:
                    continue
                if not ctx.thorough and kname == "EIO" and oname != "default" and (k + ci) % 2:
                    continue
                n_runs += 1
                err, events, before_ids, after_ids, bad, newf, ingested = one({k: mk()})
                call = events[k][1] if k < len(events) else "?"
                where = [os.path.basename(x) for x in (events[k][2] if k < len(events) else ())]
                case = {"options": oname, "path": path, "pack": pname, "input": hx(data), "fault": kname, "at_call": k,
                        "call": call, "on": where, "calls": [[e[1], [os.path.basename(x) for x in e[2]], e[3]] for e in events][:80],
                        "raised": type(err).__name__ if err else None}
                ctx.count(stream, (oname, path, pname, k, kname), True, f"{path}:{pname}:{kname}@{call}:{'raised' if err else 'survived'}")
                new_pairs = sorted(f for f in newf if f.endswith(".pack") and (f[:-5] + ".idx") in set(newf) | set())
                if err is not None and ingested and not hostile:
                    # receive-pack: the pack had been ingested completely when the fault hit the ref updates — the objects stay
                    # (unreferenced), as with git; they must be consistent
                    for b in bad:
                        ctx.oracle_fail(stream, dict(case, detail=b), f"after a {kname} in the ref phase of receive-pack: {b}", "fault-leaves-inconsistent-store:" + b.split(" ")[0])
                    continue
                if err is not None:
                    if after_ids != before_ids:
                        in_rollback = call in ("remove", "unlink") and where and where[0].startswith("pack-") and where[0].endswith(".pack") and \
                            any(e_[1] in ("rename", "replace") and os.path.basename(e_[2][1]) == where[0] for e_ in events[:k])
                        ctx.oracle_fail(stream, dict(case, new=[i.decode() for i in set(after_ids) - set(before_ids)],
                                                     gone=[i.decode() for i in set(before_ids) - set(after_ids)], newfiles=newf),
                                        f"{path} of the {pname} pack raised {type(err).__name__} after a {kname} at call {k} ({call} {where}) but a fresh "
                                        f"DiskObjectStore sees a different object set: +{len(set(after_ids) - set(before_ids))} -{len(set(before_ids) - set(after_ids))}; "
                                        f"files left: {newf}",
                                        "fault-at-rollback-unlink-of-pack-skips-unlink-of-index" if in_rollback else
                                        f"fault-leaves-{'hostile-' if hostile else ''}pack-visible:{call}")
                        continue
                    elif new_pairs:
                        ctx.oracle_fail(stream, dict(case, newfiles=newf), f"a pack+index pair was left behind after the failed call: {new_pairs}",
                                        f"fault-leaves-pack-pair:{call}")
                else:
                    if hostile:
                        ctx.oracle_fail(stream, dict(case, newfiles=newf), f"with a {kname} at call {k} ({call} {where}) the hostile {pname} pack was ACCEPTED",
                                        f"fault-makes-hostile-pack-accepted:{call}")
                    if not set(before_ids) <= set(after_ids):
                        ctx.oracle_fail(stream, case, "the call succeeded but pre-existing objects are gone", "fault-loses-prestate")
                for b in bad:
                    ctx.oracle_fail(stream, dict(case, detail=b, newfiles=newf), f"after a {kname} at call {k} ({call} {where}): {b}",
                                    "fault-leaves-inconsistent-store:" + b.split(" ")[0])
    ctx.extra_cov["fault_runs"] = n_runs


# ------------------------------------------------------------------------------------------------
# long-lived readers: what a FAILED read leaves behind in a caching reader object (packed-refs)

def _refs_dir(root: str, packed: bytes, loose: dict):
    os.makedirs(os.path.join(root, "refs", "heads"), exist_ok=True)
    os.makedirs(os.path.join(root, "refs", "tags"), exist_ok=True)
    with open(os.path.join(root, "packed-refs"), "wb") as f:
        f.write(packed)
    for name, val in loose.items():
        p = os.path.join(root, *name.split("/"))
        os.makedirs(os.path.dirname(p), exist_ok=True)
        with open(p, "wb") as f:
            f.write(val.encode("latin1") + b"\n")


def _refs_op(rc, op):
    """one operation on a refs container -> canonical outcome string"""
    try:
        k = op[0]
        if k == "get_packed_refs":
            r = {a.decode("latin1"): b.decode("latin1") for a, b in rc.get_packed_refs().items()}
        elif k == "read_ref":
            v = rc.read_ref(op[1].encode("latin1"))
            r = None if v is None else v.decode("latin1")
        elif k == "allkeys":
            r = sorted(x.decode("latin1") for x in rc.allkeys())
        elif k == "as_dict":
            r = {a.decode("latin1"): b.decode("latin1") for a, b in rc.as_dict().items()}
        elif k == "get_peeled":
            v = rc.get_peeled(op[1].encode("latin1"))
            r = None if v is None else v.decode("latin1")
        elif k == "contains":
            r = op[1].encode("latin1") in rc
        elif k == "getitem":
            r = rc[op[1].encode("latin1")].decode("latin1")
        elif k == "subkeys":
            r = sorted(x.decode("latin1") for x in rc.subkeys(op[1].encode("latin1")))
        elif k == "add_packed_refs":
            rc.add_packed_refs({a.encode("latin1"): (None if b is None else b.encode("latin1")) for a, b in op[1].items()})
            r = "done"
        elif k == "pack_refs":
            rc.pack_refs(all=op[1])
            r = "done"
        elif k == "delete":
            del rc[op[1].encode("latin1")]
            r = "done"
        elif k == "set":
            rc[op[1].encode("latin1")] = op[2].encode("latin1")
            r = "done"
        else:
            raise RuntimeError("unknown op " + str(op))
        return "ok " + json.dumps(r, sort_keys=True)
    except KeyError:
        return "err KeyError"
    except Exception as e:
        return "err " + type(e).__name__
    except BaseException as e:
        if isinstance(e, KeyboardInterrupt):
            raise
        return "base " + type(e).__name__


def impl_refs_stateful(a):
    """ONE DiskRefsContainer: ops in order; beside every outcome, what a FRESH container over the same directory answers to the
    same op at that moment and (for reads) what a fresh container over the UNDAMAGED file answers; the packed-refs bytes after
    every rewriting op"""
    import shutil
    import tempfile
    import warnings
    warnings.simplefilter("ignore")
    from dulwich.refs import DiskRefsContainer
    out = []
    base = tempfile.mkdtemp(prefix="refs", dir=a["scratch"])
    try:
        oroot = os.path.join(base, "orig")
        _refs_dir(oroot, unhx(a["original"]), a["loose"])
        orig_cache: dict = {}
        for run in a["runs"]:
            root = os.path.join(base, f"r{len(out)}")
            _refs_dir(root, unhx(run["packed"]), a["loose"])
            rc = DiskRefsContainer(root)
            steps = []
            for op in run["ops"]:
                rewriting = op[0] in ("add_packed_refs", "pack_refs", "delete", "set")
                if rewriting:
                    before = open(os.path.join(root, "packed-refs"), "rb").read() if os.path.exists(os.path.join(root, "packed-refs")) else None
                    got = _refs_op(rc, op)
                    after = open(os.path.join(root, "packed-refs"), "rb").read() if os.path.exists(os.path.join(root, "packed-refs")) else None
                    lock = os.path.exists(os.path.join(root, "packed-refs.lock"))
                    steps.append({"op": op, "got": got, "before": hx(before) if before is not None else None,
                                  "after": hx(after) if after is not None else None, "lock_left": lock})
                else:
                    fresh = _refs_op(DiskRefsContainer(root), op)
                    ok_ = json.dumps(op)
                    if ok_ not in orig_cache:
                        orig_cache[ok_] = _refs_op(DiskRefsContainer(oroot), op)
                    orig = orig_cache[ok_]
                    got = _refs_op(rc, op)
                    steps.append({"op": op, "got": got, "fresh": fresh, "orig": orig})
            out.append(steps)
            shutil.rmtree(root, ignore_errors=True)
    finally:
        shutil.rmtree(base, ignore_errors=True)
    return out


def _intact_refs(raw: bytes) -> dict:
    """independent reading of a packed-refs file: the (name -> sha) of every line that is intact on its own"""
    out = {}
    for line in raw.split(b"\n"):
        line = line.rstrip(b"\r")
        if not line or line.startswith(b"#") or line.startswith(b"^"):
            continue
        parts = line.split(b" ")
        if len(parts) == 2 and _HEX40.match(parts[0]) and _refname_plausible(parts[1]):
            out[parts[1]] = parts[0]
    return out


def packed_refs_damages(rng, thorough: bool):
    """(base name, original bytes, [(tag, damaged bytes)]) — damage on lines AFTER the first entry, so that a prefix parses"""
    hs = [hashlib.sha1(bytes([i])).hexdigest().encode() for i in range(12)]
    bases = [
        ("peeled", b"# pack-refs with: peeled fully-peeled sorted \n" +
         hs[0] + b" refs/heads/main\n" + hs[1] + b" refs/heads/topic/a\n" + hs[2] + b" refs/remotes/origin/main\n" +
         hs[3] + b" refs/tags/v1\n^" + hs[4] + b"\n" + hs[5] + b" refs/tags/v2\n^" + hs[6] + b"\n" + hs[7] + b" refs/tags/v3\n"),
        ("plain", hs[0] + b" refs/heads/main\n" + hs[1] + b" refs/heads/topic/a\n" + hs[2] + b" refs/remotes/origin/main\n" +
         hs[3] + b" refs/tags/v1\n" + hs[5] + b" refs/tags/v2\n"),
    ]
    out = []
    for bname, raw in bases:
        lines = raw.split(b"\n")[:-1]
        first_entry = 1 if lines[0].startswith(b"#") else 0
        D = []

        def put(tag, newlines, tail=b"\n"):
            D.append((tag, b"\n".join(newlines) + tail))
        for i in range(first_entry + 1, len(lines)):
            ln = lines[i]
            pre, post = lines[:i], lines[i + 1:]
            if ln.startswith(b"^"):
                put(f"peeled-nonhex@{i}", pre + [b"^" + ln[1:10] + b"g" + ln[11:]] + post)
                put(f"peeled-short@{i}", pre + [ln[:20]] + post)
                put(f"peeled-doubled@{i}", pre + [ln, ln] + post)
                put(f"peeled-empty@{i}", pre + [b"^"] + post)
                put(f"peeled-otherhex@{i}", pre + [b"^" + hs[9]] + post)
                continue
            sha, name = ln.split(b" ")
            put(f"sha-nonhex@{i}", pre + [sha[:7] + b"g" + sha[8:] + b" " + name] + post)
            put(f"sha-space@{i}", pre + [sha[:7] + b" " + sha[8:] + b" " + name] + post)
            put(f"sha-nul@{i}", pre + [sha[:7] + b"\0" + sha[8:] + b" " + name] + post)
            put(f"sha-short@{i}", pre + [sha[:39] + b" " + name] + post)
            put(f"sha-otherhex@{i}", pre + [hs[10] + b" " + name] + post)
            put(f"name-space@{i}", pre + [sha + b" " + name[:8] + b" " + name[8:]] + post)
            put(f"name-ctrl@{i}", pre + [sha + b" " + name[:8] + b"\x01" + name[9:]] + post)
            put(f"name-dotdot@{i}", pre + [sha + b" " + name[:10] + b".." + name[10:]] + post)
            put(f"name-lock@{i}", pre + [sha + b" " + name + b".lock"] + post)
            put(f"name-tilde@{i}", pre + [sha + b" " + name[:-1] + b"~"] + post)
            put(f"no-separator@{i}", pre + [sha + name] + post)
            put(f"lines-joined@{i}", pre[:-1] + [pre[-1] + ln] + post)
            put(f"crlf@{i}", pre + [ln + b"\r"] + post)
            put(f"caret-line@{i}", pre + [b"^" + sha] + post)
            for cut in (5, 39, 40, 41, len(ln) - 3):
                put(f"trunc-midline@{i}+{cut}", pre + [ln[:cut]], tail=b"")
        if thorough or True:
            start = len(b"\n".join(lines[:first_entry + 1])) + 1
            for pos in range(start, len(raw), 1 if thorough else 9):
                for v in (({raw[pos] ^ 0x01, raw[pos] ^ 0x40, 0x00, 0x20, 0x0A} if thorough else {raw[pos] ^ 0x40, 0x0A}) - {raw[pos]}):
                    D.append((f"byte@{pos}", raw[:pos] + bytes([v]) + raw[pos + 1:]))
        out.append((bname, raw, D))
    return out


def _stream_refs_stateful(ctx, w):
    stream = "refs-stateful"
    rng = ctx.rng
    h = [hashlib.sha1(bytes([100 + i])).hexdigest() for i in range(4)]
    loose = {"HEAD": "ref: refs/heads/main", "refs/heads/topic/a": h[0], "refs/heads/looseonly": h[1], "refs/tags/loosetag": h[2]}
    first_ops = [["get_packed_refs"], ["read_ref", "refs/heads/main"], ["allkeys"], ["as_dict"], ["get_peeled", "refs/tags/v1"],
                 ["contains", "refs/tags/v2"], ["getitem", "HEAD"]]
    battery = [["get_packed_refs"], ["read_ref", "refs/heads/main"], ["read_ref", "refs/tags/v2"], ["read_ref", "refs/remotes/origin/main"],
               ["allkeys"], ["as_dict"], ["subkeys", "refs/tags"], ["get_peeled", "refs/tags/v1"], ["get_peeled", "refs/tags/v2"],
               ["contains", "refs/tags/v2"], ["contains", "refs/tags/v3"], ["getitem", "HEAD"], ["get_packed_refs"]]
    rewrites = [["add_packed_refs", {"refs/heads/new": h[3]}], ["pack_refs", True], ["pack_refs", False],
                ["delete", "refs/tags/v1"], ["delete", "refs/heads/main"], ["add_packed_refs", {"refs/tags/v2": h[3]}],
                ["add_packed_refs", {"refs/tags/v1": None}]]
    for bname, raw, damages in packed_refs_damages(rng, ctx.thorough):
        damages = [("undamaged", raw)] + damages
        runs, meta = [], []
        for tag, dmg in damages:
            fo = first_ops if ctx.thorough else (rng.sample(first_ops, 3) if not tag.startswith("byte@") else [rng.choice(first_ops)])
            for f in fo:
                runs.append({"packed": hx(dmg), "ops": [f] + battery})
                meta.append((tag, dmg, "reads"))
            runs.append({"packed": hx(dmg), "ops": [["get_packed_refs"], ["get_packed_refs"], rewrites[0], ["get_packed_refs"], ["get_packed_refs"]]})
            meta.append((tag, dmg, "cacheseq"))
            for rw in (rewrites if ctx.thorough else (rng.sample(rewrites, 3) if not tag.startswith("byte@") else [rng.choice(rewrites)])):
                runs.append({"packed": hx(dmg), "ops": [rng.choice(first_ops), rw, ["get_packed_refs"], ["allkeys"]]})
                meta.append((tag, dmg, "rewrite"))
        reps = []
        CH = 150
        for s in range(0, len(runs), CH):
            rep = w.ask({"mod": MOD, "op": "refs_stateful", "args": {"runs": runs[s:s + CH], "original": hx(raw), "loose": loose,
                                                                     "scratch": str(ctx.scratch)}}, timeout=60)
            if "r" not in rep:
                _process_failure(ctx, stream, {"file": f"packed-refs {bname}", "runs": f"{s}..{s + CH}"}, rep,
                                 "a long-lived refs container on a damaged packed-refs file", "refs-stateful")
                reps.extend([None] * len(runs[s:s + CH]))
            else:
                reps.extend(rep["r"])
        # correspondence: the cache model (Lean) on get / get / rewrite / get / get, its `parse` parameter instantiated with what a
        # fresh container makes of the same bytes
        mlines, mmeta = [], []
        for (tag, dmg, kind), run, steps in zip(meta, runs, reps):
            if steps is None or kind != "cacheseq":
                continue
            fresh0 = steps[0]["fresh"]
            if fresh0.startswith("ok "):
                n, e = len(json.loads(fresh0[3:])), 0
            else:
                n, e = 0, 1
                for line in dmg.split(b"\n"):
                    if line.startswith(b"#") or line.startswith(b"^") or not line:
                        continue
                    if _intact_refs(line):
                        n += 1
                    else:
                        break
            real = []
            for st in steps:
                g = st["got"]
                real.append("err" if g.startswith("err") else ("done" if "before" in st else f"ok {len(json.loads(g[3:]))}"))
            mlines.append(f"c04.refscache {n} {e} g g a g g")
            mmeta.append((tag, dmg, " | ".join(real)))
        for (tag, dmg, real), mo in zip(mmeta, ctx.driver.batch(mlines)):
            ctx.count(stream + ".model", (bname, dmg), True, f"cacheseq:{'err' if real.startswith('err') else 'ok'}")
            if mo != real:
                ctx.disagree(stream + ".model", {"file": f"packed-refs {bname}", "damage": tag, "content": hx(dmg), "ops": "get get add get get"},
                             mo, real, "DiskRefsContainer cache")
        for (tag, dmg, kind), run, steps in zip(meta, runs, reps):
            if steps is None:
                continue
            intact = _intact_refs(dmg)
            history = []
            any_failed = False
            for st in steps:
                op, got = st["op"], st["got"]
                case = {"file": f"packed-refs {bname}", "damage": tag, "content": hx(dmg), "original": hx(raw), "loose": loose,
                        "ops_before": list(history), "op": op, "got": got[:300]}
                history.append([op, got[:80]])
                if got.startswith("base "):
                    ctx.oracle_fail(stream, case, f"{op} raised {got[5:]}, not an ordinary Exception", "refs-stateful:baseexception")
                    continue
                if "fresh" in st:
                    ok = got.startswith("err ") or got == st["fresh"] or got == st["orig"]
                    ctx.count(stream, (bname, tag, json.dumps(run["ops"]), len(history)), True,
                              f"{kind}:{'after-failure' if any_failed else 'first'}:{op[0]}:{'raises' if got.startswith('err') else 'same-as-fresh' if got == st['fresh'] else 'same-as-undamaged' if got == st['orig'] else 'DIFFERENT'}")
                    if not ok:
                        ctx.oracle_fail(stream, dict(case, fresh=st["fresh"][:300], undamaged=st["orig"][:300]),
                                        f"after {'a FAILED read' if any_failed else 'earlier reads'} through the same DiskRefsContainer, {op} returns data that "
                                        f"neither a fresh container on the same bytes ({st['fresh'][:60]}…) nor the undamaged file gives: a silent subset",
                                        f"packed-refs-reader-state-after-failed-read:{op[0]}" if any_failed else f"packed-refs-reader-state:{op[0]}")
                else:
                    before = unhx(st["before"]) if st["before"] is not None else None
                    after = unhx(st["after"]) if st["after"] is not None else None
                    ctx.count(stream, (bname, tag, json.dumps(run["ops"]), len(history)), True,
                              f"rewrite:{op[0]}:{'raises' if got.startswith('err') else 'done'}:{'unchanged' if before == after else 'rewritten'}")
                    if st.get("lock_left"):
                        ctx.oracle_fail(stream, case, f"{op} left packed-refs.lock behind", "packed-refs-lock-left")
                    if got.startswith("err "):
                        if before != after:
                            ctx.oracle_fail(stream, dict(case, after=hx(after or b"")), f"{op} raised but the packed-refs file was changed",
                                            "packed-refs-failed-rewrite-changed-file")
                    elif after is not None and after != before:
                        dropped = set()
                        if op[0] == "pack_refs":
                            # a loose ref overrides its packed entry: packing writes the loose value
                            dropped = {k.encode() for k in loose if k != "HEAD" and (op[1] or k.startswith("refs/tags/"))}
                        elif op[0] == "delete":
                            dropped = {op[1].encode()}
                        elif op[0] == "add_packed_refs":
                            dropped = {k.encode() for k in op[1]}
                        now = _intact_refs(after)
                        lost = {n: s for n, s in intact.items() if n not in dropped and now.get(n) != s}
                        if lost:
                            ctx.oracle_fail(stream, dict(case, after=hx(after), lost={n.decode("latin1"): s.decode() for n, s in lost.items()}),
                                            f"{op} through a container that had read the DAMAGED file wrote a clean packed-refs file from which "
                                            f"{sorted(n.decode('latin1') for n in lost)} — intact in the damaged file — are missing: the damage was laundered",
                                            f"packed-refs-damage-laundered:{op[0]}")
                if got.startswith("err "):
                    any_failed = True


# ------------------------------------------------------------------------------------------------
# long-lived readers, continued: an Index object after a failed read(); a Pack (through its store) after a failed first access

def _index_entries(ix):
    from dulwich.index import ConflictedIndexEntry
    out = []
    for k in ix:
        e = ix[k]
        out.append([k.hex(), "conflict" if isinstance(e, ConflictedIndexEntry) else e.sha.decode("latin1")])
    return sorted(out)


def impl_index_stateful(a):
    """ONE Index object: (mode reread) it has read the good file, the file is replaced by the damaged one, read() again;
    (mode first) Index(path, read=False), read() on the damaged file.  Then: its entries, write(), and what the written file holds."""
    import shutil
    import tempfile
    import warnings
    warnings.simplefilter("ignore")
    from dulwich.index import Index
    out = []
    root = tempfile.mkdtemp(prefix="ixs", dir=a["scratch"])
    try:
        p = os.path.join(root, "index")
        good = unhx(a["original"])
        with open(p, "wb") as f:
            f.write(good)
        good_entries = _index_entries(Index(p))
        for run in a["runs"]:
            dmg = unhx(run["content"])
            rep = {"good": good_entries}
            with open(p, "wb") as f:
                f.write(good)
            if run["mode"] == "reread":
                ix = Index(p)
                rep["pre"] = _index_entries(ix)
            else:
                ix = Index(p, read=False)
                rep["pre"] = []
            with open(p, "wb") as f:
                f.write(dmg)
            try:
                ix.read()
                rep["read"] = "ok"
            except Exception as e:
                rep["read"] = "err " + type(e).__name__
            try:
                Index(p)
                rep["fresh"] = "ok"
            except Exception as e:
                rep["fresh"] = "err " + type(e).__name__
            rep["entries_after"] = _index_entries(ix)
            try:
                ix.write()
                rep["write"] = "ok"
                try:
                    rep["written"] = _index_entries(Index(p))
                except Exception as e:
                    rep["written"] = "unreadable " + type(e).__name__
            except Exception as e:
                rep["write"] = "err " + type(e).__name__
            out.append(rep)
    finally:
        shutil.rmtree(root, ignore_errors=True)
    return out


def impl_pack_stateful(a):
    """ONE DiskObjectStore over a directory whose pack was damaged after the index was written: the same reads three times"""
    import shutil
    import tempfile
    import warnings
    warnings.simplefilter("ignore")
    from dulwich.object_store import DiskObjectStore
    out = []
    root = tempfile.mkdtemp(prefix="pks", dir=a["scratch"])
    try:
        st = DiskObjectStore.init(os.path.join(root, "objects"))
        _do_ingest(st, "addpack", unhx(a["pack"]))
        st.close()
        pdir = os.path.join(root, "objects", "pack")
        pf = os.path.join(pdir, [f for f in os.listdir(pdir) if f.endswith(".pack")][0])
        orig = open(pf, "rb").read()
        os.chmod(pf, 0o644)
        names = a["names"]

        def probe(store, n):
            res = []
            nb = n.encode()
            for what in ("get_raw", "getitem", "contains"):
                try:
                    if what == "get_raw":
                        ty, raw = store.get_raw(nb)
                        res.append(f"ok {ty} {hashlib.sha1(raw).hexdigest()[:16]}")
                    elif what == "getitem":
                        res.append("ok " + _independent_id(store[nb])[:16])
                    else:
                        res.append("in" if nb in store else "not-in")
                except KeyError:
                    res.append("err KeyError")
                except Exception as e:
                    res.append("err " + type(e).__name__)
            return res
        st0 = DiskObjectStore(os.path.join(root, "objects"))
        undamaged = {n: probe(st0, n) for n in names}
        st0.close()
        for run in a["runs"]:
            with open(pf, "wb") as f:
                f.write(unhx(run["pack"]))
            rep = {"undamaged": undamaged, "rounds": [], "fresh": {}}
            st = DiskObjectStore(os.path.join(root, "objects"))
            try:
                for _round in range(3):
                    rep["rounds"].append({n: probe(st, n) for n in names})
            finally:
                st.close()
            for n in names:
                fs = DiskObjectStore(os.path.join(root, "objects"))
                try:
                    rep["fresh"][n] = probe(fs, n)
                finally:
                    fs.close()
            out.append(rep)
        with open(pf, "wb") as f:
            f.write(orig)
    finally:
        shutil.rmtree(root, ignore_errors=True)
    return out


def _stream_more_stateful(ctx, w):
    rng = ctx.rng
    # ---- Index objects
    stream = "index-stateful"
    for name, raw in _git_index_files(ctx)[:2 if not ctx.thorough else 4]:
        damages = []
        for pos in range(12, len(raw), 1 if ctx.thorough else 7):
            damages.append((f"flip@{pos}", raw[:pos] + bytes([raw[pos] ^ (1 << rng.randrange(8))]) + raw[pos + 1:]))
        for cut in (len(raw) - 1, len(raw) - 20, len(raw) - 25, len(raw) // 2):
            damages.append((f"trunc@{cut}", raw[:cut]))
        damages.append(("tail", raw + b"\0"))
        runs = [{"content": hx(d), "mode": m} for _, d in damages for m in ("reread", "first")]
        meta = [(tag, d, m) for tag, d in damages for m in ("reread", "first")]
        rep = w.ask({"mod": MOD, "op": "index_stateful", "args": {"original": hx(raw), "runs": runs, "scratch": str(ctx.scratch)}}, timeout=120)
        if "r" not in rep:
            _process_failure(ctx, stream, {"file": f"index {name}"}, rep, "a long-lived Index object on a damaged index file", "index-stateful")
            continue
        for (tag, dmg, mode), r in zip(meta, rep["r"]):
            case = {"file": f"index {name}", "damage": tag, "mode": mode, "content": hx(dmg), "original": hx(raw),
                    "read": r["read"], "entries_after": r["entries_after"][:6], "pre": r["pre"][:6]}
            ctx.count(stream, (name, tag, mode), True, f"{mode}:{r['read'].split(' ')[0]}:{'kept-pre-state' if r['entries_after'] == r['pre'] else 'CHANGED' if r['read'] != 'ok' else 'loaded'}")
            if r["read"].startswith("err"):
                if r["entries_after"] not in (r["pre"], r["good"]):
                    ctx.oracle_fail(stream, case, f"Index.read() raised {r['read'][4:]} but the same Index object now holds entries of the damaged file "
                                    f"({len(r['entries_after'])} entries; before the call {len(r['pre'])}): a later use of the object works on unverified data",
                                    "index-object-keeps-entries-of-failed-read")
                if r.get("write") == "ok" and isinstance(r.get("written"), list) and r["written"] not in (r["pre"], r["good"]):
                    ctx.oracle_fail(stream, dict(case, written=r["written"][:6]), "write() through the Index object whose read() had failed wrote a clean, "
                                    "verifying index file with the entries of the damaged file: the damage was laundered", "index-damage-laundered")
    # ---- Pack objects behind a long-lived store: the pack file replaced under its index
    stream = "pack-stateful"
    A, B = _midx_objects()
    pa = build_pack("a", [("full", 3, b) for b in A], level=0).data
    pb = build_pack("b", [("full", 3, b) for b in B], level=0).data      # same count, same offsets, same lengths, other objects
    names = [obj_name(3, b).hex() for b in A]
    damages = [("undamaged", pa), ("trailer-flip", pa[:-1] + bytes([pa[-1] ^ 1])), ("other-pack-same-layout", pb),
               ("other-pack-with-this-trailer", pb[:-20] + pa[-20:]), ("appended-byte", pa + b"\0"), ("truncated-trailer", pa[:-3]),
               ("count+1", pa[:8] + struct.pack(">L", 5) + pa[12:]), ("body-flip", pa[:30] + bytes([pa[30] ^ 0x20]) + pa[31:])]
    rep = w.ask({"mod": MOD, "op": "pack_stateful", "args": {"pack": hx(pa), "names": names, "runs": [{"pack": hx(d)} for _, d in damages],
                                                             "scratch": str(ctx.scratch)}}, timeout=120)
    if "r" not in rep:
        _process_failure(ctx, stream, {"file": "pack"}, rep, "a long-lived store on a damaged pack", "pack-stateful")
        return
    for (tag, dmg), r in zip(damages, rep["r"]):
        for ri, rnd in enumerate(r["rounds"]):
            for n in names:
                for got, fresh, und, what in zip(rnd[n], r["fresh"][n], r["undamaged"][n], ("get_raw", "getitem", "contains")):
                    ok = got.startswith("err") or got == fresh or got == und
                    ctx.count(stream, (tag, ri, n, what), True, f"{tag}:round{ri}:{what}:{'raises' if got.startswith('err') else 'same-as-fresh' if got == fresh else 'same-as-undamaged' if got == und else 'DIFFERENT'}")
                    if not ok:
                        ctx.oracle_fail(stream, {"damage": tag, "pack": hx(dmg), "original": hx(pa), "name": n, "round": ri, "op": what, "got": got,
                                                 "fresh": fresh, "undamaged": und, "first_round": r["rounds"][0][n]},
                                        f"access number {ri + 1} through the same store object: {what}({n[:12]}) returns {got} where a fresh store gives {fresh} "
                                        f"and the undamaged pack {und}: the check that failed on the first access is skipped afterwards",
                                        "pack-object-skips-check-after-failed-first-access")
                    elif ri > 0 and not got.startswith("err") and r["rounds"][0][n][("get_raw", "getitem", "contains").index(what)].startswith("err") \
                            and fresh.startswith("err"):
                        ctx.oracle_fail(stream, {"damage": tag, "pack": hx(dmg), "original": hx(pa), "name": n, "round": ri, "op": what, "got": got,
                                                 "fresh": fresh, "first_round": r["rounds"][0][n]},
                                        f"{what}({n[:12]}) raised on the first access ({r['rounds'][0][n]}) and on a fresh store ({fresh}) but answers {got} on "
                                        f"access number {ri + 1} through the same store object: the failed check is not repeated",
                                        "pack-object-skips-check-after-failed-first-access")


# ------------------------------------------------------------------------------------------------
# damaged multi-pack-index, seen through the STORE (core.multiPackIndex on): reads and delta resolution of thin packs

_MIDX_T: dict = {}


def _midx_objects():
    """two packs of four 51-byte blobs each, stored uncompressed: every entry is 64 bytes long, so the offsets are
    12, 76, 140, 204 — several pairs differ in a single bit, and all objects have EQUAL length (a redirected offset
    still yields an object a delta applies to)"""
    A = [(b"A%d " % i) * 16 + b"end" for i in range(4)]
    B = [(b"B%d " % i) * 16 + b"end" for i in range(4)]
    assert all(len(x) == 51 for x in A + B)
    return A, B


def _midx_template(scratch: str):
    import tempfile
    import warnings
    warnings.simplefilter("ignore")
    from dulwich.object_store import DiskObjectStore
    if _MIDX_T.get("scratch") == scratch and os.path.exists(_MIDX_T.get("root", "/nonexistent")):
        return _MIDX_T
    root = tempfile.mkdtemp(prefix="midx", dir=scratch)
    st = DiskObjectStore.init(os.path.join(root, "objects"))
    A, B = _midx_objects()
    for blobs in (A, B):
        pk = build_pack("m", [("full", 3, b) for b in blobs], level=0)
        assert pk.offsets == [12, 76, 140, 204], pk.offsets
        _do_ingest(st, "addpack", pk.data)
    st.write_midx()
    st.close()
    path = os.path.join(root, "objects", "pack", "multi-pack-index")
    _MIDX_T.clear()
    _MIDX_T.update({"scratch": scratch, "root": root, "path": path, "midx": open(path, "rb").read(),
                    "names": [obj_name(3, b).hex() for b in A + B]})
    return _MIDX_T


def impl_midx_template(a):
    tm = _midx_template(a["scratch"])
    return {"midx": hx(tm["midx"]), "names": tm["names"]}


def _all_packs_consistent(objects_dir: str, bad: list):
    for f in sorted(os.listdir(os.path.join(objects_dir, "pack"))):
        if f.endswith(".idx"):
            _check_new_pack(os.path.join(objects_dir, "pack", f[:-4]), bad)


def impl_midx_batch(a):
    """each mutant of the multi-pack-index: store-level reads of every object, then (ingest=true) thin packs whose REF_DELTA bases
    live in the packs the MIDX covers, through every ingestion path; afterwards every entry of every pack must hash to its name"""
    import shutil
    import warnings
    warnings.simplefilter("ignore")
    from dulwich.object_format import SHA1
    from dulwich.object_store import DiskObjectStore
    from dulwich.pack import PackData
    import io
    tm = _midx_template(a["scratch"])
    A, B = _midx_objects()
    names = tm["names"]
    bases = [A[1], B[2], A[3]]
    targets = [b[:20] + b"XYZ" + b[23:] for b in bases]          # same length, copy-insert-copy deltas
    thin = build_pack("t", [("ref", ("ext", i), targets[i]) for i in range(len(bases))], ext=[(3, b) for b in bases]).data
    out = []
    try:
        for m in a["mutants"]:
            rep = {"reads": [], "bad": []}
            with open(tm["path"], "wb") as f:
                f.write(unhx(m["midx"]))
            st = DiskObjectStore(os.path.join(tm["root"], "objects"))
            try:
                for n in names:
                    nb = n.encode()
                    for what in ("get_raw", "getitem", "contains", "contains_packed"):
                        try:
                            if what == "get_raw":
                                ty, raw = st.get_raw(nb)
                                got = hashlib.sha1(TYPE_NAMES.get(ty, b"?") + b" " + str(len(raw)).encode() + b"\0" + raw).hexdigest()
                                if got != n:
                                    rep["bad"].append(f"get_raw({n[:12]}) returned an object hashing to {got[:12]}")
                                r = "ok"
                            elif what == "getitem":
                                o = st[nb]
                                if _independent_id(o) != n:
                                    rep["bad"].append(f"store[{n[:12]}] returned an object hashing to {_independent_id(o)[:12]}")
                                r = "ok"
                            elif what == "contains":
                                r = "in" if nb in st else "not-in"
                            else:
                                r = "in" if st.contains_packed(nb) else "not-in"
                        except KeyError:
                            r = "KeyError"
                        except Exception as e:
                            r = type(e).__name__
                        rep["reads"].append(r)
                try:
                    ids = sorted(set(st))
                    if sorted(x.decode() for x in ids) != sorted(names):
                        rep["reads"].append(f"iter:{len(ids)}")
                    else:
                        rep["reads"].append("iter:all")
                except Exception as e:
                    rep["reads"].append("iter:" + type(e).__name__)
            finally:
                st.close()
            if m.get("ingest"):
                work = tm["root"]
                keep = {p_ for p_, _ in _listing(work)}
                for path in m.get("paths") or ("thin", "addpack", "packdata"):
                    st = DiskObjectStore(os.path.join(work, "objects"))
                    try:
                        try:
                            _do_ingest(st, path, thin)
                            res = "ok"
                        except Exception as e:
                            res = "err " + type(e).__name__
                        except BaseException as e:
                            if isinstance(e, KeyboardInterrupt):
                                raise
                            res = "base " + type(e).__name__
                        rep.setdefault("ingest", {})[path] = res
                        bad: list = []
                        _all_packs_consistent(os.path.join(work, "objects"), bad)
                        for b in bad:
                            rep["bad"].append(f"after {path} ({res}): {b}")
                        if res == "ok":
                            for tgt in targets:
                                tn = obj_name(3, tgt).hex().encode()
                                try:
                                    o = st[tn]
                                    if _independent_id(o) != tn.decode():
                                        rep["bad"].append(f"after {path}: store[{tn.decode()[:12]}] hashes to {_independent_id(o)[:12]}")
                                except KeyError:
                                    rep["bad"].append(f"after {path} (ok): the object the thin pack encodes ({tn.decode()[:12]}) is not in the store: "
                                                      "its delta was applied to another base")
                                except Exception:
                                    pass
                    finally:
                        st.close()
                        for p_, _ in _listing(work):
                            if p_ not in keep:
                                os.remove(os.path.join(work, p_))
            out.append(rep)
    finally:
        with open(tm["path"], "wb") as f:
            f.write(tm["midx"])
    return out


def _midx_regions(raw: bytes):
    """chunk id -> (start, end) from the chunk table (independent reading of the format)"""
    nchunks = raw[6]
    table = 12
    ents = []
    for i in range(nchunks + 1):
        cid = raw[table + 12 * i: table + 12 * i + 4]
        off = struct.unpack(">Q", raw[table + 12 * i + 4: table + 12 * i + 12])[0]
        ents.append((cid, off))
    reg = {"header": (0, 12), "chunk-table": (12, 12 + 12 * (nchunks + 1)), "trailer": (len(raw) - 20, len(raw))}
    for (cid, off), (_c2, nxt) in zip(ents, ents[1:]):
        reg[cid.decode("latin1")] = (off, nxt)
    return reg


def _stream_midx(ctx, w):
    stream = "midx"
    rep = w.ask({"mod": MOD, "op": "midx_template", "args": {"scratch": str(ctx.scratch)}}, timeout=60)
    if "r" not in rep:
        ctx.oracle_fail(stream, {"step": "template"}, f"two packs + write_midx() failed: {rep}", "midx-template")
        return
    raw, names = unhx(rep["r"]["midx"]), rep["r"]["names"]
    reg = _midx_regions(raw)
    ctx.extra_cov["midx_regions"] = {k: list(v) for k, v in reg.items()}

    def region_of(pos):
        for k, (a_, b_) in reg.items():
            if a_ <= pos < b_:
                return k
        return "?"
    muts = []
    for pos in range(len(raw)):
        r = region_of(pos)
        dense = r in ("header", "chunk-table", "OIDL", "OOFF", "LOFF", "trailer", "PNAM")
        if not ctx.thorough and not dense and pos % 16 != ctx.seed % 16:
            continue
        for bit in range(8):
            if not ctx.thorough and r in ("OIDL", "PNAM") and bit not in (0, 7) and (pos + bit) % 4:
                continue
            m = raw[:pos] + bytes([raw[pos] ^ (1 << bit)]) + raw[pos + 1:]
            if ctx.thorough:
                ing = r in ("OOFF", "LOFF", "OIDL", "chunk-table") or (pos * 8 + bit) % 16 == 0
            else:
                # OOFF entries are (pack id: 4 bytes, offset: 4 bytes): the low bytes are where one bit leads to another valid pack / offset
                ing = (r in ("OOFF", "LOFF") and (pos - reg[r][0]) % 4 == 3) or (pos * 8 + bit) % 96 == 0
            muts.append((f"{r}:bit", pos, m, ing))
    for cut in range(0, len(raw), 1 if ctx.thorough else 37):
        muts.append(("trunc", cut, raw[:cut], cut % 5 == 0))
    muts.append(("tail", len(raw), raw + b"\0" * 8, True))
    muts.append(("undamaged", 0, raw, True))
    CH = 60
    for s in range(0, len(muts), CH):
        part = muts[s:s + CH]
        rp = w.ask({"mod": MOD, "op": "midx_batch", "args": {"scratch": str(ctx.scratch), "mutants": [{"midx": hx(m), "ingest": ing, "paths": None if ctx.thorough else ["thin", "addpack"]}
                                                                                          for _, _, m, ing in part]}},
                   timeout=120)
        if "r" not in rp:
            # isolate
            for tag, pos, m, ing in part:
                r1 = w.ask({"mod": MOD, "op": "midx_batch", "args": {"scratch": str(ctx.scratch), "mutants": [{"midx": hx(m), "ingest": ing}]}}, timeout=20)
                case = {"file": "multi-pack-index", "mutation": tag, "pos": pos, "midx": hx(m)}
                if not _process_failure(ctx, stream, case, r1, "store-level reads / thin-pack ingestion with a damaged multi-pack-index", "midx"):
                    _midx_judge(ctx, stream, tag, pos, m, ing, r1["r"][0], names)
            continue
        for (tag, pos, m, ing), r in zip(part, rp["r"]):
            _midx_judge(ctx, stream, tag, pos, m, ing, r, names)


def _midx_judge(ctx, stream, tag, pos, m, ing, r, names):
    case = {"file": "multi-pack-index", "mutation": tag, "pos": pos, "midx": hx(m), "names": names}
    for b in r["bad"]:
        cls = "midx-store-returns-misnamed-object" if ("get_raw(" in b or "store[" in b) and "after " not in b else \
              ("midx-ingest-misnamed-pack-entry" if "not-self-contained" in b or "hashes to" in b else "midx-ingest-delta-applied-to-wrong-base")
        ctx.oracle_fail(stream, dict(case, detail=b, ingest=r.get("ingest")),
                        "with a damaged multi-pack-index the store hands out / stores an object under a name it does not hash to: " + b, cls)
    if tag == "undamaged":
        if any(x not in ("ok", "in", "iter:all") for x in r["reads"]) or any(v != "ok" for k, v in r.get("ingest", {}).items() if k != "packdata"):
            ctx.oracle_fail(stream, dict(case, reads=r["reads"], ingest=r.get("ingest")), "the undamaged multi-pack-index does not serve every object", "midx-undamaged-broken")
    outcome = "all-ok" if all(x in ("ok", "in", "iter:all") for x in r["reads"]) else "some-error-or-miss"
    ctx.count(stream, (tag, pos, m), True, f"{tag}:{outcome}{':ingest=' + ','.join(sorted(set(r['ingest'].values()))) if r.get('ingest') else ''}")


# ------------------------------------------------------------------------------------------------
# input-size cap (receive.maxInputSize / add_thin_pack(max_input_size=N)) against peers that never stop sending

CAP = 256 * 1024
CAP_SLACK = 2 * 65536 + 4096      # one zlib read buffer + one protocol read buffer + headers
CAP_HARD = CAP + 16 * 1024 * 1024


def _stream_capped(ctx, w):
    stream = "input-cap"
    for attack in ("endless-empty-stored-blocks", "endless-stream-in-ref-delta", "endless-stream-after-valid-entry",
                   "endless-tiny-entries", "valid-pack-larger-than-cap", "valid-pack-below-cap"):
        for mode, kind in (("direct", "disk"), ("server", "disk")):
            rep = w.ask({"mod": MOD, "op": "capped", "args": {"attack": attack, "mode": mode, "kind": kind, "cap": CAP, "hard": CAP_HARD,
                                                               "scratch": str(ctx.scratch)}}, timeout=30)
            case = {"attack": attack, "path": "add_thin_pack(read_all, read_some, max_input_size=N)" if mode == "direct" else
                    "ReceivePackHandler with receive.maxInputSize=N", "cap": CAP}
            if _process_failure(ctx, stream, case, rep, "a pack that never ends against the input cap", f"input-cap-{mode}"):
                continue
            r = rep["r"]
            case["reply"] = {k: r.get(k) for k in ("res", "exc", "handed", "calls", "t", "reply", "newfiles", "ids", "refs")}
            ctx.count(stream, (attack, mode), True, f"{mode}:{attack}:{r['res']}{':' + r.get('exc', '') if r.get('exc') else ''}")
            budget = CAP + CAP_SLACK + r.get("cmd_bytes", 0)
            if attack == "valid-pack-below-cap":
                rejected = r["res"] != "ok" or (mode == "server" and "unpack ok" not in r.get("reply", ""))
                if rejected:
                    ctx.oracle_fail(stream, case, f"a valid {r['handed']}-byte pack below the cap of {CAP} bytes is rejected", "input-cap-false-positive")
                continue
            if r["res"].startswith("base "):
                ctx.oracle_fail(stream, case, f"raised {r['res'][5:]}, not an ordinary Exception", "input-cap:baseexception")
            if r["handed"] > budget:
                ctx.oracle_fail(stream, case, f"the reader consumed {r['handed']} bytes from the peer although the input is capped at {CAP} bytes "
                                f"(allowed: cap + read buffers = {budget}); outcome {r['res']} {r.get('exc')}", f"input-cap-exceeded:{mode}")
            accepted = r["res"] == "ok" and (mode == "direct" or "unpack ok" in r.get("reply", ""))
            if accepted:
                ctx.oracle_fail(stream, case, "input beyond the cap was accepted", f"input-cap-accepted:{mode}")
            if r.get("t", 0) > 10:
                ctx.oracle_fail(stream, case, f"took {r['t']} s", "input-cap-slow")
            if accepted:
                continue
            if r.get("ids") or (mode == "server" and r.get("refs")):
                ctx.oracle_fail(stream, case, f"the rejected push left objects or refs behind: ids={r.get('ids')} refs={r.get('refs')}",
                                "input-cap-left-trace")
            if r.get("newfiles"):
                ctx.oracle_fail(stream, case, f"the rejected push left files behind: {r['newfiles']}", "input-cap-left-files")
            ctx.extra_cov.setdefault("input_cap", {})[f"{mode}:{attack}"] = {"res": r["res"], "exc": r.get("exc"), "handed": r["handed"], "t": r["t"]}


# ------------------------------------------------------------------------------------------------
# corpus (witnesses of the known findings and past failures) — replayed first

def _eval_case(ctx, w, c: dict, stream: str):
    """re-evaluate one stored case with the same oracles the streams use"""
    kind = c.get("kind")
    if kind == "ingest":
        pre = [(ty, unhx(d)) for ty, d in c.get("pre", [])]
        _stream_ingest(ctx, w, c.get("pack", "corpus"), pre, [(c.get("mutation", "corpus"), unhx(c["input"]))], c.get("expect", []),
                       combos=[(c["store"], c["path"])], stream=stream, pre_mode=c.get("pre_mode", "loose"))
    elif kind == "parse":
        _stream_parse(ctx, w, c.get("pack", "corpus"), [(c.get("mutation", "corpus"), unhx(c["input"]))], stream=stream)
    elif kind == "random-access":
        pack = unhx(c["pack"])
        idx = [(unhx(n), o) for n, o in c["index"]]
        ext = [(ty, unhx(d)) for ty, d in c.get("ext", [])]
        name = unhx(c["name"])
        args = {"pack": hx(pack), "idx": hx(write_idx_v2(idx, pack[-20:])), "ext": [[ty, hx(d)] for ty, d in ext], "name": hx(name),
                "scratch": str(ctx.scratch)}
        rep = w.ask({"mod": MOD, "op": "random_access", "args": dict(args, what="pack")}, timeout=4.0)
        ctx.count(stream, ("ra", c["pack"], c["name"]), True, "random-access")
        if rep.get("crash") == "timeout":
            ctx.oracle_fail(stream, c, "Pack.get_raw on a crafted pack+index: did not return within 4 s",
                            "random-access-ref-delta-cycle-nonterminating" if c.get("cyclic") else "random-access:corpus:fuel")
        elif "r" not in rep:
            ctx.oracle_fail(stream, c, f"Pack.get_raw on a crafted pack+index: {rep}", "random-access:corpus:crash")
    elif kind == "index-file":
        reps = _ask_batched(w, "files_batch", {"kind": "index", "scratch": str(ctx.scratch)}, [unhx(c["original"]), unhx(c["content"])])
        ctx.count(stream, ("index", c["content"]), True, "index-file")
        if any(not isinstance(r, dict) or "res" not in r for r in reps):
            ctx.oracle_fail(stream, c, f"reading the index: {reps}", "index:crash")
            return
        o, r = reps
        m = unhx(c["content"])
        if r["res"] == "ok" and not (len(m) >= 20 and (sha1(m[:-20]) == m[-20:] or m[-20:] == b"\0" * 20)) and r["entries"] != o.get("entries"):
            left = r.get("left_at_check")
            cls, why = _index_accept_class(m, left)
            ctx.oracle_fail(stream, dict(c, left_at_check=left), "a damaged index file whose checksum does not verify was accepted with altered entries" + why, cls)


def _run_corpus(ctx, w):
    d = core.VERIF / "corpus" / "C04"
    if not d.exists():
        return
    for f in sorted(d.glob("*.json")):
        c = json.loads(f.read_text())
        _eval_case(ctx, w, c, "corpus")


# ------------------------------------------------------------------------------------------------

def _sha1_selftest(ctx):
    rng = ctx.rng
    msgs = [b"", b"abc", b"a" * 55, b"a" * 56, b"a" * 63, b"a" * 64, b"a" * 65, b"a" * 119, b"a" * 120] + \
           [rng.randbytes(rng.choice([1, 20, 54, 57, 100, 127, 128, 129, 1000])) for _ in range(ctx.budget(40))]
    outs = ctx.driver.batch([f"c04.sha1 {hx(m)}" for m in msgs])
    for m, o in zip(msgs, outs):
        ctx.count("sha1", m, True, "sha1")
        if o != hashlib.sha1(m).hexdigest():
            raise core.InfraError(f"driver SHA-1 is wrong on {hx(m)[:40]}")


def _select(rng, cases, n):
    """all truncations/tails first (up to n/2), then a random sample of the rest"""
    if len(cases) <= n:
        return list(cases)
    tt = [c for c in cases if c[0] in ("trunc", "tail")]
    rest = [c for c in cases if c[0] not in ("trunc", "tail")]
    if len(tt) > n // 2:
        tt = rng.sample(tt, n // 2)
    return tt + rng.sample(rest, min(len(rest), n - len(tt)))


def run(ctx: core.Ctx):
    rng = ctx.rng
    gen = (core.LEAN_DIR / "DulwichModel" / "Gen" / "Ingest.lean").read_text()
    import re
    m = re.search(r"def applyPackFamily : List String := \[(.*)\]", gen)
    ctx.extra_cov["apply_pack_family"] = json.loads("[" + m.group(1) + "]") if m else []
    ctx.assumptions += [
        "zlib is a parameter of the model: for every request the harness supplies the system zlib's actual behaviour on that input "
        "(complete streams found at each offset) and the model decides framing, sizes, trailer, delta resolution and visibility",
        "SHA-1 is a parameter of the theorems; the driver's implementation is compared with hashlib every run",
        "object-content parsing (dulwich/objects.py, property C01) is a parameter `valid` instantiated by calling the real parser",
        "PackStreamReader model: the stream is shorter than the 64 KiB read buffer (one recv drains the wire)",
        "termination and resource use are observed on the real code in children: 4-8 s wall limit per call, RLIMIT_AS 1-2 GiB, "
        "peak-RSS growth < 48 MiB for a 128 MiB bomb",
        "directory listings are compared byte-for-byte (names and sizes) under the object directory; crash states are the "
        "file-system snapshots taken before every mutating system call (buffered writes not yet flushed are lost, as in a crash)",
    ]
    packs = valid_packs(rng)
    w = core.Worker("py", mem_mb=2048)
    wd = core.Worker("default", mem_mb=2048)
    import time
    walls = ctx.extra_cov.setdefault("stream_wall_s", {})

    class timed:
        def __init__(self, name):
            self.name = name

        def __enter__(self):
            self.t = time.time()

        def __exit__(self, *a):
            walls[self.name] = round(walls.get(self.name, 0) + time.time() - self.t, 1)
    try:
        _sha1_selftest(ctx)
        with timed("corpus"):
            _run_corpus(ctx, w)
        # 1. framing: every mutant of every pack through both readers and the model
        stride = 1 if ctx.thorough else 2
        n_ing = ctx.budget(90)
        for p in packs:
            allm = list(mutants_of(p.data, p.struct_pos, rng, ctx.thorough, flip_stride=stride if len(p.data) > 200 else 1))
            with timed("parse"):
                _stream_parse(ctx, w, p.name, [("valid", p.data)] + allm)
            # 2. ingestion paths x store kinds on the valid pack and a selection of its mutants
            ids = [obj_name(ty, d).hex() for ty, d in p.objects]
            sel = [("valid", p.data)] + _select(rng, allm, n_ing)
            with timed("ingest"):
                _stream_ingest(ctx, w, p.name, p.ext, sel, ids)
            extra = [("valid", p.data)] + rng.sample(allm, min(len(allm), max(4, n_ing // 8)))
            with timed("ingest.aux+rust"):
                _stream_ingest(ctx, w, p.name, p.ext, extra, ids, combos=[("disk", "thin-recv"), ("disk", "addpack-abort")], stream="ingest.aux")
                _stream_ingest(ctx, wd, p.name + " [rust]", p.ext, extra, ids, combos=[("disk", "thin"), ("mem", "addpack")], stream="ingest.rust")
        if len(ctx.samples) < 3:
            p = packs[5]
            ctx.sample({"stream": "parse/ingest", "pack": p.name, "bytes": hx(p.data), "objects": [[ty, hx(d)[:40]] for ty, d in p.objects]})
        # 3. grammar-aware attacks through everything
        bypre: dict = {}
        for tag, data, pre, ids, mode in attacks(rng):
            g = bypre.setdefault((tuple(pre), mode), ([], set()))
            g[0].append((tag, data))
            g[1].update(ids)
        t_att = time.time()
        for (pre, mode), (cases, ids) in bypre.items():
            ids = sorted(ids)
            _stream_parse(ctx, w, "attack", cases, stream="attack.parse")
            _stream_ingest(ctx, w, "attack", list(pre), cases, ids, stream="attack.ingest", pre_mode=mode)
            _stream_ingest(ctx, wd, "attack [rust]", list(pre), cases, ids, combos=[("disk", "thin"), ("mem", "thin"), ("disk", "addpack")],
                           stream="attack.ingest.rust", pre_mode=mode)
            _stream_ingest(ctx, w, "attack", list(pre), cases, ids, combos=[("disk", "thin-recv"), ("disk", "addpack-abort")],
                           stream="attack.ingest.aux", pre_mode=mode)
        ctx.sample({"stream": "attack", "tags": [a[0] for a in attacks(rng)][:80]})
        walls["attacks"] = round(time.time() - t_att, 1)
        # 4. random access with attacker-controlled indexes
        with timed("random-access"):
            _stream_random_access(ctx, w, packs)
        # 5. system-call programs, crash snapshots, injected faults
        with timed("fs"):
            _stream_fs(ctx)
        # 6. pack indexes, loose objects, index files, packed-refs
        with timed("files"):
            _stream_files(ctx, w, packs)
        # 7. decompression bombs
        with timed("bombs"):
            _stream_bombs(ctx)
        # 5b. a one-shot fault at every interposed system call of every ingestion path, with the store options that add calls
        with timed("faults"):
            _stream_faults(ctx)
        # 7b. long-lived readers: state left behind by a FAILED read (packed-refs cache), then reads and rewrites through it
        with timed("refs-stateful"):
            _stream_refs_stateful(ctx, w)
        with timed("index+pack-stateful"):
            _stream_more_stateful(ctx, w)
        # 7c. damaged multi-pack-index through the store-level read paths and thin-pack delta resolution
        with timed("midx"):
            _stream_midx(ctx, w)
        # 8. peers that never stop sending vs the input cap (separate read_all / read_some; real receive-pack handler)
        with timed("input-cap"):
            _stream_capped(ctx, w)
    finally:
        w.close()
        wd.close()


def search(ctx: core.Ctx):
    """A proof obligation, the translator or the correspondence broke: hit the direct oracle harder — every attack and a
    large sample of mutants through every path (both variants), the thorough random-access cases, bombs."""
    rng = ctx.rng
    w = core.Worker("py", mem_mb=2048)
    try:
        packs = valid_packs(rng)
        saved = ctx.tier
        ctx.thorough = True
        try:
            _stream_random_access(ctx, w, packs)
            if ctx.oracle_failures:
                return
            _stream_bombs(ctx)
            _stream_capped(ctx, w)
            if ctx.oracle_failures:
                return
            groups: dict = {}
            for tag, data, pre, ids, mode in attacks(rng):
                g = groups.setdefault((tuple(pre), mode), ([], set()))
                g[0].append((tag, data))
                g[1].update(ids)
            for (pre, mode), (cases, ids) in groups.items():
                _stream_ingest(ctx, w, "attack", list(pre), cases, sorted(ids), stream="search.attack", pre_mode=mode)
            _stream_refs_stateful(ctx, w)
            _stream_more_stateful(ctx, w)
            _stream_midx(ctx, w)
            if ctx.oracle_failures:
                return
            for d in ctx.disagreements[:40]:
                c = d["case"]
                if "input" in c and "store" in c:
                    _stream_ingest(ctx, w, "search", [(ty, unhx(x)) for ty, x in c.get("pre", [])], [("disagreeing", unhx(c["input"]))], c.get("expect", []),
                                   stream="search.ingest", pre_mode=c.get("pre_mode", "loose"))
                elif "input" in c:
                    _stream_parse(ctx, w, "search", [("disagreeing", unhx(c["input"]))], stream="search.parse")
                    _stream_ingest(ctx, w, "search", [], [("disagreeing", unhx(c["input"]))], [], stream="search.ingest")
            if ctx.oracle_failures:
                return
            for p in packs:
                allm = list(mutants_of(p.data, p.struct_pos, rng, False))
                ids = [obj_name(ty, d).hex() for ty, d in p.objects]
                _stream_ingest(ctx, w, p.name, p.ext, _select(rng, allm, 400), ids, stream="search.ingest")
                if ctx.oracle_failures:
                    return
            _stream_files(ctx, w, packs)
        finally:
            ctx.thorough = saved == "thorough"
    finally:
        w.close()


def replay(ctx: core.Ctx, data: dict) -> int:
    c = dict(data.get("case", {}))
    w = core.Worker("py", mem_mb=2048)
    try:
        if "scenario" in c:
            _stream_fs(ctx)
        elif "store" in c and "input" in c and c.get("store") in ("disk", "mem"):
            _eval_case(ctx, w, dict(c, kind="ingest"), "replay")
        elif "reader" in c and "input" in c:
            _eval_case(ctx, w, dict(c, kind="parse"), "replay")
        elif "index" in c and "name" in c:
            _eval_case(ctx, w, dict(c, kind="random-access", cyclic=str(c.get("case", "")).startswith("cycle")), "replay")
        elif "original" in c and "content" in c:
            _eval_case(ctx, w, dict(c, kind="index-file"), "replay")
        elif "bomb" in c:
            _stream_bombs(ctx)
        elif "attack" in c and "cap" in c:
            _stream_capped(ctx, w)
        else:
            packs = valid_packs(ctx.rng)
            _stream_files(ctx, w, packs)
        for k, n in ctx.known_hit.items():
            print(f"replay: matches known finding {k} ({n}x)")
        for f in ctx.oracle_failures[:5]:
            print("replay:", f["what"][:300])
        if ctx.oracle_failures:
            print(f"VIOLATION property=C04 replay={data.get('_path', '<replayed>')}")
            return 1
        print("replay: property holds on this case" if not ctx.known_hit else "replay: only known findings reproduced")
        return 0
    finally:
        w.close()
