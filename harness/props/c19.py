"""C19 — pkt-line and side-band framing round-trips under any read chunking.

Model: lean/DulwichModel/Model/PktLine.lean; theorems: Props/C19.lean (lemmas: Lemmas/PktLine.lean).
Tie: translate() regenerates Gen/PktLine.lean (every constant of the codec, by matching the anchored
functions against code templates), run() drives the correspondence streams (model vs real
Protocol / ReceivableProtocol / PktLineParser / BufferedPktLineWriter / capability helpers /
PackStreamReader._read) and the direct oracle (round trip under chunking, frame well-formedness
against an independent reference framer, decoder totality, C git as a peer).
"""
from __future__ import annotations

import ast
import io
import itertools
import json
import re
import subprocess
from pathlib import Path

from .. import core, translate as T
from ..core import hx, unhx

MOD = "c19"

# git's pkt-line.h: LARGE_PACKET_MAX (whole frame) / LARGE_PACKET_DATA_MAX (payload).  External
# constants of the wire format (not in dulwich's code); the oracle and the model's `gitLargePacketMax`
# use them.
GIT_LARGE_PACKET_MAX = 65520
GIT_DATA_MAX = GIT_LARGE_PACKET_MAX - 4


# ------------------------------------------------------------------------------------------------
# translator: the anchored functions are matched against code templates; the captured constants go
# to Gen/PktLine.lean.  A function whose shape no longer matches is a broken tie (TranslateError).

def _strip_noise(fn: ast.AST) -> ast.AST:
    """Drop docstrings, logging and activity reporting (they do not touch the data path)."""
    fn = ast.parse(ast.unparse(fn)).body[0]  # private copy

    def is_logger_call(st):
        return isinstance(st, ast.Expr) and isinstance(st.value, ast.Call) and \
            isinstance(st.value.func, ast.Attribute) and isinstance(st.value.func.value, ast.Name) and \
            st.value.func.value.id == "logger"

    def is_noise(st):
        if isinstance(st, ast.Expr) and isinstance(st.value, ast.Constant) and isinstance(st.value.value, str):
            return True
        if is_logger_call(st):
            return True
        if isinstance(st, ast.If):
            t = ast.unparse(st.test)
            if t == "self.report_activity":
                return True
            if all(is_logger_call(s) or isinstance(s, ast.Pass) for s in st.body + st.orelse):
                return True
        return False

    class V(ast.NodeTransformer):
        def generic_visit(self, node):
            super().generic_visit(node)
            for field in ("body", "orelse", "finalbody"):
                b = getattr(node, field, None)
                if isinstance(b, list) and b and isinstance(b[0], ast.stmt):
                    nb = [s for s in b if not is_noise(s)]
                    if not nb and field == "body":
                        nb = [ast.Pass()]
                    setattr(node, field, nb)
            return node
    return V().visit(fn)


def _match(tree, qualname: str, template: str) -> dict:
    fn = _strip_noise(T.find_def(tree, qualname))
    src = ast.unparse(fn)
    # signature line is not part of the template
    body = src.split("\n", 1)[1] if "\n" in src else ""
    body = "\n".join(l.rstrip() for l in body.splitlines())
    import textwrap
    tmpl = textwrap.indent(textwrap.dedent(template).strip(), "    ")
    seen = set()
    rx = ""
    for part in re.split(r"(«\w+»)", tmpl):
        if part.startswith("«"):
            name = part[1:-1]
            if name in seen:
                rx += f"(?P={name})"
            else:
                seen.add(name)
                rx += f"(?P<{name}>\\d+)"
        else:
            rx += re.escape(part)
    m = re.fullmatch(rx, body)
    if not m:
        raise T.TranslateError(f"{qualname}: source no longer matches the modelled shape:\n{body}")
    return {k: int(v) for k, v in m.groupdict().items()}


def translate(repo: Path) -> dict:
    tree = T.module_ast(repo / "dulwich" / "protocol.py")
    g: dict = {}
    hexd = T.const_value(tree, "_HEX_DIGITS")
    if not isinstance(hexd, frozenset) or not all(isinstance(x, int) for x in hexd):
        raise T.TranslateError("_HEX_DIGITS is not a frozenset of byte values")
    rbuf = T.const_value(tree, "_RBUFSIZE")

    # pkt_line: f"{len(data) + H:0Wx}"
    fn = T.find_def(tree, "pkt_line")
    fv = [n for n in ast.walk(fn) if isinstance(n, ast.FormattedValue) and n.format_spec is not None]
    if len(fv) != 1:
        raise T.TranslateError("pkt_line: expected exactly one formatted value with a format spec")
    spec = "".join(v.value for v in fv[0].format_spec.values if isinstance(v, ast.Constant))
    m = re.fullmatch(r"0(\d+)x", spec)
    if not m:
        raise T.TranslateError(f"pkt_line: format spec {spec!r} is not zero-padded lower-case hex")
    g["fmtWidth"] = int(m.group(1))
    g["maxPktLineLen"] = T.const_value(tree, "MAX_PKT_LINE_LEN")
    g["maxDataLen"] = T.const_value(tree, "MAX_PKT_LINE_DATA_LEN")
    g.update(_match(tree, "pkt_line", f"""
        if data is None:
            return b'«flushLit»'
        if len(data) > MAX_PKT_LINE_DATA_LEN:
            raise ValueError(f'pkt-line payload of {{len(data)}} bytes exceeds the maximum of {{MAX_PKT_LINE_DATA_LEN}} bytes')
        return f'{{len(data) + «fmtHdr»:{spec}}}'.encode('ascii') + data
    """))
    flush_lit = str(g.pop("flushLit"))
    # the literal is captured as digits; keep its text (leading zeros matter)
    mm = re.search(r"return b'(\d+)'", ast.unparse(fn))
    flush_lit = mm.group(1)

    g.update(_match(tree, "_parse_pkt_line_length", """
        if len(sizestr) != «lenWidth» or not _HEX_DIGITS.issuperset(sizestr):
            raise GitProtocolError(f'Invalid pkt-line length prefix: {sizestr!r}')
        return int(sizestr, «lenBase»)
    """))
    g.update(_match(tree, "Protocol.read_pkt_line", """
        if self._readahead is None:
            read = self.read
        else:
            read = self._readahead.read
            self._readahead = None
        try:
            sizestr = read(«rdPrefix»)
            if not sizestr:
                raise HangupException
            size = _parse_pkt_line_length(sizestr)
            if size == «rdFlush» or size == «rdDelim»:
                return None
            if size < «rdMin»:
                raise GitProtocolError(f'Invalid pkt-line length: {size:04x}')
            pkt_contents = read(size - «rdHdr») if size > «rdEmpty» else b''
        except ConnectionResetError as exc:
            raise HangupException from exc
        except OSError as exc:
            raise GitProtocolError(str(exc)) from exc
        else:
            if len(pkt_contents) + «rdChk» != size:
                raise GitProtocolError(f'Length of pkt read {len(pkt_contents) + 4:04x} does not match length prefix {size:04x}')
            return pkt_contents
    """))
    _match(tree, "Protocol.read_pkt_seq", """
        pkt = self.read_pkt_line()
        while pkt:
            yield pkt
            pkt = self.read_pkt_line()
    """)
    _match(tree, "Protocol.eof", """
        try:
            next_line = self.read_pkt_line()
        except HangupException:
            return True
        self.unread_pkt_line(next_line)
        return False
    """)
    g.update(_match(tree, "Protocol.unread_pkt_line", """
        if self._readahead is not None:
            raise ValueError('Attempted to unread multiple pkt-lines.')
        if data is None:
            self._readahead = BytesIO(pkt_line(None))
        else:
            if len(data) + «unHdr» > «unMax»:
                raise ValueError('Attempted to unread an oversized pkt-line.')
            self._readahead = BytesIO(b'%0«unWidth»x' % (len(data) + «unHdr») + data)
    """))
    _match(tree, "Protocol.write_pkt_line", """
        try:
            line = pkt_line(line)
            self.write(line)
        except OSError as exc:
            raise GitProtocolError(str(exc)) from exc
    """)
    g.update(_match(tree, "Protocol.write_sideband", """
        while blob:
            self.write_pkt_line(bytes(bytearray([channel])) + blob[:«sbChunk»])
            blob = blob[«sbChunk»:]
    """))
    g.update(_match(tree, "PktLineParser.parse", """
        self._readahead.write(data)
        buf = self._readahead.getvalue()
        if len(buf) < «psMin»:
            return
        while len(buf) >= «psMin»:
            size = _parse_pkt_line_length(buf[:«psPrefix»])
            if size == «psFlush»:
                self.handle_pkt(None)
                buf = buf[«psFlushDrop»:]
            elif size < «psMinSize»:
                raise GitProtocolError(f'Invalid pkt-line length: {size:04x}')
            elif size <= len(buf):
                self.handle_pkt(buf[«psHdr»:size])
                buf = buf[size:]
            else:
                break
        self._readahead = BytesIO()
        self._readahead.write(buf)
    """))
    # BufferedPktLineWriter
    init = T.find_def(tree, "BufferedPktLineWriter.__init__")
    defaults = init.args.defaults
    if len(defaults) != 1:
        raise T.TranslateError("BufferedPktLineWriter.__init__: expected one default (bufsize)")
    g["bwBufsize"] = T.eval_literal(defaults[0], tree)
    _match(tree, "BufferedPktLineWriter.write", """
        line = pkt_line(data)
        line_len = len(line)
        over = self._buflen + line_len - self._bufsize
        if over >= 0:
            start = line_len - over
            self._wbuf.write(line[:start])
            self.flush()
        else:
            start = 0
        saved = line[start:]
        self._wbuf.write(saved)
        self._buflen += len(saved)
    """)
    fl = ast.unparse(_strip_noise(T.find_def(tree, "BufferedPktLineWriter.flush")))
    m = re.fullmatch(r"def flush\(self\) -> None:\n    data = self\._wbuf\.getvalue\(\)\n    if data:\n"
                     r"        self\._write\(data\)\n    self\.(_\w+) = 0\n    self\._wbuf = BytesIO\(\)", fl)
    if not m:
        raise T.TranslateError("BufferedPktLineWriter.flush: source no longer matches the modelled shape:\n" + fl)
    resets = m.group(1) == "_buflen"
    # capability helpers
    _match(tree, "extract_capabilities", """
        if b'\\x00' not in text:
            return (text, [])
        text, capabilities = text.split(b'\\x00')
        capabilities = capabilities.strip(b' \\n')
        if not capabilities:
            return (text, [])
        return (text, capabilities.split(b' '))
    """)
    g.update(_match(tree, "extract_want_line_capabilities", """
        split_text = text.rstrip(b' \\n').split(b' ')
        if len(split_text) < «wantMin»:
            return (text, [])
        return (b' '.join(split_text[:«wantHead»]), split_text[«wantHead»:])
    """))
    _match(tree, "format_capability_line", """
        return b''.join([b' ' + c for c in capabilities])
    """)
    _match(tree, "format_ref_line", """
        if capabilities is None:
            return sha + b' ' + ref + b'\\n'
        else:
            return sha + b' ' + ref + b'\\x00' + format_capability_line(capabilities) + b'\\n'
    """)
    ctree = T.module_ast(repo / "dulwich" / "client.py")
    _match(ctree, "_read_side_band64k_data", """
        for pkt in pkt_seq:
            channel = ord(pkt[:1])
            yield (channel, pkt[1:])
    """)
    ptree = T.module_ast(repo / "dulwich" / "pack.py")
    _match(ptree, "PackStreamReader._read", """
        data = read(size)
        n = len(data)
        self._offset += n
        tn = len(self._trailer)
        if n >= self._hash_size:
            to_pop = tn
            to_add = self._hash_size
        else:
            to_pop = max(n + tn - self._hash_size, 0)
            to_add = n
        self.sha.update(bytes(bytearray([self._trailer.popleft() for _ in range(to_pop)])))
        self._trailer.extend(data[-to_add:])
        self.sha.update(data[:-to_add])
        return data
    """)
    d = lambda k, doc: f"/-- {doc} -/\ndef {k} : Nat := {g[k]}\n"
    src = T.lean_header("dulwich/protocol.py: _HEX_DIGITS, _RBUFSIZE, pkt_line, _parse_pkt_line_length, "
                        "Protocol.read_pkt_line/write_sideband, PktLineParser.parse, BufferedPktLineWriter, "
                        "extract_want_line_capabilities (shapes of these and of read_pkt_seq/eof/unread_pkt_line/"
                        "extract_capabilities/format_*/client._read_side_band64k_data/pack.PackStreamReader._read "
                        "are template-matched)") + f"""
namespace Dulwich.Gen.PktLine
/-- `_HEX_DIGITS` (byte values, sorted) -/
def hexDigits : List Nat := {sorted(hexd)}
/-- `_RBUFSIZE` -/
def rbufSize : Nat := {rbuf}
/-- `pkt_line(None)` literal -/
def flushPkt : List Nat := {list(flush_lit.encode())}
{d("fmtWidth", "`pkt_line`: minimum digits of the `:0Wx` format spec")}\
{d("fmtHdr", "`pkt_line`: `len(data) + H`")}\
{d("lenWidth", "`_parse_pkt_line_length`: `len(sizestr) != W`")}\
{d("lenBase", "`_parse_pkt_line_length`: `int(sizestr, B)`")}\
{d("rdPrefix", "`read_pkt_line`: `read(N)` for the length prefix")}\
{d("rdFlush", "`read_pkt_line`: `size == F` (flush-pkt)")}\
{d("rdDelim", "`read_pkt_line`: `or size == D` (delim-pkt)")}\
{d("rdMin", "`read_pkt_line`: `size < M` is a protocol error")}\
{d("rdHdr", "`read_pkt_line`: `read(size - H)`")}\
{d("rdChk", "`read_pkt_line`: `len(pkt_contents) + H != size`")}\
{d("rdEmpty", "`read_pkt_line`: the body is read only `if size > E`")}\
{d("maxPktLineLen", "`MAX_PKT_LINE_LEN`")}\
{d("maxDataLen", "`MAX_PKT_LINE_DATA_LEN`: `pkt_line` raises ValueError above it")}\
{d("unHdr", "`unread_pkt_line`: `len(data) + H`")}\
{d("unMax", "`unread_pkt_line`: `> M` is a ValueError")}\
{d("unWidth", "`unread_pkt_line`: `b'%0Wx'`")}\
{d("sbChunk", "`write_sideband`: `blob[:N]` / `blob[N:]`")}\
{d("psMin", "`PktLineParser.parse`: `len(buf) < N` / `while len(buf) >= N`")}\
{d("psPrefix", "`PktLineParser.parse`: `buf[:N]`")}\
{d("psFlush", "`PktLineParser.parse`: `size == F`")}\
{d("psFlushDrop", "`PktLineParser.parse`: `buf = buf[N:]` after a flush")}\
{d("psMinSize", "`PktLineParser.parse`: `size < M` is a protocol error")}\
{d("psHdr", "`PktLineParser.parse`: `buf[H:size]`")}\
{d("bwBufsize", "`BufferedPktLineWriter.__init__`: default `bufsize`")}\
/-- `BufferedPktLineWriter.flush` resets `_buflen` (false: it assigns the unrelated `_len`) -/
def bwFlushResetsBuflen : Bool := {"true" if resets else "false"}
{d("wantMin", "`extract_want_line_capabilities`: `len(split_text) < N`")}\
{d("wantHead", "`extract_want_line_capabilities`: `split_text[:N]` / `split_text[N:]`")}\
end Dulwich.Gen.PktLine
"""
    return {"PktLine": src}


FP_FUNCS = ["pkt_line", "pkt_seq", "_parse_pkt_line_length", "Protocol.read_pkt_line", "Protocol.eof",
            "Protocol.unread_pkt_line", "Protocol.read_pkt_seq", "Protocol.write_pkt_line", "Protocol.write_sideband",
            "ReceivableProtocol.read", "ReceivableProtocol.recv", "BufferedPktLineWriter.write",
            "BufferedPktLineWriter.flush", "PktLineParser.parse", "extract_capabilities",
            "extract_want_line_capabilities", "format_capability_line", "format_ref_line"]


# ------------------------------------------------------------------------------------------------
# helpers: chunked transports, time limit, canonical output

class Hang(Exception):
    pass


class time_limit:
    """Pure-Python code that loops forever is interrupted (SIGALRM -> Hang) and reported, not waited for.
    Nestable: the enclosing limit's remaining time is restored on exit."""

    def __init__(self, sec: float):
        self.sec = sec

    def __enter__(self):
        import signal
        import time

        def onalarm(signum, frame):
            raise Hang()
        self.old = signal.signal(signal.SIGALRM, onalarm)
        self.t0 = time.time()
        self.prev = signal.setitimer(signal.ITIMER_REAL, self.sec)[0]

    def __exit__(self, *a):
        import signal
        import time
        signal.setitimer(signal.ITIMER_REAL, 0)
        signal.signal(signal.SIGALRM, self.old)
        if self.prev:
            signal.setitimer(signal.ITIMER_REAL, max(0.01, self.prev - (time.time() - self.t0)))
        return False


class Capped(list):
    """Collector for callbacks of the real code: more items than the input could possibly produce means the
    producer loops without consuming — stop it instead of filling the memory."""

    def __init__(self, cap: int):
        super().__init__()
        self.cap = cap

    def append(self, x):
        if len(self) >= self.cap:
            raise Hang()
        super().append(x)


CURRENT = {"case": None, "hangs": 0}
MAX_HANGS_PER_STREAM = 4


def _note_hang():
    """A decoder call was interrupted.  The failure is reported by the caller; after a few of them the
    rest of the stream is skipped (each costs seconds) by re-raising to `_guard`."""
    CURRENT["hangs"] += 1
    if CURRENT["hangs"] > MAX_HANGS_PER_STREAM:
        raise Hang()


def make_recv(chunks):
    """socket.recv-like callable delivering the scheduled fragments (cut to the requested size);
    b"" once exhausted.  Same contract as the model's `srcRecv`."""
    q = [bytes(c) for c in chunks]

    def recv(n):
        if not q:
            return b""
        c = q[0]
        if len(c) <= n:
            q.pop(0)
            return c
        q[0] = c[n:]
        return c[:n]
    return recv


class RawChunks(io.RawIOBase):
    """Raw stream whose readinto() returns the scheduled fragments: under io.BufferedReader this is a
    blocking file-like read() over a transport that delivers short reads (socket.makefile, a pipe)."""

    def __init__(self, chunks):
        self.q = [bytes(c) for c in chunks if c]

    def readable(self):
        return True

    def readinto(self, b):
        if not self.q:
            return 0
        c = self.q[0]
        n = min(len(c), len(b))
        b[:n] = c[:n]
        if n == len(c):
            self.q.pop(0)
        else:
            self.q[0] = c[n:]
        return n


def show_pkt(p):
    return "N" if p is None else "d:" + hx(p)


def show_list(l):
    return "[" + ",".join(hx(x) for x in l) + "]"


def _classify_exc(e):
    from dulwich.errors import GitProtocolError, HangupException
    if isinstance(e, HangupException):
        return "H"
    if isinstance(e, GitProtocolError):
        return "P"
    if isinstance(e, Hang):
        return "HANG"
    return "O"


def read_all_real(proto, limit=1_000_000):
    """Call read_pkt_line until it raises; canonical output like the driver's.  `limit`: more packets than
    the stream has room for means the reader does not consume its input."""
    out = []
    exc = None
    try:
        with time_limit(4):
            for _ in range(limit):
                try:
                    pkt = proto.read_pkt_line()
                except Hang:
                    raise
                except Exception as e:  # noqa: BLE001 - classification is the point
                    out.append(_classify_exc(e))
                    exc = e
                    break
                out.append(show_pkt(pkt))
            else:
                out.append("HANG")
    except Hang:
        out.append("HANG")
        _note_hang()
    return " ".join(out), exc


def real_read_blocking(stream: bytes):
    from dulwich.protocol import Protocol
    return read_all_real(Protocol(io.BytesIO(stream).read, lambda b: None), len(stream) // 4 + 4)


def real_read_buffered(chunks):
    from dulwich.protocol import Protocol
    return read_all_real(Protocol(io.BufferedReader(RawChunks(chunks), buffer_size=rbuf_for(chunks)).read, lambda b: None),
                         sum(len(c) for c in chunks) // 4 + 4)


def rbuf_for(chunks):
    # vary the BufferedReader buffer with the data so both its fast path and its loop are used
    return [16, 64, 8192][sum(len(c) for c in chunks) % 3]


def real_read_rp(chunks, rbufsize=None):
    from dulwich.protocol import ReceivableProtocol
    kw = {} if rbufsize is None else {"rbufsize": rbufsize}
    return read_all_real(ReceivableProtocol(make_recv(chunks), lambda b: None, **kw), sum(len(c) for c in chunks) // 4 + 4)


def real_parse(chunks):
    from dulwich.protocol import PktLineParser
    got = Capped(sum(len(c) for c in chunks) // 4 + 4)
    p = PktLineParser(got.append)
    end = None
    try:
        with time_limit(4):
            for c in chunks:
                try:
                    p.parse(c)
                except Hang:
                    raise
                except Exception as e:  # noqa: BLE001
                    end = _classify_exc(e)
                    break
    except Hang:
        end = "HANG"
        _note_hang()
    if end is None:
        end = "T:" + hx(p.get_tail())
    return " ".join([show_pkt(x) for x in got] + [end])


# ------------------------------------------------------------------------------------------------
# independent reference framer / deframer (git's protocol-common rules; no dulwich code involved)

HEXCHARS = b"0123456789abcdefABCDEF"


def ref_frame(payload):
    """None -> flush-pkt; bytes -> one frame, or None when it cannot be one frame."""
    if payload is None:
        return b"0000"
    if len(payload) > GIT_DATA_MAX:
        return None
    return b"%04x" % (len(payload) + 4) + payload


def ref_decode(data: bytes):
    frames, i = [], 0
    while True:
        if i == len(data):
            return frames, "eof", b""
        pre = data[i:i + 4]
        if len(pre) < 4:
            return frames, "trunc-prefix", data[i:]
        if any(c not in HEXCHARS for c in pre):
            return frames, "bad-prefix", data[i:]
        n = int(pre, 16)
        if n == 0:
            frames.append(("flush",))
            i += 4
        elif n == 1:
            frames.append(("delim",))
            i += 4
        elif n < 4:
            return frames, "bad-len", data[i:]
        elif i + n > len(data):
            return frames, "trunc-body", data[i:]
        else:
            frames.append(("data", data[i + 4:i + n]))
            i += n


def expect_reader(data: bytes, rp: bool):
    """What the property demands of read_pkt_line over `data` (frames, then Hangup at a clean end or a
    protocol error).  Returns (expected string, index of the first empty data frame or None)."""
    frames, end, _ = ref_decode(data)
    out, first_empty = [], None
    for k, f in enumerate(frames):
        if f[0] == "data":
            if f[1] == b"" and first_empty is None:
                first_empty = k
            out.append(show_pkt(f[1]))
        else:
            out.append("N")
    out.append("H" if end == "eof" else "P")
    return " ".join(out), first_empty


def expect_parser(data: bytes):
    frames, end, rest = ref_decode(data)
    out = []
    for f in frames:
        if f[0] == "data":
            out.append(show_pkt(f[1]))
        elif f[0] == "flush":
            out.append("N")
        else:
            # delim-pkt: the incremental parser predates protocol v2 and refuses it (a protocol error,
            # which the property allows)
            return " ".join(out + ["P"])
    if end in ("eof", "trunc-prefix", "trunc-body"):
        out.append("T:" + hx(rest))
    else:
        out.append("P")
    return " ".join(out)


# ------------------------------------------------------------------------------------------------
# generators

BOUNDARY_SIZES = [65515, 65516]
OVERSIZE = [65517, 65519, 65520, 65521, 65531, 65532, 65533, 65536, 70000, 131072]


def gen_payload(rng, big_ok=False):
    k = rng.random()
    if k < 0.12:
        return None
    if k < 0.22:
        return b""
    if k < 0.30:
        return rng.choice([b"0000", b"0004", b"0001", b"00", b"fff", b"\n", b"\0", b"0005a"])
    if big_ok and k < 0.34:
        n = rng.choice(BOUNDARY_SIZES + [65514, 40000, 65000])
        return bytes([rng.randrange(256)]) * n if rng.random() < 0.5 else rng.randbytes(n)
    n = rng.choice([1, 1, 2, 3, 4, 5, 7, 12, 60, 250, 251, 252, 255, 256, 1000, 4091, 4092, 4093])
    if rng.random() < 0.3:
        return bytes(rng.choice(b"0123456789abcdefABCDEF\n \0") for _ in range(n))
    return rng.randbytes(n)


def gen_seq(rng, big_ok=False, maxlen=6):
    return [gen_payload(rng, big_ok) for _ in range(rng.randint(0, maxlen))]


def frame_boundaries(ps):
    from dulwich.protocol import pkt_line
    pos, out = 0, []
    for p in ps:
        pos += 4 if p is DELIM else len(pkt_line(p))
        out.append(pos)
    return out


def split_at(data: bytes, cuts):
    cuts = sorted({c for c in cuts if 0 < c < len(data)})
    out, prev = [], 0
    for c in cuts + [len(data)]:
        out.append(data[prev:c])
        prev = c
    return [c for c in out if c] if data else []


def random_partition(rng, data: bytes, bounds=()):
    n = len(data)
    if n == 0:
        return "empty", []
    mode = rng.choice(["one", "bytes", "few", "many", "edges", "edges", "prefix-split", "fixed"])
    if mode == "bytes" and n > 3000:
        mode = "many"
    if mode == "one":
        return mode, [data]
    if mode == "bytes":
        return mode, [data[i:i + 1] for i in range(n)]
    if mode == "few":
        return mode, split_at(data, [rng.randrange(1, n + 1) for _ in range(rng.randint(1, 3))])
    if mode == "many":
        return mode, split_at(data, [rng.randrange(1, n + 1) for _ in range(min(n, rng.randint(4, 200)))])
    if mode == "fixed":
        k = rng.choice([1, 2, 3, 4, 5, 7, 8, 4096, 65536]) if n <= 3000 else rng.choice([4096, 16384, 65535, 65536, 65537])
        return f"fixed{k}", [data[i:i + k] for i in range(0, n, k)]
    bs = [0] + list(bounds)
    cuts = []
    if mode == "edges":
        for b in bs:
            for d in rng.sample([-2, -1, 0, 1, 2, 3, 4, 5], rng.randint(1, 4)):
                cuts.append(b + d)
    else:  # every frame's 4-byte prefix cut at a random inner position
        for b in bs:
            cuts.append(b + rng.randint(1, 3))
            if rng.random() < 0.5:
                cuts.append(b + 4)
    return mode, split_at(data, cuts)


def all_partitions(data: bytes):
    n = len(data)
    if n == 0:
        yield []
        return
    for mask in range(1 << (n - 1)):
        cuts = [i + 1 for i in range(n - 1) if mask >> i & 1]
        yield split_at(data, cuts)


def mutate_stream(rng, data: bytes) -> tuple[str, bytes]:
    """Malformed-stream generator: a structured edit of a valid encoding."""
    kind = rng.choice(["trunc", "flip-prefix", "bad-hex", "short-len", "long-len", "upper", "insert", "delim",
                       "0002", "0003", "sign", "space", "0x", "underscore", "random", "tail-garbage"])
    b = bytearray(data)
    if kind == "trunc" and b:
        return kind, bytes(b[:rng.randrange(len(b))])
    if kind == "flip-prefix" and len(b) >= 4:
        b[rng.randrange(4)] = rng.randrange(256)
        return kind, bytes(b)
    if kind == "bad-hex":
        pre = bytes(rng.choice(b"0123456789abcdefABCDEFgG-+ _xX\0\n\xff") for _ in range(4))
        return kind, pre + bytes(b)
    if kind == "short-len":
        return kind, b"%04x" % rng.choice([2, 3]) + bytes(b)
    if kind == "long-len":
        return kind, bytes(b) + b"%04x" % rng.choice([5, 6, 100, 0xffff]) + rng.randbytes(rng.randint(0, 3))
    if kind == "upper":
        return kind, bytes(b[:4]).upper() + bytes(b[4:]) if len(b) >= 4 else (b"000A" + b"abcdef")
    if kind == "insert":
        p = rng.randint(0, len(b))
        return kind, bytes(b[:p]) + rng.randbytes(rng.randint(1, 5)) + bytes(b[p:])
    if kind == "delim":
        return kind, b"0001" + bytes(b)
    if kind == "0002":
        return kind, bytes(b) + b"0002"
    if kind == "0003":
        return kind, b"0003" + bytes(b)
    if kind == "sign":
        return kind, rng.choice([b"-001", b"+005", b"-00a", b"+0000"]) + bytes(b)
    if kind == "space":
        return kind, rng.choice([b" 005", b"005 ", b"  5 ", b"\t005", b"5\n\n\n"]) + b"a" + bytes(b)
    if kind == "0x":
        return kind, rng.choice([b"0x05", b"0X05", b"0x00"]) + b"a" + bytes(b)
    if kind == "underscore":
        return kind, rng.choice([b"0_05", b"00_5", b"1_00"]) + b"a" + bytes(b)
    if kind == "tail-garbage":
        return kind, bytes(b) + rng.randbytes(rng.randint(1, 6))
    return "random", rng.randbytes(rng.randint(0, 24))


def mk_blob(rng, n: int):
    """(replayable spec, bytes): small blobs are stored as hex, big ones as (length, PRNG seed)."""
    if n <= 128:
        b = rng.randbytes(n)
        return hx(b), b
    seed = rng.getrandbits(32)
    return {"n": n, "seed": seed}, blob_of({"n": n, "seed": seed})


def blob_of(spec) -> bytes:
    if isinstance(spec, str):
        return unhx(spec)
    import random
    return random.Random(spec["seed"]).randbytes(spec["n"])


def drv_chunks(chunks):
    return "".join(" " + hx(c) for c in chunks)


# ------------------------------------------------------------------------------------------------
# streams

DELIM = "delim-pkt"   # written raw (b"0001") by dulwich's protocol-v2 client code; pkt_line cannot produce it


def _enc(ps):
    from dulwich.protocol import pkt_line
    return b"".join(b"0001" if p is DELIM else pkt_line(p) for p in ps)


def _short(s: str, n=160):
    return s if len(s) <= n else s[:n] + f"...({len(s)} chars)"


def _check_decoders(ctx, stream, data: bytes, chunks, ps=None, tag="", exhaustive=False):
    """One (byte stream, chunking) case through all real decoders: collects driver lines for the
    correspondence and applies the direct oracle.  Returns the pending model comparisons."""
    pend = []
    case = {"stream_hex": hx(data), "chunk_sizes": [len(c) for c in chunks],
            "payload_lens": None if ps is None else [None if p is None else len(p) for p in ps]}
    CURRENT["case"] = case
    exp_r, first_empty = expect_reader(data, False)
    exp_p = expect_parser(data)
    # 1. plain Protocol over a blocking read (BytesIO) and over a BufferedReader on a short-reading raw stream
    if not exhaustive:
        r_block, _ = real_read_blocking(data)
        pend.append((f"c19.read {hx(data)}", r_block, stream + ".read", case, "Protocol(BytesIO)"))
        ctx.count(stream + ".read", (data,), True, tag)
        if r_block != exp_r:
            ctx.oracle_fail(stream + ".read", dict(case, decoder="Protocol(BytesIO.read)"),
                            f"read_pkt_line sequence {_short(r_block)} != reference {_short(exp_r)}")
    r_buf, _ = real_read_buffered(chunks)
    ctx.count(stream + ".read-buffered", (data, tuple(len(c) for c in chunks)), True, tag)
    if r_buf != exp_r:
        ctx.oracle_fail(stream + ".read-buffered", dict(case, decoder="Protocol(BufferedReader(short reads).read)"),
                        f"read_pkt_line sequence {_short(r_buf)} != reference {_short(exp_r)}")
    # 2. ReceivableProtocol over recv fragments
    r_rp, exc = real_read_rp(chunks)
    pend.append((f"c19.rpread{drv_chunks(chunks)}", r_rp, stream + ".rp", case, "ReceivableProtocol"))
    ctx.count(stream + ".rp", (data, tuple(len(c) for c in chunks)), True, tag)
    if r_rp != exp_r:
        cls = None
        if first_empty is not None:
            toks = exp_r.split(" ")
            if r_rp == " ".join(toks[:first_empty] + ["O"]) and isinstance(exc, AssertionError):
                cls = "rp-empty-pkt-line-0004"
        ctx.oracle_fail(stream + ".rp", dict(case, decoder="ReceivableProtocol(recv fragments)"),
                        f"read_pkt_line sequence {_short(r_rp)} != reference {_short(exp_r)}"
                        + (f" ({type(exc).__name__})" if exc is not None else ""), cls)
    # 3. PktLineParser fed the fragments
    r_ps = real_parse(chunks)
    pend.append((f"c19.parse{drv_chunks(chunks)}", r_ps, stream + ".parser", case, "PktLineParser"))
    ctx.count(stream + ".parser", (data, tuple(len(c) for c in chunks)), True, tag)
    if r_ps != exp_p:
        ctx.oracle_fail(stream + ".parser", dict(case, decoder="PktLineParser(fragments)"),
                        f"parser output {_short(r_ps)} != reference {_short(exp_p)}")
    # 4. round trip in the property's own words (only meaningful for encodings of in-range payloads)
    if ps is not None:
        want = " ".join(show_pkt(p) for p in ps)
        for name, got, end in (("rp", r_rp, "H"), ("buffered", r_buf, "H"), ("parser", r_ps, "T:-")):
            if got != (want + " " + end).strip():
                if name == "rp" and any(p == b"" for p in ps):
                    continue  # already reported above under its class
                ctx.oracle_fail(stream + ".roundtrip", dict(case, decoder=name),
                                f"decode(encode(ps)) != ps: {_short(got)}")
    return pend


def _flush_pending(ctx, pend):
    outs = ctx.driver.batch([p[0] for p in pend])
    for (line, real, stream, case, variant), o in zip(pend, outs):
        if o != real:
            ctx.disagree(stream, case, _short(o, 400), _short(real, 400), variant)


def _stream_prefix(ctx):
    """pkt_line length prefixes for every payload length 0..70000 (cheap: the prefix only) + full frames at
    the boundary sizes; frame well-formedness oracle against the reference framer."""
    from dulwich.protocol import pkt_line
    rng = ctx.rng
    N = 70001
    outs = ctx.driver.batch([f"c19.prefix {n}" for n in range(N)])
    # the real prefix for length n: format through the real function on a zero-copy-ish payload is O(n);
    # do it for all n up to 4200 and around every power of 16 / limit, and by len-only probing elsewhere
    probe = set(range(0, 4200)) | {n + d for n in (0xFFF, 0xFFFF, 65515, 65516, 65519, 65520, 65531, 65532, 65535, 65536, 69999)
                                   for d in range(-6, 7) if 0 <= n + d < N}
    probe |= {rng.randrange(N) for _ in range(ctx.budget(300))}
    big = bytes(N)
    mv = memoryview(big)
    for n in sorted(probe):
        payload = bytes(mv[:n])
        fr = real_pkt_line(payload)
        real = "V" if fr is None else hx(fr[:len(fr) - n])
        ctx.count("prefix", n, True, ("fits" if n <= GIT_DATA_MAX else ("4-digit>git-max" if n <= 65531 else "5-digit"))
                  + (":refused" if fr is None else ":framed"))
        if outs[n] != real:
            ctx.disagree("prefix", {"payload_len": n}, outs[n], real)
        _oracle_frame(ctx, "prefix", payload, fr)
    ctx.extra_cov["prefix_lengths_model"] = N
    # model-side full sweep is also checked against the reference framer (refusal above git's limit)
    for n in range(N):
        exp = hx(("%04x" % (n + 4)).encode()) if n <= GIT_DATA_MAX else "V"
        if outs[n] != exp:
            ctx.disagree("prefix.model-vs-format", {"payload_len": n}, outs[n], exp)
    # pkt_seq
    from dulwich.protocol import pkt_seq
    seqs = [gen_seq(rng, maxlen=5) for _ in range(ctx.budget(100))] + [[], [None], [b""]]
    for ps, o in zip(seqs, ctx.driver.batch(["c19.pktseq" + "".join(" " + ("N" if p is None else hx(p)) for p in ps) for ps in seqs])):
        ctx.count("pktseq", tuple(ps), True, f"len{len(ps)}")
        if o != hx(pkt_seq(*ps)):
            ctx.disagree("pktseq", {"payloads": [None if p is None else hx(p) for p in ps]}, o, hx(pkt_seq(*ps)))
        frames, end, _ = ref_decode(pkt_seq(*ps))
        if end != "eof" or [f[1] if f[0] == "data" else None for f in frames] != list(ps) + [None]:
            ctx.oracle_fail("pktseq", {"payloads": [None if p is None else hx(p) for p in ps]},
                            "pkt_seq(*ps) is not the frames of ps followed by a flush-pkt")
    # flush
    o = ctx.driver.batch(["c19.pktline N", "c19.pktline -", "c19.pktline 00"])
    for arg, oo, p in zip(["N", "-", "00"], o, [None, b"", b"\0"]):
        ctx.count("pktline", arg, True, "small")
        if oo != hx(pkt_line(p)):
            ctx.disagree("pktline", {"payload": arg}, oo, hx(pkt_line(p)))


def real_pkt_line(payload):
    """pkt_line(payload), or None when it refuses (ValueError / GitProtocolError)."""
    from dulwich.protocol import pkt_line
    from dulwich.errors import GitProtocolError
    try:
        return pkt_line(payload)
    except (ValueError, GitProtocolError):
        return None


def _oracle_frame(ctx, stream, payload: bytes, frame):
    """`payloads too large for one frame are split or refused, never emitted as a malformed frame`
    (frame None = refused); and what fits one frame must be framed, exactly as the reference does."""
    ref = ref_frame(payload)
    n = len(payload)
    if frame is None:
        if ref is not None:
            ctx.oracle_fail(stream, {"payload_len": n, "payload": "00*%d" % n if payload == bytes(n) else hx(payload)[:64]},
                            f"pkt_line refused a {n}-byte payload that fits one frame (limit {GIT_DATA_MAX})")
        return
    if ref is None:
        # one frame was returned for a payload that does not fit one
        if n + 4 > 0xFFFF:
            cls = "pkt_line:payload>=65532:five-digit-prefix" if frame[:len(frame) - n] == b"%x" % (n + 4) and frame[len(frame) - n:] == payload else None
        else:
            cls = "pkt_line:payload65517..65531:frame>LARGE_PACKET_MAX" if frame == b"%04x" % (n + 4) + payload else None
        ctx.oracle_fail(stream, {"payload_len": n, "payload": "00*%d" % n if payload == bytes(n) else hx(payload)[:64],
                                 "frame_prefix": frame[:8].decode("latin1")},
                        f"pkt_line emitted one {len(frame)}-byte frame (prefix {frame[:len(frame) - n]!r}) for a {n}-byte payload; "
                        f"git's limit is {GIT_LARGE_PACKET_MAX} bytes per frame", cls)
    elif frame != ref:
        ctx.oracle_fail(stream, {"payload_len": n, "payload": hx(payload)[:64]},
                        f"pkt_line frame {frame[:12]!r}... != reference {ref[:12]!r}...")


def _stream_parselen(ctx):
    """_parse_pkt_line_length: all 22^4 four-digit prefixes (65536 values in every case mix), all single
    non-hex substitutions, wrong lengths, random 4-byte strings."""
    from dulwich.protocol import _parse_pkt_line_length
    from dulwich.errors import GitProtocolError
    rng = ctx.rng
    cases = [bytes(t) for t in itertools.product(HEXCHARS, repeat=4)]
    nvalid = len(cases)
    for pos in range(4):
        for v in range(256):
            b = bytearray(b"0a5F")
            b[pos] = v
            cases.append(bytes(b))
    cases += [b"", b"0", b"00", b"000", b"00000", b"000000", b"0x10", b"-001", b"+001", b" 001", b"001 ", b"0_01", b"1_0",
              b"\n001", b"001\n", "٠٠٠١".encode()[:4], b"\xef\xbc\x91" + b"0"]
    # all 4-byte strings over an alphabet of bytes that other hex readers treat specially (int(): sign,
    # whitespace, underscore, 0x; bytes.fromhex(): whitespace; non-ASCII)
    cases += [bytes(t) for t in itertools.product(b"09aF \t\n\r\x0b\x0c+-_xXg\x00\x7f\x80\xff", repeat=4)]
    cases += [rng.randbytes(4) for _ in range(ctx.budget(5000))]
    cases += [rng.randbytes(rng.choice([1, 2, 3, 5, 8])) for _ in range(ctx.budget(200))]
    outs = ctx.driver.batch([f"c19.parselen {hx(c)}" for c in cases])
    for i, (c, o) in enumerate(zip(cases, outs)):
        try:
            v = _parse_pkt_line_length(c)
            real = f"ok {v}"
        except GitProtocolError:
            real = "P"
        except Exception:  # noqa: BLE001
            real = "O"
        ctx.count("parselen", c, True, "hex4" if i < nvalid else real[:2])
        if o != real:
            ctx.disagree("parselen", {"sizestr": hx(c)}, o, real)
        # oracle: exactly-four-hex-digits <=> a length in [0, 65535]; everything else a protocol error
        is_hex4 = len(c) == 4 and all(x in HEXCHARS for x in c)
        exp = f"ok {int(c, 16)}" if is_hex4 else "P"
        if real != exp:
            ctx.oracle_fail("parselen", {"sizestr": hx(c)}, f"_parse_pkt_line_length({c!r}) -> {real}, expected {exp}")
    ctx.extra_cov["parselen_hex4_exhaustive"] = nvalid


def _stream_roundtrip(ctx):
    """Payload sequences (in range for one frame) x random partitions through all decoders."""
    rng = ctx.rng
    pend = []
    n = ctx.budget(2500)
    nbig = ctx.budget(20, mult=5)
    seqs = [("seq", gen_seq(rng)) for _ in range(n)] + [("big", gen_seq(rng, big_ok=True, maxlen=4)) for _ in range(nbig)]
    # fixed boundary cases of the quantifier: empty, 1 byte, 65515, 65516 bytes; flush/delim mixes
    seqs += [("fixed", s) for s in ([], [None], [b""], [b"a"], [b"", b""], [None, None], [b"a", None, b"", b"b"],
                                    [b"x" * 65515], [b"y" * 65516], [b"z" * 65516, None, b"w" * 65515, b"", b"q"])]
    # protocol-v2 style requests: payloads with a delim-pkt in between (readers return None for it, the
    # incremental parser refuses it with a protocol error; checked against the reference, not as a round trip)
    for _ in range(ctx.budget(150)):
        ps = gen_seq(rng, maxlen=4)
        ps.insert(rng.randint(0, len(ps)), DELIM)
        seqs.append(("delim", ps))
    for kind, ps in seqs:
        data = _enc(ps)
        bounds = frame_boundaries(ps)
        for _ in range(2 if kind != "seq" else 1):
            mode, chunks = random_partition(rng, data, bounds)
            pend += _check_decoders(ctx, "rt", data, chunks, ps=None if kind == "delim" else ps, tag=f"{kind}:{mode}")
        if len(ctx.samples) < 2 and kind == "seq" and ps:
            ctx.sample({"stream": "rt", "payloads": [None if p is None else hx(p)[:40] for p in ps],
                        "chunk_sizes": [len(c) for c in chunks][:20]})
    _flush_pending(ctx, pend)


def _stream_exhaustive(ctx):
    """ALL partitions of short encoded streams (<= 12 bytes; 13 in thorough) through ReceivableProtocol,
    the buffered Protocol and PktLineParser."""
    streams = [
        ("valid", [b"a", None]), ("valid", [b"", b"ab"]), ("valid", [None, b"abcd"]), ("valid", [b"0000"]),
        ("valid", [b"a", b"b"]), ("valid", [None, None, None]),
    ]
    raw = [("delim", b"00010005a"), ("trunc", b"0009abc"), ("bad", b"0005a00g0"), ("short-len", b"0005a0003"),
           ("upper", b"000Aabcdef"), ("sign", b"-0010005a"), ("tail", b"0005a000")]
    if ctx.thorough:
        streams.append(("valid", [b"abcde", None]))
        raw.append(("trunc", b"0005a000dabcd"))
    pend = []
    total = 0
    for kind, ps in streams:
        data = _enc(ps)
        assert len(data) <= 13
        for chunks in all_partitions(data):
            pend += _check_decoders(ctx, "exh", data, chunks, ps=ps, tag=kind, exhaustive=True)
            total += 1
    for kind, data in raw:
        for chunks in all_partitions(data):
            pend += _check_decoders(ctx, "exh", data, chunks, ps=None, tag=kind, exhaustive=True)
            total += 1
    ctx.extra_cov["exhaustive_partitions"] = total
    _flush_pending(ctx, pend)


def _stream_malformed(ctx):
    """Arbitrary / mutated byte strings: every decoder must yield frames then a protocol error (or a clean
    end), never anything else, for every chunking; plus empty fragments (premature EOF) for the model tie."""
    rng = ctx.rng
    pend = []
    for _ in range(ctx.budget(5000)):
        ps = gen_seq(rng, maxlen=4)
        kind, data = mutate_stream(rng, _enc(ps))
        mode, chunks = random_partition(rng, data, frame_boundaries(ps))
        pend += _check_decoders(ctx, "mal", data, chunks, ps=None, tag=f"{kind}")
        if len(ctx.samples) < 3 and len(data) < 40:
            ctx.sample({"stream": "mal", "kind": kind, "bytes": hx(data), "chunk_sizes": [len(c) for c in chunks],
                        "reference": expect_reader(data, False)[0], "parser_reference": expect_parser(data)})
    # premature EOF from recv (empty fragment) / parse(b""): correspondence only
    for _ in range(ctx.budget(300)):
        ps = gen_seq(rng, maxlen=4)
        data = _enc(ps)
        mode, chunks = random_partition(rng, data, frame_boundaries(ps))
        k = rng.randint(0, len(chunks))
        chunks = chunks[:k] + [b""] + chunks[k:]
        r_rp, _ = real_read_rp(chunks)
        pend.append((f"c19.rpread{drv_chunks(chunks)}", r_rp, "mal.rp-eof", {"stream_hex": hx(data)[:400], "chunk_sizes": [len(c) for c in chunks]}, "ReceivableProtocol"))
        ctx.count("mal.rp-eof", (data, tuple(len(c) for c in chunks)), True, "empty-fragment")
        if r_rp.endswith("O") and b"" not in [p for p in ps]:
            ctx.oracle_fail("mal.rp-eof", {"stream_hex": hx(data)[:400], "chunk_sizes": [len(c) for c in chunks]},
                            f"premature EOF produced a non-protocol error: {_short(r_rp)}")
        r_ps = real_parse(chunks)
        pend.append((f"c19.parse{drv_chunks(chunks)}", r_ps, "mal.parse-empty", {"stream_hex": hx(data)[:400], "chunk_sizes": [len(c) for c in chunks]}, "PktLineParser"))
        ctx.count("mal.parse-empty", (data, tuple(len(c) for c in chunks)), True, "empty-fragment")
        if r_ps != expect_parser(data):
            ctx.oracle_fail("mal.parse-empty", {"stream_hex": hx(data)[:400], "chunk_sizes": [len(c) for c in chunks]},
                            f"parse(b'') changed the result: {_short(r_ps)}")
    _flush_pending(ctx, pend)


def _stream_rpops(ctx):
    """Mixed ReceivableProtocol.read / .recv calls over fragment schedules: model vs real, and the direct
    oracle (the calls return consecutive pieces of the stream; read() is exact unless EOF; recv() returns
    1..size bytes unless EOF)."""
    from dulwich.protocol import ReceivableProtocol
    rng = ctx.rng
    lines, meta = [], []
    for _ in range(ctx.budget(4000)):
        data = rng.randbytes(rng.choice([0, 1, 5, 20, 60, 200]))
        _, chunks = random_partition(rng, data, [rng.randrange(1, len(data) + 1) for _ in range(3)] if data else [])
        rbufsize = rng.choice([1, 2, 3, 4, 8, 16, 65536])
        ops = []
        for _ in range(rng.randint(1, 12)):
            ops.append(rng.choice("rv") + str(rng.choice([1, 1, 2, 3, 4, 5, 8, 16, 17, 64])))
        if rng.random() < 0.05:
            ops.insert(rng.randrange(len(ops) + 1), rng.choice(["r0", "v0"]))
        CURRENT["case"] = {"data": hx(data), "chunks": [len(c) for c in chunks], "ops": ops, "rbufsize": rbufsize}
        p = ReceivableProtocol(make_recv(chunks), lambda b: None, rbufsize=rbufsize)
        outs, pos, ok = [], 0, True
        for op in ops:
            n = int(op[1:])
            try:
                got = p.read(n) if op[0] == "r" else p.recv(n)
            except AssertionError:
                outs.append("A")
                if n != 0:
                    ctx.oracle_fail("rpops", {"data": hx(data), "chunks": [len(c) for c in chunks], "ops": ops, "rbufsize": rbufsize},
                                    f"{op} raised AssertionError")
                break
            outs.append(hx(got))
            rest = data[pos:]
            if op[0] == "r":
                exp_ok = got == rest[:n]
            else:
                exp_ok = rest.startswith(got) and len(got) <= n and (len(got) >= 1 or not rest)
            if not exp_ok and ok:
                ok = False
                ctx.oracle_fail("rpops", {"data": hx(data), "chunks": [len(c) for c in chunks], "ops": ops, "rbufsize": rbufsize},
                                f"{op} returned {got!r}; stream position {pos}, remaining {rest[:n + 4]!r}")
            pos += len(got)
        lines.append(f"c19.rpops {rbufsize} {','.join(ops)}{drv_chunks(chunks)}")
        meta.append(({"data": hx(data), "chunks": [len(c) for c in chunks], "ops": ops, "rbufsize": rbufsize}, " ".join(outs)))
        ctx.count("rpops", (data, tuple(len(c) for c in chunks), tuple(ops), rbufsize), True, f"rbuf{rbufsize}")
    for (case, real), o in zip(meta, ctx.driver.batch(lines)):
        if o != real:
            ctx.disagree("rpops", case, o, real, "ReceivableProtocol.read/recv")


def _run_script_real(data: bytes, ops):
    from dulwich.protocol import Protocol
    from dulwich.errors import GitProtocolError, HangupException
    p = Protocol(io.BytesIO(data).read, lambda b: None)
    outs = []
    for op in ops:
        try:
            if op == "r":
                outs.append(show_pkt(p.read_pkt_line()))
            elif op == "e":
                outs.append("1" if p.eof() else "0")
            elif op == "s":
                got = []
                try:
                    for x in p.read_pkt_seq():
                        got.append(x)
                except HangupException:
                    outs.append(show_list(got) + "H")
                    continue
                except GitProtocolError:
                    outs.append(show_list(got) + "P")
                    break
                outs.append(show_list(got))
            else:
                arg = op[2:]
                try:
                    p.unread_pkt_line(None if arg == "N" else unhx(arg))
                    outs.append("ok")
                except ValueError:
                    outs.append("V")
        except HangupException:
            outs.append("H")
        except GitProtocolError:
            outs.append("P")
            break
        except Exception:  # noqa: BLE001
            outs.append("O")
            break
    return " ".join(outs)


def _stream_script(ctx):
    """read_pkt_line / eof / unread_pkt_line / read_pkt_seq scripts: model vs real; oracle: interleaving
    eof() probes never changes the decoded payload sequence."""
    rng = ctx.rng
    lines, meta = [], []
    for _ in range(ctx.budget(4000)):
        ps = gen_seq(rng, maxlen=5)
        data = _enc(ps)
        if rng.random() < 0.25:
            _, data = mutate_stream(rng, data)
            ps = None
        ops = []
        for _ in range(rng.randint(1, 10)):
            k = rng.random()
            if k < 0.45:
                ops.append("r")
            elif k < 0.7:
                ops.append("e")
            elif k < 0.8:
                ops.append("s")
            else:
                ops.append("u:" + rng.choice(["N", "-", "61", hx(rng.randbytes(3)), "30303030"]))
        CURRENT["case"] = {"stream_hex": hx(data), "ops": ops}
        real = _run_script_real(data, ops)
        lines.append(f"c19.script {hx(data)} {','.join(ops)}")
        meta.append(({"stream_hex": hx(data), "ops": ops}, real))
        ctx.count("script", (data, tuple(ops)), True, "valid" if ps is not None else "mutated")
        if ps is not None:
            # oracle: eof() before every read is transparent
            n = len(ps)
            probe = _run_script_real(data, ["e", "r"] * n + ["e"])
            want = " ".join(x for p in ps for x in ("0", show_pkt(p))) + (" " if n else "") + "1"
            if probe != want:
                ctx.oracle_fail("script.eof", {"stream_hex": hx(data), "payload_lens": [None if p is None else len(p) for p in ps]},
                                f"eof()/read_pkt_line interleaving returned {_short(probe)}, expected {_short(want)}")
    # a peer's frame longer than what pkt_line would send (65531 bytes) must survive eof(); an oversized
    # unread is a ValueError
    long = b"ffff" + bytes([rng.randrange(1, 256)]) * 65531 + b"0005a"
    for data, ops in ((long, ["e", "r", "e", "r", "e"]), (b"0005a", ["u:" + "61" * 65531, "r", "r"]), (b"0005a", ["u:" + "61" * 65532, "r"])):
        CURRENT["case"] = {"stream_hex": hx(data), "ops": [o[:12] for o in ops]}
        real = _run_script_real(data, ops)
        lines.append(f"c19.script {hx(data)} {','.join(ops)}")
        meta.append(({"stream_hex": hx(data), "ops": ops}, real))
        ctx.count("script", (data, tuple(ops)), True, "long-frame")
    probe = _run_script_real(long, ["e", "r", "e", "r", "e"])
    if probe != f"0 {show_pkt(long[4:65535])} 0 d:61 1":
        ctx.oracle_fail("script.eof", {"stream_hex": hx(long), "ops": ["e", "r", "e", "r", "e"]},
                        f"eof() is not transparent for a 65531-byte frame: {_short(probe)}")
    for (case, real), o in zip(meta, ctx.driver.batch(lines)):
        if o != real:
            ctx.disagree("script", case, _short(o, 300), _short(real, 300), "Protocol(BytesIO)")


def _sideband_real(writes):
    from dulwich.protocol import Protocol
    frames = Capped(sum(len(b) for _, b in writes) // 30000 + 2 * len(writes) + 8)
    p = Protocol(None, frames.append)
    per = []
    for ch, blob in writes:
        k = len(frames)
        p.write_sideband(ch, blob)
        per.append(frames[k:])
    return frames, per


def _stream_sideband(ctx):
    """write_sideband split (65515) and reassembly through read_pkt_seq + _read_side_band64k_data, three
    channels, boundary blob sizes; every frame must be a well-formed frame within git's limit."""
    from dulwich.protocol import Protocol, ReceivableProtocol
    from dulwich.client import _read_side_band64k_data
    rng = ctx.rng
    sizes_small = [0, 1, 2, 100, 5000]
    sizes_big = [65514, 65515, 65516, 65519, 65520, 65521, 131029, 131030, 131031, 200000]
    scen = []
    for _ in range(ctx.budget(120)):
        scen.append([(rng.choice([1, 2, 3]), mk_blob(rng, rng.choice(sizes_small))) for _ in range(rng.randint(1, 5))])
    nb = ctx.budget(8, mult=4)
    for i in range(nb):
        scen.append([(rng.choice([1, 2, 3]), mk_blob(rng, sizes_big[(i + ctx.seed) % len(sizes_big)])),
                     (rng.choice([1, 2, 3]), mk_blob(rng, rng.choice(sizes_small)))])
    scen.append([(1, mk_blob(rng, 65515)), (2, mk_blob(rng, 65516)), (3, mk_blob(rng, 0))])
    _sideband_cases(ctx, scen)


def _sideband_cases(ctx, scen, model=True):
    from dulwich.protocol import Protocol, ReceivableProtocol
    from dulwich.client import _read_side_band64k_data
    rng = ctx.rng
    lines, meta = [], []
    for spec_writes in scen:
        writes = [(ch, b) for ch, (spec, b) in spec_writes]
        case = {"writes": [[ch, spec] for ch, (spec, b) in spec_writes]}
        CURRENT["case"] = case
        frames, per = _sideband_real(writes)
        for (ch, blob), fr in zip(writes, per):
            lines.append(f"c19.sideband {ch} {hx(blob)}")
            meta.append((dict(case, channel=ch, blob_len=len(blob)), "none" if not fr else " ".join(hx(f) for f in fr)))
            ctx.count("sideband.write", (ch, blob), True, f"{min(len(blob) // 65515, 4)}x+{'0' if len(blob) % 65515 == 0 else 'r'}")
        if len(ctx.samples) < 4:
            ctx.sample({"stream": "sideband", "writes": [(ch, len(b)) for ch, b in writes], "frame_lens": [len(f) for f in frames]})
        # oracle 1: frames well-formed and within git's limit
        for f in frames:
            frs, end, _ = ref_decode(f)
            if end != "eof" or len(frs) != 1 or frs[0][0] != "data" or len(f) > GIT_LARGE_PACKET_MAX:
                ctx.oracle_fail("sideband.frame", dict(case, frame_len=len(f), frame_prefix=f[:8].decode("latin1")),
                                f"write_sideband emitted a {len(f)}-byte write that is not one well-formed frame <= {GIT_LARGE_PACKET_MAX}")
        # oracle 2: reassembly per channel through the real reader, under a random chunking
        data = b"".join(frames) + b"0000"
        _, chunks = random_partition(rng, data, [])
        for name, proto in (("Protocol", Protocol(io.BytesIO(data).read, None)),
                            ("ReceivableProtocol", ReceivableProtocol(make_recv(chunks), None))):
            try:
                got = list(_read_side_band64k_data(proto.read_pkt_seq()))
            except Exception as e:  # noqa: BLE001
                ctx.oracle_fail("sideband.reassembly", dict(case, decoder=name), f"side-band read raised {type(e).__name__}: {e}")
                continue
            ctx.count("sideband.reassembly", (name, tuple((ch, blob) for ch, blob in writes)), True, name)
            for ch in (1, 2, 3):
                a = b"".join(d for c, d in got if c == ch)
                b = b"".join(blob for c, blob in writes if c == ch)
                if a != b:
                    ctx.oracle_fail("sideband.reassembly", dict(case, decoder=name, channel=ch),
                                    f"channel {ch}: reassembled {len(a)} bytes != written {len(b)} bytes")
            if [c for c, _ in got] != [ch for ch, blob in writes for _ in range((len(blob) + 65514) // 65515)] and \
                    all(len(f) <= GIT_LARGE_PACKET_MAX for f in frames):
                ctx.oracle_fail("sideband.reassembly", dict(case, decoder=name), "channel order changed")
        # demux model tie on the decoded packet list (+ an empty packet now and then: TypeError)
        pk = [f[4:] for f in frames][:6]
        if rng.random() < 0.2:
            pk.insert(rng.randrange(len(pk) + 1), b"")
        try:
            real = list(_read_side_band64k_data(iter(pk)))
            real = "none" if not real else " ".join(f"{c}:{hx(d)}" for c, d in real)
        except TypeError:
            real = "T"
        lines.append("c19.demux" + drv_chunks(pk))
        meta.append((dict(case, demux=True), real))
        ctx.count("sideband.demux", tuple(pk), True, real[:1])
    if not model:
        return
    for (case, real), o in zip(meta, ctx.driver.batch(lines)):
        if o != real:
            ctx.disagree("sideband", case, _short(o, 300), _short(real, 300), "Protocol.write_sideband")


def _stream_bufwriter(ctx):
    """BufferedPktLineWriter: exact sequence of underlying writes (model vs real, including the `_len`
    slip) and the oracle: the bytes written, concatenated, are the pkt-line encoding of what was written;
    end to end through side-band channel 1 and PktLineParser as receive-pack's status report does."""
    from dulwich.protocol import BufferedPktLineWriter, Protocol, PktLineParser, pkt_line
    from dulwich.client import _read_side_band64k_data
    rng = ctx.rng
    scen = []
    for i in range(ctx.budget(1200)):
        big = i % 40 == 0
        bufsize = 65515 if big else rng.choice([1, 4, 5, 6, 9, 12, 16, 33, 100])
        scen.append((bufsize, [mk_blob(rng, rng.choice([0, 1, 2, 3, 5, 8, 13, 30] if not big else [10, 30000, 65000, 65516, 100]))
                               for _ in range(rng.randint(0, 8))]))
    scen.append((65515, [mk_blob(rng, 10), mk_blob(rng, 65517), mk_blob(rng, 3)]))   # refused: ValueError
    _bufwriter_cases(ctx, scen)


def _bufwriter_cases(ctx, scen, model=True):
    from dulwich.protocol import BufferedPktLineWriter, Protocol, PktLineParser, pkt_line
    from dulwich.client import _read_side_band64k_data
    lines, meta = [], []
    for bufsize, specs in scen:
        big = bufsize > 1000
        datas = [b for _, b in specs]
        CURRENT["case"] = {"bufsize": bufsize, "datas": [sp for sp, _ in specs]}
        outs = Capped(4 * len(datas) + 8)
        w = BufferedPktLineWriter(outs.append, bufsize=bufsize)
        case = {"bufsize": bufsize, "data_lens": [len(d) for d in datas], "datas": [sp for sp, _ in specs]}
        lines.append(f"c19.bufwriter {bufsize}{drv_chunks(datas)}")
        try:
            for d in datas:
                w.write(d)
            w.flush()
        except ValueError:
            # pkt_line refused one of the writes: right iff it does not fit one frame
            meta.append((case, "V"))
            ctx.count("bufwriter", (bufsize, tuple(datas)), True, "refused")
            if all(len(d) <= GIT_DATA_MAX for d in datas):
                ctx.oracle_fail("bufwriter", case, "BufferedPktLineWriter.write refused data that fits one pkt-line")
            continue
        meta.append((case, "none" if not outs else " ".join(hx(o) for o in outs)))
        ctx.count("bufwriter", (bufsize, tuple(datas)), True, "default-bufsize" if big else "small-bufsize")
        if b"".join(outs) != b"".join(pkt_line(d) for d in datas):
            ctx.oracle_fail("bufwriter", case, "bytes handed to the underlying writer != concatenated pkt-lines")
        # end to end: writer -> side-band 1 -> wire -> read_pkt_seq -> demux -> PktLineParser
        frames = Capped(sum(len(d) + 4 for d in datas) // 30000 + 4 * len(datas) + 8)
        proto = Protocol(None, frames.append)
        w = BufferedPktLineWriter(lambda d: proto.write_sideband(1, d), bufsize=bufsize)
        for d in datas:
            w.write(d)
        w.flush()
        wire = b"".join(frames) + b"0000"
        got = Capped(len(datas) + 8)
        ps = PktLineParser(got.append)
        try:
            for ch, d in _read_side_band64k_data(Protocol(io.BytesIO(wire).read, None).read_pkt_seq()):
                ps.parse(d)
            if got != datas or ps.get_tail() != b"":
                ctx.oracle_fail("bufwriter.e2e", case, f"nested framing decoded {len(got)} packets, tail {ps.get_tail()[:8]!r}")
        except Exception as e:  # noqa: BLE001
            ctx.oracle_fail("bufwriter.e2e", case, f"nested framing raised {type(e).__name__}: {e}")
    if not model:
        return
    for (case, real), o in zip(meta, ctx.driver.batch(lines)):
        if o != real:
            ctx.disagree("bufwriter", case, _short(o, 300), _short(real, 300), "BufferedPktLineWriter")


WS = b" \t\n\r\x0b\x0c"


def caps_class(caps):
    """Failing-input class labels of the capability round trip as they were before the C19 fix series (the
    findings are fixed; the labels only describe the input shape in histograms and replay files)."""
    if caps is None:
        return None
    if caps == []:
        return "caps:empty-list"
    first, last = caps[0], caps[-1]
    if first[:1] in WS_SET or last[-1:] in WS_SET:
        return "caps:edge-token-ascii-whitespace"
    return None


def caps_in_domain(caps):
    """The round-trip domain: a (possibly empty) list of non-empty tokens without NUL/LF/SP.  An empty token
    has no representation in a space-separated, space-stripped list (same status as SP inside a token)."""
    return caps is None or all(c != b"" for c in caps)


WS_SET = {bytes([c]) for c in WS}


def gen_token(rng, alpha):
    return bytes(rng.choice(alpha) for _ in range(rng.choice([0, 1, 1, 2, 3, 8, 20])))


def _stream_caps(ctx):
    """format_ref_line / extract_capabilities / extract_want_line_capabilities: model vs real on formatted
    and on arbitrary lines; oracle: capability lists and ref lines survive the round trip (contents
    without NUL/LF; SP is the list separator and excluded from tokens like NUL/LF are)."""
    from dulwich.protocol import extract_capabilities, extract_want_line_capabilities, format_ref_line
    rng = ctx.rng
    A_PLAIN = b"abcxyz019-_=:/.^{}"
    A_FULL = bytes(b for b in range(1, 256) if b not in (0, 10, 32))          # the quantifier: no NUL/LF (+ no SP)
    A_WSY = b"ab=\t\r\x0b\x0c"
    lines, meta = [], []

    def add(line, case, real):
        lines.append(line)
        meta.append((case, real))

    def real_extract(fn, text):
        try:
            t, c = fn(text)
            return f"{hx(t)} {show_list(c)}"
        except ValueError:
            return "V"

    for i in range(ctx.budget(3000)):
        alpha = rng.choice([A_PLAIN, A_PLAIN, A_FULL, A_WSY])
        sha = bytes(rng.choice(b"0123456789abcdef") for _ in range(rng.choice([40, 64])))
        ref = b"refs/" + gen_token(rng, rng.choice([A_PLAIN, bytes(b for b in range(1, 256) if b != 10)]))
        k = rng.random()
        if k < 0.1:
            caps = None
        elif k < 0.15:
            caps = []
        else:
            caps = [gen_token(rng, alpha) or (b"" if rng.random() < 0.15 else b"c") for _ in range(rng.randint(1, 6))]
        line = format_ref_line(ref, sha, caps)
        case = {"ref": hx(ref), "sha": sha.decode(), "caps": None if caps is None else [hx(c) for c in caps]}
        add(f"c19.caps.refline {hx(ref)} {hx(sha)} {'N' if caps is None else show_list(caps)}", case, hx(line))
        real = real_extract(extract_capabilities, line)
        add(f"c19.caps.extract {hx(line)}", case, real)
        cls = caps_class(caps)
        if len(ctx.samples) < 5 and caps and cls is None:
            ctx.sample({"stream": "caps", "line": line.decode("latin1"), "extracted": real})
        ctx.count("caps.refline", (ref, sha, None if caps is None else tuple(caps)), True,
                  (cls or ("no-caps" if caps is None else "wf")) if caps_in_domain(caps) else "empty-token:tie-only")
        # oracle
        if b"\0" in ref or not caps_in_domain(caps):
            pass  # outside the domain (NUL in the ref; an empty token): model tie only
        elif caps is None:
            if real != f"{hx(line)} []":
                ctx.oracle_fail("caps.roundtrip", case, f"line without capabilities came back as {real}")
        else:
            want = f"{hx(sha + b' ' + ref)} {show_list(caps)}"
            if real != want:
                ctx.oracle_fail("caps.roundtrip", case,
                                f"extract_capabilities(format_ref_line(ref, sha, caps)) = {_short(real)}, expected {_short(want)}", cls)
        # want line: "want <sha> cap cap...\n" as the client writes it
        if caps:
            wl = b"want " + sha + b" " + b" ".join(caps) + b"\n"
            realw = real_extract(extract_want_line_capabilities, wl)
            add(f"c19.caps.want {hx(wl)}", dict(case, want_line=True), realw)
            wantw = f"{hx(b'want ' + sha)} {show_list(caps)}"
            wcls = "caps:edge-token-ascii-whitespace" if caps[-1][-1:] in WS_SET else None
            ctx.count("caps.want", (sha, tuple(caps)), True, (wcls or "wf") if caps_in_domain(caps) else "empty-token:tie-only")
            if realw != wantw and caps_in_domain(caps):
                ctx.oracle_fail("caps.want-roundtrip", dict(case, want_line=True),
                                f"extract_want_line_capabilities = {_short(realw)}, expected {_short(wantw)}", wcls)
    # arbitrary lines (model tie; ValueError on several NULs is modelled, outside the quantifier)
    A_ARB = b"ab \0\n\t\r"
    arb = [bytes(t) for n in range(0, 5) for t in itertools.product(b"a \0\n", repeat=n)]
    arb += [bytes(rng.choice(A_ARB) for _ in range(rng.randint(0, 14))) for _ in range(ctx.budget(600))]
    for t in arb:
        add(f"c19.caps.extract {hx(t)}", {"text": hx(t)}, real_extract(extract_capabilities, t))
        add(f"c19.caps.want {hx(t)}", {"text": hx(t), "want_line": True}, real_extract(extract_want_line_capabilities, t))
        ctx.count("caps.arbitrary", t, True, f"nul{min(t.count(0), 2)}")
    for (case, real), o in zip(meta, ctx.driver.batch(lines)):
        if o != real:
            ctx.disagree("caps", case, _short(o, 300), _short(real, 300), "protocol.extract_*/format_ref_line")


class _RecHash:
    def __init__(self, h):
        self.h = h
        self.data = bytearray()

    def update(self, b):
        self.data += b

    def digest(self):
        return bytes(self.h)


def _stream_trailer(ctx):
    """PackStreamReader._read under arbitrary read sizes: hashed ++ trailer == everything read and the
    trailer is the last hash_size bytes (model vs real + oracle)."""
    from dulwich.pack import PackStreamReader
    rng = ctx.rng
    lines, meta = [], []
    for _ in range(ctx.budget(2500)):
        h = rng.choice([20, 32, 1, 2, 3, 5])
        data = rng.randbytes(rng.choice([0, 1, h - 1, h, h + 1, 2 * h, 2 * h + 1, 100]))
        _, chunks = random_partition(rng, data, [h, len(data) - h, len(data) - h + 1])
        if rng.random() < 0.3:
            chunks.insert(rng.randrange(len(chunks) + 1), b"")
        r = PackStreamReader(lambda: _RecHash(h), None)
        it = iter(chunks)
        for c in chunks:
            r._read(lambda size: next(it), len(c))
        real = f"{hx(bytes(r.sha.data))} {hx(bytes(r._trailer))}"
        case = {"hash_size": h, "data": hx(data), "chunk_sizes": [len(c) for c in chunks]}
        lines.append(f"c19.trailer {h}{drv_chunks(chunks)}")
        meta.append((case, real))
        ctx.count("trailer", (h, data, tuple(len(c) for c in chunks)), True, f"h{h}")
        if bytes(r.sha.data) + bytes(r._trailer) != data or len(r._trailer) != min(h, len(data)):
            ctx.oracle_fail("trailer", case, "hashed ++ trailer != bytes read, or trailer is not the last hash_size bytes")
    for (case, real), o in zip(meta, ctx.driver.batch(lines)):
        if o != real:
            ctx.disagree("trailer", case, o, real, "PackStreamReader._read")


def _stream_oversize(ctx):
    """Payloads that do not fit one frame (65517 ... and above): pkt_line / write_pkt_line must split or
    refuse; what comes out must not be a malformed frame.  Also what the decoders make of it."""
    from dulwich.protocol import Protocol, pkt_line
    rng = ctx.rng
    sizes = list(OVERSIZE) if ctx.thorough else [65517, 65520, 65531, 65532, rng.choice(OVERSIZE)]
    pend = []
    for n in sizes:
        payload = bytes([rng.randrange(256)]) * n
        fr = real_pkt_line(payload)
        ctx.count("oversize", n, True, "refused" if fr is None else "emitted")
        _oracle_frame(ctx, "oversize", payload, fr)
        out = []
        try:
            Protocol(None, out.append).write_pkt_line(payload)
        except Exception:  # noqa: BLE001  refused
            pass
        for f in out:
            if len(f) > GIT_LARGE_PACKET_MAX:
                _oracle_frame(ctx, "oversize.write_pkt_line", payload, f)
        if out and fr is None:
            ctx.oracle_fail("oversize.write_pkt_line", {"payload_len": n}, "write_pkt_line wrote something for a payload pkt_line refuses")
        if fr is None:
            pend.append((f"c19.pktline {hx(payload)}", "V", "oversize.pktline", {"payload_len": n, "payload_byte": payload[:1].hex()}, "pkt_line"))
            continue
        # model tie for what the decoders do with the frame that was emitted
        r, _ = real_read_blocking(fr)
        pend.append((f"c19.read {hx(fr)}", r, "oversize.read", {"payload_len": n, "payload_byte": payload[:1].hex()}, "Protocol(BytesIO)"))
        pend.append((f"c19.pktline {hx(payload)}", hx(fr), "oversize.pktline", {"payload_len": n, "payload_byte": payload[:1].hex()}, "pkt_line"))
    _flush_pending(ctx, pend)


def _git_repo(ctx):
    d = ctx.scratch / "gitpeer"
    if (d / "ok").exists():
        return d
    env = core.clean_env()
    d.mkdir(parents=True, exist_ok=True)

    def g(*a):
        rc, out = core.sh(["git", "-C", str(d)] + list(a), env=env, timeout=60)
        if rc != 0:
            raise core.InfraError(f"git {' '.join(a)} failed: {out[-400:]}")
    rc, out = core.sh(["git", "init", "-q", str(d)], env=env, timeout=60)
    if rc != 0:
        raise core.InfraError("git init failed: " + out[-400:])
    g("commit", "-q", "--allow-empty", "-m", "one")
    for i in range(12):
        g("branch", f"b{i}")
    g("tag", "-a", "-m", "t", "v1")
    (d / "ok").write_text("1")
    return d


def _stream_gitpeer(ctx):
    """C git 2.39 as a peer: (a) git's own pkt-line stream (ref advertisement with capabilities) through
    dulwich's decoders under chunking, and re-encoded byte-identically; (b) dulwich-framed protocol-v2
    requests, with frames at the size limits, parsed by git upload-pack."""
    import os
    from dulwich.protocol import extract_capabilities, pkt_line
    rng = ctx.rng
    repo = _git_repo(ctx)
    env = core.clean_env()
    p = subprocess.run(["git", "upload-pack", "--advertise-refs", str(repo)], stdout=subprocess.PIPE, stderr=subprocess.PIPE, env=env, timeout=60)
    if p.returncode != 0:
        raise core.InfraError("git upload-pack --advertise-refs failed: " + p.stderr.decode(errors="replace")[-300:])
    adv = p.stdout
    frames, end, _ = ref_decode(adv)
    pend = []
    for _ in range(ctx.budget(6)):
        _, chunks = random_partition(rng, adv, [])
        pend += _check_decoders(ctx, "gitpeer.adv", adv, chunks, ps=None, tag="git-advert")
    _flush_pending(ctx, pend)
    pay = [None if f[0] != "data" else f[1] for f in frames]
    ctx.count("gitpeer.reencode", adv, True, "advert")
    if end != "eof" or _enc(pay) != adv:
        ctx.oracle_fail("gitpeer.reencode", {"advert_len": len(adv)}, "pkt_line re-encoding of git's ref advertisement differs from git's bytes")
    if pay and pay[0]:
        first = pay[0]
        try:
            text, caps = extract_capabilities(first)
            # git: "<sha> <ref>\0<cap> <cap>...\n"
            ref_caps = first.split(b"\0", 1)[1].rstrip(b"\n").split(b" ")
            ctx.count("gitpeer.caps", first, True, f"{len(caps)} caps")
            if caps != ref_caps or text != first.split(b"\0", 1)[0]:
                ctx.oracle_fail("gitpeer.caps", {"line": hx(first)}, "extract_capabilities disagrees with git's advertised capability list")
            o = ctx.driver.batch([f"c19.caps.extract {hx(first)}"])[0]
            if o != f"{hx(text)} {show_list(caps)}":
                ctx.disagree("gitpeer.caps", {"line": hx(first)}, o, f"{hx(text)} {show_list(caps)}")
        except ValueError as e:
            ctx.oracle_fail("gitpeer.caps", {"line": hx(first)}, f"extract_capabilities raised {e}")
    # (b) git parses what dulwich framed
    env2 = dict(env, GIT_PROTOCOL="version=2")
    sizes = [1, 100, 65515, 65516] + ([65000, 4096, 65514] if ctx.thorough else [])
    for n in sizes:
        pad = b"agent=" + b"x" * (n - 7) + b"\n" if n >= 8 else b"agent=y\n"
        req = pkt_line(b"command=ls-refs\n") + pkt_line(pad) + b"0001" + pkt_line(b"peel\n") + pkt_line(b"ref-prefix refs/heads/\n") + pkt_line(None)
        q = subprocess.run(["git", "upload-pack", "--stateless-rpc", str(repo)], input=req, stdout=subprocess.PIPE, stderr=subprocess.PIPE, env=env2, timeout=60)
        ctx.count("gitpeer.request", n, True, f"caplen{len(pad)}")
        fr2, end2, _ = ref_decode(q.stdout)
        if q.returncode != 0 or end2 != "eof" or not fr2 or fr2[-1] != ("flush",):
            ctx.oracle_fail("gitpeer.request", {"cap_line_len": len(pad)},
                            f"git upload-pack rejected a dulwich-framed request: rc={q.returncode} {q.stderr.decode(errors='replace')[:200]}")
            continue
        # and dulwich reads git's answer (13 refs) under chunking
        _, chunks = random_partition(rng, q.stdout, [])
        r, _ = real_read_rp(chunks)
        exp, _ = expect_reader(q.stdout, True)
        if r != exp:
            ctx.oracle_fail("gitpeer.request", {"cap_line_len": len(pad)}, f"ReceivableProtocol misreads git's ls-refs answer: {_short(r)}")


def _fingerprints(ctx):
    """Adaptive depth: anchored functions whose AST changed since the pinned commit get a bigger budget
    (never a verdict by itself)."""
    import os
    try:
        tree = T.module_ast(core.REPO / "dulwich" / "protocol.py")
        cur = {q: T.fingerprint(T.find_def(tree, q)) for q in FP_FUNCS}
    except Exception as e:  # noqa: BLE001
        ctx.notes.append(f"fingerprinting failed: {e}")
        return
    changed = sorted(q for q in FP_FUNCS if BASE_FP.get(q) not in (None, cur[q]))
    ctx.extra_cov["anchored_functions_changed"] = changed
    if changed and "VERIF_BUDGET_SCALE" not in os.environ and (ctx.lean is None or ctx.lean.ok):
        # (a broken proof/translator already multiplies every budget by 5 in core.Ctx.budget)
        os.environ["VERIF_BUDGET_SCALE"] = "3"
        ctx.notes.append(f"anchored functions changed since the pinned commit: {changed}; budgets x3")


def _run_corpus(ctx):
    """Known witnesses first: every known finding's minimal case is re-run against the real code."""
    from dulwich.protocol import pkt_line, format_ref_line, extract_capabilities, extract_want_line_capabilities
    d = core.VERIF / "corpus" / "C19"
    if not d.exists():
        return
    pend = []
    for f in sorted(d.glob("*.json")):
        c = json.loads(f.read_text())
        kind = c.get("kind")
        ctx.count("corpus", f.stem, True, kind)
        if kind == "pkt_line-oversize":
            payload = bytes([int(c.get("payload_byte", "00"), 16)]) * c["payload_len"]
            _oracle_frame(ctx, "corpus", payload, real_pkt_line(payload))
        elif kind == "decoders":
            data = unhx(c["stream_hex"])
            chunks = split_at(data, list(itertools.accumulate(c.get("chunk_sizes", [len(data)]))))
            pend += _check_decoders(ctx, "corpus", data, chunks, ps=None, tag=f.stem)
        elif kind == "caps":
            caps = [unhx(x) for x in c["caps"]]
            ref, sha = unhx(c["ref"]), c["sha"].encode()
            line = format_ref_line(ref, sha, caps)
            try:
                t, got = extract_capabilities(line)
            except ValueError:
                t, got = None, None
            if (t, got) != (sha + b" " + ref, caps):
                ctx.oracle_fail("corpus", c, f"extract_capabilities(format_ref_line(...)) returned caps {got}", caps_class(caps))
        elif kind == "want-caps":
            caps = [unhx(x) for x in c["caps"]]
            sha = c["sha"].encode()
            t, got = extract_want_line_capabilities(b"want " + sha + b" " + b" ".join(caps) + b"\n")
            if (t, got) != (b"want " + sha, caps):
                ctx.oracle_fail("corpus", c, f"extract_want_line_capabilities returned caps {got}",
                                "caps:edge-token-ascii-whitespace" if caps and caps[-1][-1:] in WS_SET else None)
    _flush_pending(ctx, pend)


def run(ctx: core.Ctx):
    ctx.assumptions += [
        "transport contract: Protocol's `read(n)` blocks until n bytes or EOF (file-like; BytesIO, BufferedReader over "
        "a short-reading raw stream); ReceivableProtocol's `recv(n)` returns 1..n bytes, b'' only at EOF — the "
        "theorems quantify over every fragment list with non-empty fragments",
        "git's LARGE_PACKET_MAX = 65520 (pkt-line.h / protocol-common) is an external constant of the wire format",
        "CPython semantics of bytes slicing with negative indices, str.format ':04x', bytes.strip/split, io.BytesIO",
        "SP is the capability-list separator: tokens containing SP, and empty tokens, are excluded from the "
        "round-trip domain like NUL/LF (model tie only)",
    ]
    _fingerprints(ctx)
    for fn in (_run_corpus, _stream_prefix, _stream_parselen, _stream_exhaustive, _stream_roundtrip, _stream_malformed,
               _stream_rpops, _stream_script, _stream_sideband, _stream_bufwriter, _stream_caps, _stream_trailer,
               _stream_oversize, _stream_gitpeer):
        _guard(ctx, fn)


def _guard(ctx, fn):
    """Run one stream; real code that does not terminate (or floods its callback) is a property failure
    (`every byte string fed to the decoder yields frames or a protocol error`), not a harness hang."""
    CURRENT["case"] = None
    CURRENT["hangs"] = 0
    import time
    t0 = time.time()
    try:
        with time_limit(1500 if ctx.thorough else 240):
            fn(ctx)
        ctx.extra_cov.setdefault("stream_wall_s", {})[fn.__name__.lstrip("_")] = round(time.time() - t0, 2)
    except Hang:
        ctx.oracle_fail(fn.__name__.replace("_stream_", "").replace("_run_", ""), CURRENT["case"] or {},
                        "the real code did not terminate (or produced output without consuming input) on this case")


# AST fingerprints (harness.translate.fingerprint) of the anchored functions at the pinned commit + the C19 fix
# series (PENDING-1..4)
BASE_FP: dict = {
    "BufferedPktLineWriter.flush": "afa659ac7aae02c9",
    "BufferedPktLineWriter.write": "4854ce9bc15a0e1b",
    "PktLineParser.parse": "b8ed33479fed3835",
    "Protocol.eof": "fcb49561231e89f7",
    "Protocol.read_pkt_line": "b2d3c0c1b9ad20d1",
    "Protocol.read_pkt_seq": "4d46a9c4159b185d",
    "Protocol.unread_pkt_line": "13bb8a285edb56d3",
    "Protocol.write_pkt_line": "ee4816c7f9f866e8",
    "Protocol.write_sideband": "ebc6326941719590",
    "ReceivableProtocol.read": "104ecc6bc69047f3",
    "ReceivableProtocol.recv": "ad953cd59506e968",
    "_parse_pkt_line_length": "9ce89cd59bf1d932",
    "extract_capabilities": "d9b314f398121951",
    "extract_want_line_capabilities": "1dd4757624873799",
    "format_capability_line": "11b7de34ab326e80",
    "format_ref_line": "e00f20051356f0f1",
    "pkt_line": "8cd4d4192d2e9f7b",
    "pkt_seq": "99360132954749e1",
}


# ------------------------------------------------------------------------------------------------
# failing-input search and replay

def _oracle_only_decoders(ctx, stream, data, chunks, ps=None):
    """_check_decoders without the model comparison."""
    _check_decoders(ctx, stream, data, chunks, ps=ps, tag="search")


def search(ctx: core.Ctx):
    """A proof obligation, the translator or the correspondence broke and the ordinary run saw no oracle
    failure: hit the direct oracle harder — first around the disagreeing cases (all partitions when short,
    many random ones otherwise), then every oracle-bearing stream again with a boosted budget."""
    import os
    rng = ctx.rng
    for dgr in list(ctx.disagreements)[:40]:
        c = dgr["case"]
        if isinstance(c.get("stream_hex"), str):
            data = unhx(c["stream_hex"])
            parts = all_partitions(data) if len(data) <= 11 else (random_partition(rng, data, [])[1] for _ in range(60))
            for chunks in parts:
                _oracle_only_decoders(ctx, "search", data, chunks)
            # the same bytes as payloads of a fresh, valid encoding
            frames, _, _ = ref_decode(data)
            ps = [f[1] if f[0] == "data" else None for f in frames]
            if ps:
                enc = _enc(ps)
                for _ in range(20):
                    _oracle_only_decoders(ctx, "search", enc, random_partition(rng, enc, frame_boundaries(ps))[1], ps=ps)
        if ctx.oracle_failures:
            return
    old = os.environ.get("VERIF_BUDGET_SCALE")
    os.environ["VERIF_BUDGET_SCALE"] = str(2 * float(old or "1"))
    try:
        for fn in (_stream_roundtrip, _stream_exhaustive, _stream_malformed, _stream_sideband, _stream_bufwriter,
                   _stream_caps, _stream_rpops, _stream_script, _stream_trailer, _stream_oversize, _stream_parselen,
                   _stream_prefix):
            n0 = len(ctx.disagreements)
            _guard(ctx, fn)
            del ctx.disagreements[max(n0, 200):]
            if ctx.oracle_failures:
                return
    finally:
        if old is None:
            os.environ.pop("VERIF_BUDGET_SCALE", None)
        else:
            os.environ["VERIF_BUDGET_SCALE"] = old


def replay(ctx: core.Ctx, data: dict) -> int:
    """Re-run the direct oracle on the case stored in a replay / corpus file."""
    from dulwich.protocol import pkt_line, format_ref_line, extract_capabilities, extract_want_line_capabilities
    c = data.get("case", data)
    stream = data.get("stream", "")
    shown = False
    if data.get("kind") == "broken-obligation":
        print("replay: broken obligation (no failing input was found):")
        for w in data.get("no_longer_checks", []):
            print("   ", w)
        for dgr in data.get("disagreements", [])[:3]:
            print("    disagreement:", json.dumps(dgr)[:600])
        # re-establish: run the whole check
        ctx.lean = core.lean_check("C19")
        run(ctx)
        return ctx.finish(search)
    if isinstance(c.get("stream_hex"), str):
        b = unhx(c["stream_hex"])
        chunks = split_at(b, list(itertools.accumulate(c.get("chunk_sizes") or [len(b)])))
        if c.get("chunk_sizes") and 0 in c["chunk_sizes"]:
            # empty fragments are positional; rebuild exactly
            chunks, pos = [], 0
            for n in c["chunk_sizes"]:
                chunks.append(b[pos:pos + n])
                pos += n
        print(f"replay: {len(b)}-byte stream, {len(chunks)} fragments; decoders:")
        print("   Protocol(BytesIO)        ", _short(real_read_blocking(b)[0]))
        print("   Protocol(BufferedReader) ", _short(real_read_buffered(chunks)[0]))
        print("   ReceivableProtocol       ", _short(real_read_rp(chunks)[0]))
        print("   PktLineParser            ", _short(real_parse(chunks)))
        print("   reference (reader/parser)", _short(expect_reader(b, False)[0]), "/", _short(expect_parser(b)))
        if "ops" in c:
            print("   script", c["ops"], "->", _run_script_real(b, c["ops"]))
        ps = None
        if c.get("payload_lens") is not None:
            frames, _, _ = ref_decode(b)
            ps = [f[1] if f[0] == "data" else None for f in frames]
            if [None if p is None else len(p) for p in ps] != c["payload_lens"]:
                ps = None
        _check_decoders(ctx, "replay", b, chunks, ps=ps)
        if ps is not None:
            n = len(ps)
            probe = _run_script_real(b, ["e", "r"] * n + ["e"])
            want = " ".join(x for p in ps for x in ("0", show_pkt(p))) + (" " if n else "") + "1"
            if probe != want:
                ctx.oracle_fail("replay", c, f"eof()/read_pkt_line interleaving returned {_short(probe)}")
        shown = True
    elif "payload_len" in c:
        n = c["payload_len"]
        payload = bytes([int(c.get("payload_byte", "00"), 16)]) * n
        fr = real_pkt_line(payload)
        print(f"replay: pkt_line({n} bytes) -> " + ("refused" if fr is None else f"{len(fr)}-byte frame, prefix {fr[:len(fr) - n]!r}"))
        _oracle_frame(ctx, "replay", payload, fr)
        shown = True
    elif "sizestr" in c:
        from dulwich.protocol import _parse_pkt_line_length
        s = unhx(c["sizestr"])
        try:
            r = f"ok {_parse_pkt_line_length(s)}"
        except Exception as e:  # noqa: BLE001
            r = _classify_exc(e)
        exp = f"ok {int(s, 16)}" if len(s) == 4 and all(x in HEXCHARS for x in s) else "P"
        print(f"replay: _parse_pkt_line_length({s!r}) -> {r}; expected {exp}")
        if r != exp:
            ctx.oracle_fail("replay", c, f"_parse_pkt_line_length({s!r}) -> {r}")
        shown = True
    elif "writes" in c:
        _sideband_cases(ctx, [[(ch, (spec, blob_of(spec))) for ch, spec in c["writes"]]], model=False)
        print("replay: side-band scenario", [(ch, spec if isinstance(spec, dict) else len(spec) // 2) for ch, spec in c["writes"]])
        shown = True
    elif "bufsize" in c and "datas" in c:
        _bufwriter_cases(ctx, [(c["bufsize"], [(sp, blob_of(sp)) for sp in c["datas"]])], model=False)
        print("replay: BufferedPktLineWriter scenario bufsize", c["bufsize"], c.get("data_lens"))
        shown = True
    elif "caps" in c and "sha" in c:
        caps = None if c["caps"] is None else [unhx(x) for x in c["caps"]]
        sha = c["sha"].encode()
        if c.get("want_line") or c.get("kind") == "want-caps":
            wl = b"want " + sha + b" " + b" ".join(caps) + b"\n"
            got = extract_want_line_capabilities(wl)
            print(f"replay: extract_want_line_capabilities({wl!r}) -> {got}")
            if got != (b"want " + sha, caps):
                ctx.oracle_fail("replay", c, f"want line came back as {got}",
                                "caps:edge-token-ascii-whitespace" if caps and caps[-1][-1:] in WS_SET else None)
        else:
            ref = unhx(c["ref"])
            line = format_ref_line(ref, sha, caps)
            try:
                got = extract_capabilities(line)
            except ValueError as e:
                got = f"ValueError({e})"
            print(f"replay: extract_capabilities({line!r}) -> {got}")
            want = (line, []) if caps is None else (sha + b" " + ref, caps)
            if got != want:
                ctx.oracle_fail("replay", c, f"ref line came back as {got}", caps_class(caps))
        shown = True
    elif "ops" in c and "rbufsize" in c:
        from dulwich.protocol import ReceivableProtocol
        b = unhx(c["data"])
        chunks = split_at(b, list(itertools.accumulate(c["chunks"])))
        p = ReceivableProtocol(make_recv(chunks), lambda x: None, rbufsize=c["rbufsize"])
        pos = 0
        for op in c["ops"]:
            n = int(op[1:])
            try:
                got = p.read(n) if op[0] == "r" else p.recv(n)
            except AssertionError:
                print("   ", op, "AssertionError")
                if n:
                    ctx.oracle_fail("replay", c, f"{op} raised AssertionError")
                break
            rest = b[pos:]
            ok = got == rest[:n] if op[0] == "r" else (rest.startswith(got) and len(got) <= n and (got or not rest))
            print("   ", op, got, "ok" if ok else "WRONG")
            if not ok:
                ctx.oracle_fail("replay", c, f"{op} returned {got!r} at stream position {pos}")
                break
            pos += len(got)
        shown = True
    elif "hash_size" in c:
        from dulwich.pack import PackStreamReader
        h, b = c["hash_size"], unhx(c["data"])
        chunks, pos = [], 0
        for n in c["chunk_sizes"]:
            chunks.append(b[pos:pos + n])
            pos += n
        r = PackStreamReader(lambda: _RecHash(h), None)
        it = iter(chunks)
        for ch in chunks:
            r._read(lambda size: next(it), len(ch))
        print(f"replay: trailer {bytes(r._trailer)!r}, hashed {len(r.sha.data)} bytes of {len(b)}")
        if bytes(r.sha.data) + bytes(r._trailer) != b or len(r._trailer) != min(h, len(b)):
            ctx.oracle_fail("replay", c, "hashed ++ trailer != bytes read")
        shown = True
    if not shown:
        print("replay: case not self-contained (C git peer stream); re-running that stream")
        _stream_gitpeer(ctx)
    for k in ctx.known:
        if ctx.known_hit.get(k["id"]):
            print(f"KNOWN-FINDING: property=C19 {k['id']}: {k['what']}")
    if ctx.oracle_failures:
        for f in ctx.oracle_failures[:5]:
            print("   FAIL:", f["what"][:300])
        import sys
        path = data.get("_path") or (sys.argv[sys.argv.index("--replay") + 1] if "--replay" in sys.argv[:-1] else "<replayed>")
        print(f"VIOLATION property=C19 replay={path}")
        return 1
    print("replay: property holds on this case" + (" (apart from the known findings above)" if ctx.known_hit else ""))
    return 0
