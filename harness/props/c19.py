"""C19 — pkt-line and side-band framing round-trips under any read chunking.

Model: lean/DulwichModel/Model/PktLine.lean; theorems: Props/C19.lean (lemmas: Lemmas/PktLine.lean).
Tie: translate() regenerates Gen/PktLine.lean (every constant of the codec, by matching the anchored
functions against code templates), run() drives the correspondence streams (model vs real
Protocol / ReceivableProtocol / PktLineParser / BufferedPktLineWriter / capability helpers /
PackStreamReader._read) and the direct oracle (round trip under chunking, frame well-formedness
against an independent reference framer, decoder totality, C git as a peer).
"""
from __future__ import annotations

import ast
import io
import itertools
import json
import re
import subprocess
from pathlib import Path

from .. import core, translate as T
from ..core import hx, unhx

MOD = "c19"

# git's pkt-line.h: LARGE_PACKET_MAX (whole frame) / LARGE_PACKET_DATA_MAX (payload).  External
# constants of the wire format (not in dulwich's code); the oracle and the model's `gitLargePacketMax`
# use them.
GIT_LARGE_PACKET_MAX = 65520
GIT_DATA_MAX = GIT_LARGE_PACKET_MAX - 4


# ------------------------------------------------------------------------------------------------
# translator: the anchored functions are matched against code templates; the captured constants go
# to Gen/PktLine.lean.  A function whose shape no longer matches is a broken tie (TranslateError).

def _strip_noise(fn: ast.AST) -> ast.AST:
    """Drop docstrings, logging and activity reporting (they do not touch the data path)."""
    fn = ast.parse(ast.unparse(fn)).body[0]  # private copy

    def is_logger_call(st):
        return isinstance(st, ast.Expr) and isinstance(st.value, ast.Call) and \
            isinstance(st.value.func, ast.Attribute) and isinstance(st.value.func.value, ast.Name) and \
            st.value.func.value.id == "logger"

    def is_noise(st):
        if isinstance(st, ast.Expr) and isinstance(st.value, ast.Constant) and isinstance(st.value.value, str):
            return True
        if is_logger_call(st):
            return True
        if isinstance(st, ast.If):
            t = ast.unparse(st.test)
            if t == "self.report_activity":
                return True
            if all(is_logger_call(s) or isinstance(s, ast.Pass) for s in st.body + st.orelse):
                return True
        return False

    class V(ast.NodeTransformer):
        def generic_visit(self, node):
            super().generic_visit(node)
            for field in ("body", "orelse", "finalbody"):
                b = getattr(node, field, None)
                if isinstance(b, list) and b and isinstance(b[0], ast.stmt):
                    nb = [s for s in b if not is_noise(s)]
                    if not nb and field == "body":
                        nb = [ast.Pass()]
                    setattr(node, field, nb)
            return node
    return V().visit(fn)


def _match(tree, qualname: str, template: str) -> dict:
    fn = _strip_noise(T.find_def(tree, qualname))
    src = ast.unparse(fn)
    # signature line is not part of the template
    body = src.split("\n", 1)[1] if "\n" in src else ""
    body = "\n".join(l.rstrip() for l in body.splitlines())
    import textwrap
    tmpl = textwrap.indent(textwrap.dedent(template).strip(), "    ")
    seen = set()
    rx = ""
    for part in re.split(r"(«\w+»)", tmpl):
        if part.startswith("«"):
            name = part[1:-1]
            if name in seen:
                rx += f"(?P={name})"
            else:
                seen.add(name)
                rx += f"(?P<{name}>\\d+)"
        else:
            rx += re.escape(part)
    m = re.fullmatch(rx, body)
    if not m:
        raise T.TranslateError(f"{qualname}: source no longer matches the modelled shape:\n{body}")
    return {k: int(v) for k, v in m.groupdict().items()}


def translate(repo: Path) -> dict:
    tree = T.module_ast(repo / "dulwich" / "protocol.py")
    g: dict = {}
    hexd = T.const_value(tree, "_HEX_DIGITS")
    if not isinstance(hexd, frozenset) or not all(isinstance(x, int) for x in hexd):
        raise T.TranslateError("_HEX_DIGITS is not a frozenset of byte values")
    rbuf = T.const_value(tree, "_RBUFSIZE")

    # pkt_line: f"{len(data) + H:0Wx}"
    fn = T.find_def(tree, "pkt_line")
    fv = [n for n in ast.walk(fn) if isinstance(n, ast.FormattedValue)]
    if len(fv) != 1 or fv[0].format_spec is None:
        raise T.TranslateError("pkt_line: expected exactly one formatted value with a format spec")
    spec = "".join(v.value for v in fv[0].format_spec.values if isinstance(v, ast.Constant))
    m = re.fullmatch(r"0(\d+)x", spec)
    if not m:
        raise T.TranslateError(f"pkt_line: format spec {spec!r} is not zero-padded lower-case hex")
    g["fmtWidth"] = int(m.group(1))
    g.update(_match(tree, "pkt_line", f"""
        if data is None:
            return b'«flushLit»'
        return f'{{len(data) + «fmtHdr»:{spec}}}'.encode('ascii') + data
    """))
    flush_lit = str(g.pop("flushLit"))
    # the literal is captured as digits; keep its text (leading zeros matter)
    mm = re.search(r"return b'(\d+)'", ast.unparse(fn))
    flush_lit = mm.group(1)

    g.update(_match(tree, "_parse_pkt_line_length", """
        if len(sizestr) != «lenWidth» or not _HEX_DIGITS.issuperset(sizestr):
            raise GitProtocolError(f'Invalid pkt-line length prefix: {sizestr!r}')
        return int(sizestr, «lenBase»)
    """))
    g.update(_match(tree, "Protocol.read_pkt_line", """
        if self._readahead is None:
            read = self.read
        else:
            read = self._readahead.read
            self._readahead = None
        try:
            sizestr = read(«rdPrefix»)
            if not sizestr:
                raise HangupException
            size = _parse_pkt_line_length(sizestr)
            if size == «rdFlush» or size == «rdDelim»:
                return None
            if size < «rdMin»:
                raise GitProtocolError(f'Invalid pkt-line length: {size:04x}')
            pkt_contents = read(size - «rdHdr»)
        except ConnectionResetError as exc:
            raise HangupException from exc
        except OSError as exc:
            raise GitProtocolError(str(exc)) from exc
        else:
            if len(pkt_contents) + «rdChk» != size:
                raise GitProtocolError(f'Length of pkt read {len(pkt_contents) + 4:04x} does not match length prefix {size:04x}')
            return pkt_contents
    """))
    _match(tree, "Protocol.read_pkt_seq", """
        pkt = self.read_pkt_line()
        while pkt:
            yield pkt
            pkt = self.read_pkt_line()
    """)
    _match(tree, "Protocol.eof", """
        try:
            next_line = self.read_pkt_line()
        except HangupException:
            return True
        self.unread_pkt_line(next_line)
        return False
    """)
    _match(tree, "Protocol.unread_pkt_line", """
        if self._readahead is not None:
            raise ValueError('Attempted to unread multiple pkt-lines.')
        self._readahead = BytesIO(pkt_line(data))
    """)
    _match(tree, "Protocol.write_pkt_line", """
        try:
            line = pkt_line(line)
            self.write(line)
        except OSError as exc:
            raise GitProtocolError(str(exc)) from exc
    """)
    g.update(_match(tree, "Protocol.write_sideband", """
        while blob:
            self.write_pkt_line(bytes(bytearray([channel])) + blob[:«sbChunk»])
            blob = blob[«sbChunk»:]
    """))
    g.update(_match(tree, "PktLineParser.parse", """
        self._readahead.write(data)
        buf = self._readahead.getvalue()
        if len(buf) < «psMin»:
            return
        while len(buf) >= «psMin»:
            size = _parse_pkt_line_length(buf[:«psPrefix»])
            if size == «psFlush»:
                self.handle_pkt(None)
                buf = buf[«psFlushDrop»:]
            elif size < «psMinSize»:
                raise GitProtocolError(f'Invalid pkt-line length: {size:04x}')
            elif size <= len(buf):
                self.handle_pkt(buf[«psHdr»:size])
                buf = buf[size:]
            else:
                break
        self._readahead = BytesIO()
        self._readahead.write(buf)
    """))
    # BufferedPktLineWriter
    init = T.find_def(tree, "BufferedPktLineWriter.__init__")
    defaults = init.args.defaults
    if len(defaults) != 1:
        raise T.TranslateError("BufferedPktLineWriter.__init__: expected one default (bufsize)")
    g["bwBufsize"] = T.eval_literal(defaults[0], tree)
    _match(tree, "BufferedPktLineWriter.write", """
        line = pkt_line(data)
        line_len = len(line)
        over = self._buflen + line_len - self._bufsize
        if over >= 0:
            start = line_len - over
            self._wbuf.write(line[:start])
            self.flush()
        else:
            start = 0
        saved = line[start:]
        self._wbuf.write(saved)
        self._buflen += len(saved)
    """)
    fl = ast.unparse(_strip_noise(T.find_def(tree, "BufferedPktLineWriter.flush")))
    m = re.fullmatch(r"def flush\(self\) -> None:\n    data = self\._wbuf\.getvalue\(\)\n    if data:\n"
                     r"        self\._write\(data\)\n    self\.(_\w+) = 0\n    self\._wbuf = BytesIO\(\)", fl)
    if not m:
        raise T.TranslateError("BufferedPktLineWriter.flush: source no longer matches the modelled shape:\n" + fl)
    resets = m.group(1) == "_buflen"
    # capability helpers
    _match(tree, "extract_capabilities", """
        if b'\\x00' not in text:
            return (text, [])
        text, capabilities = text.rstrip().split(b'\\x00')
        return (text, capabilities.strip().split(b' '))
    """)
    g.update(_match(tree, "extract_want_line_capabilities", """
        split_text = text.rstrip().split(b' ')
        if len(split_text) < «wantMin»:
            return (text, [])
        return (b' '.join(split_text[:«wantHead»]), split_text[«wantHead»:])
    """))
    _match(tree, "format_capability_line", """
        return b''.join([b' ' + c for c in capabilities])
    """)
    _match(tree, "format_ref_line", """
        if capabilities is None:
            return sha + b' ' + ref + b'\\n'
        else:
            return sha + b' ' + ref + b'\\x00' + format_capability_line(capabilities) + b'\\n'
    """)
    ctree = T.module_ast(repo / "dulwich" / "client.py")
    _match(ctree, "_read_side_band64k_data", """
        for pkt in pkt_seq:
            channel = ord(pkt[:1])
            yield (channel, pkt[1:])
    """)
    ptree = T.module_ast(repo / "dulwich" / "pack.py")
    _match(ptree, "PackStreamReader._read", """
        data = read(size)
        n = len(data)
        self._offset += n
        tn = len(self._trailer)
        if n >= self._hash_size:
            to_pop = tn
            to_add = self._hash_size
        else:
            to_pop = max(n + tn - self._hash_size, 0)
            to_add = n
        self.sha.update(bytes(bytearray([self._trailer.popleft() for _ in range(to_pop)])))
        self._trailer.extend(data[-to_add:])
        self.sha.update(data[:-to_add])
        return data
    """)
    fps = {q: T.fingerprint(T.find_def(tree, q)) for q in FP_FUNCS}
    d = lambda k, doc: f"/-- {doc} -/\ndef {k} : Nat := {g[k]}\n"
    src = T.lean_header("dulwich/protocol.py: _HEX_DIGITS, _RBUFSIZE, pkt_line, _parse_pkt_line_length, "
                        "Protocol.read_pkt_line/write_sideband, PktLineParser.parse, BufferedPktLineWriter, "
                        "extract_want_line_capabilities (shapes of these and of read_pkt_seq/eof/unread_pkt_line/"
                        "extract_capabilities/format_*/client._read_side_band64k_data/pack.PackStreamReader._read "
                        "are template-matched)") + f"""
namespace Dulwich.Gen.PktLine
/-- `_HEX_DIGITS` (byte values, sorted) -/
def hexDigits : List Nat := {sorted(hexd)}
/-- `_RBUFSIZE` -/
def rbufSize : Nat := {rbuf}
/-- `pkt_line(None)` literal -/
def flushPkt : List Nat := {list(flush_lit.encode())}
{d("fmtWidth", "`pkt_line`: minimum digits of the `:0Wx` format spec")}\
{d("fmtHdr", "`pkt_line`: `len(data) + H`")}\
{d("lenWidth", "`_parse_pkt_line_length`: `len(sizestr) != W`")}\
{d("lenBase", "`_parse_pkt_line_length`: `int(sizestr, B)`")}\
{d("rdPrefix", "`read_pkt_line`: `read(N)` for the length prefix")}\
{d("rdFlush", "`read_pkt_line`: `size == F` (flush-pkt)")}\
{d("rdDelim", "`read_pkt_line`: `or size == D` (delim-pkt)")}\
{d("rdMin", "`read_pkt_line`: `size < M` is a protocol error")}\
{d("rdHdr", "`read_pkt_line`: `read(size - H)`")}\
{d("rdChk", "`read_pkt_line`: `len(pkt_contents) + H != size`")}\
{d("sbChunk", "`write_sideband`: `blob[:N]` / `blob[N:]`")}\
{d("psMin", "`PktLineParser.parse`: `len(buf) < N` / `while len(buf) >= N`")}\
{d("psPrefix", "`PktLineParser.parse`: `buf[:N]`")}\
{d("psFlush", "`PktLineParser.parse`: `size == F`")}\
{d("psFlushDrop", "`PktLineParser.parse`: `buf = buf[N:]` after a flush")}\
{d("psMinSize", "`PktLineParser.parse`: `size < M` is a protocol error")}\
{d("psHdr", "`PktLineParser.parse`: `buf[H:size]`")}\
{d("bwBufsize", "`BufferedPktLineWriter.__init__`: default `bufsize`")}\
/-- `BufferedPktLineWriter.flush` resets `_buflen` (false: it assigns the unrelated `_len`) -/
def bwFlushResetsBuflen : Bool := {"true" if resets else "false"}
{d("wantMin", "`extract_want_line_capabilities`: `len(split_text) < N`")}\
{d("wantHead", "`extract_want_line_capabilities`: `split_text[:N]` / `split_text[N:]`")}\
end Dulwich.Gen.PktLine
"""
    return {"PktLine": src}


FP_FUNCS = ["pkt_line", "pkt_seq", "_parse_pkt_line_length", "Protocol.read_pkt_line", "Protocol.eof",
            "Protocol.unread_pkt_line", "Protocol.read_pkt_seq", "Protocol.write_pkt_line", "Protocol.write_sideband",
            "ReceivableProtocol.read", "ReceivableProtocol.recv", "BufferedPktLineWriter.write",
            "BufferedPktLineWriter.flush", "PktLineParser.parse", "extract_capabilities",
            "extract_want_line_capabilities", "format_capability_line", "format_ref_line"]
