"""C12 — tree building, flattening, diffing and patching are mutually consistent.

Model: lean/DulwichModel/Model/TreeOps.lean; theorems: Props/C12.lean (lemmas in Lemmas/TreeOps.lean).
Tie: translate() regenerates Gen/TreeOps.lean (separators, directory sort suffix, mode constants, the
name_order flags of the three iteritems() call sites, the branch order of _merge_entries, change type
names ...); run() drives correspondence streams (model vs pure-Python vs freshly built Rust extension)
and the direct oracle (the property's own words on the real code, C git as a third party).
"""
from __future__ import annotations

import ast
import hashlib
import itertools
import json
import re
import stat as pystat
import subprocess
from pathlib import Path

from .. import core, translate as T
from ..core import hx, unhx

MOD = "c12"

# ------------------------------------------------------------------------------------------------
# translator


def _bytes_const(node, what):
    if isinstance(node, ast.Constant) and isinstance(node.value, bytes) and len(node.value) == 1:
        return node.value[0]
    raise T.TranslateError(f"{what}: expected a one-byte bytes literal, got {ast.dump(node)[:80]}")


def _name_order_kw(func, what):
    """value of name_order in the (single) `.iteritems(...)` call inside func; None = not passed."""
    calls = [n for n in ast.walk(func) if isinstance(n, ast.Call) and isinstance(n.func, ast.Attribute)
             and n.func.attr == "iteritems"]
    if len(calls) != 1:
        raise T.TranslateError(f"{what}: expected exactly one .iteritems() call, found {len(calls)}")
    c = calls[0]
    if c.args:
        return bool(T.eval_literal(c.args[0]))
    for kw in c.keywords:
        if kw.arg == "name_order":
            return bool(T.eval_literal(kw.value))
    return None


def _is_stat_attr(node, attr):
    return isinstance(node, ast.Attribute) and node.attr == attr and isinstance(node.value, ast.Name) \
        and node.value.id == "stat"


def _rust_const(src: str, name: str) -> int:
    m = re.search(rf"const\s+{re.escape(name)}\s*:\s*\w+\s*=\s*([0-9a-fA-Fxo_]+)\s*;", src)
    if not m:
        raise T.TranslateError(f"rust const {name} not found in crates/diff-tree/src/lib.rs")
    return int(m.group(1).replace("_", ""), 0)


def _detector_reset_analysis(dft):
    """Definite-assignment analysis of RenameDetector.changes_with_renames (self-method calls inlined): every per-call
    attribute (assigned anywhere in changes_with_renames or a method it calls) must be (re)assigned on EVERY path before it
    is read.  Returns (sorted per-call attrs, sorted attrs that can be read stale, [(method, attr, line)])."""
    cls = T.find_def(dft, "RenameDetector")
    methods = {n.name: n for n in cls.body if isinstance(n, ast.FunctionDef)}
    if "changes_with_renames" not in methods:
        raise T.TranslateError("RenameDetector.changes_with_renames not found")

    def self_attr(n):
        return isinstance(n, ast.Attribute) and isinstance(n.value, ast.Name) and n.value.id == "self"

    # reachable methods and the attributes they store
    reach, todo = set(), ["changes_with_renames"]
    while todo:
        m = todo.pop()
        if m in reach or m not in methods:
            continue
        reach.add(m)
        for x in ast.walk(methods[m]):
            if isinstance(x, ast.Call) and self_attr(x.func) and x.func.attr in methods:
                todo.append(x.func.attr)
    tracked = set()
    for m in reach:
        for x in ast.walk(methods[m]):
            if self_attr(x) and isinstance(x.ctx, ast.Store):
                tracked.add(x.attr)
    if not {"_adds", "_deletes", "_changes", "_candidates"} <= tracked:
        raise T.TranslateError(f"RenameDetector: per-call attributes not recognised: {sorted(tracked)}")
    violations = []

    def analyze(mname, cur, stack):
        if mname in stack:
            return cur
        exits = []
        out = block(methods[mname].body, set(cur), exits, mname, stack + [mname])
        if out is not None:
            exits.append(out)
        return set.intersection(*exits) if exits else set(tracked)

    def expr(node, cur, mname, stack):
        """reads (and inlined self-method calls) of an expression, in approximate evaluation order; mutates cur"""
        if node is None:
            return
        if isinstance(node, ast.Call) and self_attr(node.func) and node.func.attr in methods:
            for a in list(node.args) + [k.value for k in node.keywords]:
                expr(a, cur, mname, stack)
            new = analyze(node.func.attr, cur, stack)
            cur.clear()
            cur.update(new)
            return
        if self_attr(node) and isinstance(node.ctx, ast.Load) and node.attr in tracked and node.attr not in cur:
            violations.append((mname, node.attr, node.lineno))
        for ch in ast.iter_child_nodes(node):
            expr(ch, cur, mname, stack)

    def store(target, cur, mname, stack):
        if self_attr(target) and isinstance(target.ctx, ast.Store):
            if target.attr in tracked:
                cur.add(target.attr)
        elif isinstance(target, (ast.Tuple, ast.List)):
            for e in target.elts:
                store(e, cur, mname, stack)
        else:
            expr(target, cur, mname, stack)

    def block(stmts, cur, exits, mname, stack):
        for st in stmts:
            if isinstance(st, ast.Return):
                expr(st.value, cur, mname, stack)
                exits.append(set(cur))
                return None
            if isinstance(st, ast.Raise):
                expr(st.exc, cur, mname, stack)
                return None
            if isinstance(st, ast.If):
                expr(st.test, cur, mname, stack)
                a = block(st.body, set(cur), exits, mname, stack)
                b = block(st.orelse, set(cur), exits, mname, stack)
                outs = [x for x in (a, b) if x is not None]
                if not outs:
                    return None
                cur = set.intersection(*outs)
            elif isinstance(st, (ast.For, ast.While)):
                expr(st.iter if isinstance(st, ast.For) else st.test, cur, mname, stack)
                block(st.body, set(cur), exits, mname, stack)
                block(st.orelse, set(cur), exits, mname, stack)
            elif isinstance(st, ast.Try):
                outs = [block(st.body + st.orelse, set(cur), exits, mname, stack)]
                outs += [block(h.body, set(cur), exits, mname, stack) for h in st.handlers]
                outs = [x for x in outs if x is not None]
                if not outs:
                    return None
                cur = set.intersection(*outs)
                if st.finalbody:
                    cur = block(st.finalbody, cur, exits, mname, stack)
                    if cur is None:
                        return None
            elif isinstance(st, ast.With):
                for it in st.items:
                    expr(it.context_expr, cur, mname, stack)
                cur = block(st.body, cur, exits, mname, stack)
                if cur is None:
                    return None
            elif isinstance(st, (ast.FunctionDef, ast.ClassDef)):
                for x in st.body:
                    expr(x, set(cur), mname, stack)
            elif isinstance(st, ast.Assign):
                expr(st.value, cur, mname, stack)
                for t in st.targets:
                    store(t, cur, mname, stack)
            elif isinstance(st, ast.AnnAssign):
                expr(st.value, cur, mname, stack)
                if st.value is not None:
                    store(st.target, cur, mname, stack)
            elif isinstance(st, ast.AugAssign):
                expr(st.value, cur, mname, stack)
                if self_attr(st.target) and st.target.attr in tracked and st.target.attr not in cur:
                    violations.append((mname, st.target.attr, st.lineno))
                store(st.target, cur, mname, stack)
            else:
                expr(st, cur, mname, stack)
        return cur
    analyze("changes_with_renames", set(), [])
    stale = sorted({a for _, a, _ in violations})
    return sorted(tracked), stale, violations


def translate(repo: Path) -> dict:
    objs = T.module_ast(repo / "dulwich" / "objects.py")
    idx = T.module_ast(repo / "dulwich" / "index.py")
    ost = T.module_ast(repo / "dulwich" / "object_store.py")
    dft = T.module_ast(repo / "dulwich" / "diff_tree.py")

    # key_entry: `if stat.S_ISDIR(mode): name += b"/"`
    ke = T.find_def(objs, "key_entry")
    suffix = None
    for n in ast.walk(ke):
        if isinstance(n, ast.If) and isinstance(n.test, ast.Call) and _is_stat_attr(n.test.func, "S_ISDIR"):
            for st in n.body:
                if isinstance(st, ast.AugAssign) and isinstance(st.op, ast.Add):
                    suffix = _bytes_const(st.value, "key_entry suffix")
    if suffix is None:
        raise T.TranslateError("key_entry: `if stat.S_ISDIR(mode): name += b'/'` not found")
    kn = T.find_def(objs, "key_entry_name_order")
    rets = [n for n in ast.walk(kn) if isinstance(n, ast.Return)]
    if len(rets) != 1 or ast.unparse(rets[0].value) != "entry[0]":
        raise T.TranslateError("key_entry_name_order no longer returns entry[0]")
    sti = T.find_def(objs, "sorted_tree_items")
    src_sti = ast.unparse(sti)
    if "key_func = key_entry_name_order" not in src_sti or "key_func = key_entry" not in src_sti \
            or "sorted(entries.items(), key=key_func)" not in src_sti:
        raise T.TranslateError("sorted_tree_items: key selection / sorted() call not recognised")

    # separators
    seps = {}
    pj = T.find_def(idx, "pathjoin")
    for n in ast.walk(pj):
        if isinstance(n, ast.Call) and isinstance(n.func, ast.Attribute) and n.func.attr == "join":
            seps["pathjoin"] = _bytes_const(n.func.value, "pathjoin")
    ps = T.find_def(idx, "pathsplit")
    for n in ast.walk(ps):
        if isinstance(n, ast.Call) and isinstance(n.func, ast.Attribute) and n.func.attr == "rsplit":
            seps["pathsplit"] = _bytes_const(n.args[0], "pathsplit")
            if T.eval_literal(n.args[1]) != 1:
                raise T.TranslateError("pathsplit: rsplit maxsplit != 1")
    ctc = T.find_def(ost, "commit_tree_changes")
    for n in ast.walk(ctc):
        if isinstance(n, ast.Call) and isinstance(n.func, ast.Attribute) and n.func.attr == "split":
            seps["commit_tree_changes"] = _bytes_const(n.args[0], "commit_tree_changes split")
            if T.eval_literal(n.args[1]) != 1:
                raise T.TranslateError("commit_tree_changes: split maxsplit != 1")
    wt = T.find_def(dft, "walk_trees")
    wseps = {n.value[0] for n in ast.walk(wt) if isinstance(n, ast.Constant) and isinstance(n.value, bytes)
             and len(n.value) == 1}
    if len(wseps) != 1:
        raise T.TranslateError(f"walk_trees: path filter separators {wseps}")
    seps["walk_trees"] = wseps.pop()
    rs = (repo / "crates" / "diff-tree" / "src" / "lib.rs").read_text()
    m = re.search(r"new_path\.push\(b'(.)'\)", rs)
    if not m:
        raise T.TranslateError("Rust tree_entries: new_path.push(b'/') not found")
    seps["rust_tree_entries"] = ord(m.group(1))
    if set(seps) != {"pathjoin", "pathsplit", "commit_tree_changes", "walk_trees", "rust_tree_entries"}:
        raise T.TranslateError(f"separator sites missing: {sorted(seps)}")
    if len(set(seps.values())) != 1:
        raise T.TranslateError(f"path separators differ between sites: {seps}")
    sep = seps["pathjoin"]

    # directory mode given to sub-trees
    ct = T.find_def(idx, "commit_tree")
    dir_sites = [n for n in ast.walk(ct) if isinstance(n, ast.Assign) and _is_stat_attr(n.value, "S_IFDIR")]
    if len(dir_sites) != 1:
        raise T.TranslateError("commit_tree: `mode = stat.S_IFDIR` not found")
    ctc_dir = [n for n in ast.walk(ctc) if isinstance(n, ast.Tuple) and n.elts and _is_stat_attr(n.elts[0], "S_IFDIR")]
    if len(ctc_dir) != 1:
        raise T.TranslateError("commit_tree_changes: `(stat.S_IFDIR, subtree.id)` not found")
    empties = [n for n in ast.walk(ctc) if isinstance(n, ast.If) and ast.unparse(n.test) == "len(subtree) == 0"
               and ast.unparse(n.body[0]) == "del tree_obj[name]"]
    if len(empties) != 1:
        raise T.TranslateError("commit_tree_changes: `if len(subtree) == 0: del tree_obj[name]` not found")
    # commit_tree_changes: direct entries are collected in the first loop and stored after the nested changes
    loops = [n for n in ctc.body if isinstance(n, ast.For)]

    def _stores_entry(node):
        return any(isinstance(x, ast.Assign) and isinstance(x.targets[0], ast.Subscript)
                   and ast.unparse(x.targets[0].value) == "tree_obj" for x in ast.walk(node))
    first = [i for i, n in enumerate(loops) if ast.unparse(n.iter) == "changes"]
    nested = [i for i, n in enumerate(loops) if ast.unparse(n.iter) == "nested_changes.items()"]
    if len(first) != 1 or len(nested) != 1 or first[0] > nested[0]:
        raise T.TranslateError("commit_tree_changes: the loops over `changes` and `nested_changes.items()` not recognised")
    appended = {ast.unparse(x.func.value) for x in ast.walk(loops[first[0]]) if isinstance(x, ast.Call)
                and isinstance(x.func, ast.Attribute) and x.func.attr == "append" and isinstance(x.func.value, ast.Name)}
    later = [n for n in loops[nested[0] + 1:] if ast.unparse(n.iter) in appended and _stores_entry(n)]
    ctc_deferred = (not _stores_entry(loops[first[0]])) and len(later) == 1
    gitlink = T.const_value(objs, "S_IFGITLINK")
    rs_ifmt = _rust_const(rs, "S_IFMT")
    rs_ifdir = _rust_const(rs, "S_IFDIR")

    # serialize_tree: f"{mode:04o}"
    ser = T.find_def(objs, "serialize_tree")
    specs = [ast.unparse(n.format_spec) for n in ast.walk(ser) if isinstance(n, ast.FormattedValue) and n.format_spec]
    if len(specs) != 1:
        raise T.TranslateError(f"serialize_tree: format specs {specs}")
    m = re.fullmatch(r"f?'0(\d+)o'", specs[0])
    if not m:
        raise T.TranslateError(f"serialize_tree: mode format {specs[0]!r} is not 0<w>o")
    width = int(m.group(1))

    # name_order at the three call sites
    flat_no = _name_order_kw(T.find_def(ost, "iter_tree_contents"), "iter_tree_contents")
    merge_no = _name_order_kw(T.find_def(dft, "_tree_entries"), "_tree_entries")
    ser_no = _name_order_kw(T.find_def(objs, "Tree._serialize"), "Tree._serialize")
    it = T.find_def(objs, "Tree.iteritems")
    default_no = bool(T.eval_literal(it.args.defaults[-1])) if it.args.defaults else None
    if default_no is None:
        raise T.TranslateError("Tree.iteritems: name_order has no default")
    flat_no = default_no if flat_no is None else flat_no
    merge_no = default_no if merge_no is None else merge_no
    ser_no = default_no if ser_no is None else ser_no
    m = re.search(r'call_method1\("iteritems",\s*\((true|false),\)\)', rs)
    if not m:
        raise T.TranslateError("Rust tree_entries: call_method1(\"iteritems\", (true,)) not found")
    rs_merge_no = m.group(1) == "true"

    # _merge_entries: which side is emitted alone under `<`
    me = T.find_def(dft, "_merge_entries")
    loops = [n for n in ast.walk(me) if isinstance(n, ast.While)]
    if len(loops) != 1:
        raise T.TranslateError("_merge_entries: while loop not found")
    first = loops[0].body[-1]
    if not (isinstance(first, ast.If) and isinstance(first.test, ast.Compare)):
        raise T.TranslateError("_merge_entries: comparison chain not found")

    def _branch(ifn):
        op = type(ifn.test.ops[0]).__name__
        if ast.unparse(ifn.test.left) != "entry1.path" or ast.unparse(ifn.test.comparators[0]) != "entry2.path":
            raise T.TranslateError("_merge_entries: comparison is not entry1.path ? entry2.path")
        app = [ast.unparse(s) for s in ifn.body]
        return op, app
    op1, app1 = _branch(first)
    if not (len(first.orelse) == 1 and isinstance(first.orelse[0], ast.If)):
        raise T.TranslateError("_merge_entries: elif missing")
    op2, app2 = _branch(first.orelse[0])
    app3 = [ast.unparse(s) for s in first.orelse[0].orelse]
    shape = (op1, app1, op2, app2, app3)
    expected = ("Lt", ["result.append((entry1, None))", "i1 += 1"],
                "Gt", ["result.append((None, entry2))", "i2 += 1"],
                ["result.append((entry1, entry2))", "i1 += 1", "i2 += 1"])
    merge_canonical = shape == expected

    # change type names
    names = {k: T.const_value(dft, "CHANGE_" + k.upper()) for k in ("add", "modify", "delete", "rename", "copy", "unchanged")}

    # tree_changes: prune_identical=(not want_unchanged); the S_IFMT test
    tc = T.find_def(dft, "tree_changes")
    tsrc = ast.unparse(tc)
    prune_ok = "prune_identical=not want_unchanged" in tsrc
    split_ok = any(isinstance(n, ast.BoolOp) and isinstance(n.op, ast.And)
                   and "stat.S_IFMT(entry1.mode) != stat.S_IFMT(entry2.mode)" in [ast.unparse(v) for v in n.values]
                   and "not change_type_same" in [ast.unparse(v) for v in n.values] for n in ast.walk(tc))
    det_attrs, det_stale, det_viol = _detector_reset_analysis(dft)
    translate.detector_violations = det_viol
    fps = {
        "commit_tree": T.fingerprint(ct), "commit_tree_changes": T.fingerprint(ctc),
        "iter_tree_contents": T.fingerprint(T.find_def(ost, "iter_tree_contents")),
        "walk_trees": T.fingerprint(wt), "tree_changes": T.fingerprint(tc), "_merge_entries": T.fingerprint(me),
        "key_entry": T.fingerprint(ke), "sorted_tree_items": T.fingerprint(sti),
    }

    def b(x):
        return "true" if x else "false"
    src = T.lean_header("dulwich/objects.py key_entry, sorted_tree_items, serialize_tree, Tree.iteritems/_serialize; "
                        "dulwich/index.py pathjoin, pathsplit, commit_tree; dulwich/object_store.py iter_tree_contents, "
                        "commit_tree_changes; dulwich/diff_tree.py _tree_entries, _merge_entries, walk_trees, tree_changes; "
                        "crates/diff-tree/src/lib.rs") + f"""
namespace Dulwich.Gen.TreeOps
/-- `key_entry`: byte appended to the name of a directory entry for sorting -/
def dirSuffix : UInt8 := {suffix}
/-- path separator at every site (pathjoin, pathsplit, commit_tree_changes split, walk_trees filters, Rust tree_entries) -/
def pathSep : UInt8 := {sep}
/-- `stat.S_IFDIR` as written in commit_tree.build_tree and commit_tree_changes -/
def sIFDIR : Nat := {pystat.S_IFDIR}
/-- the mask `stat.S_IFMT` applies -/
def sIFMT : Nat := {pystat.S_IFMT(0o7777777)}
/-- `S_IFGITLINK` (objects.py) -/
def sIFGITLINK : Nat := {gitlink}
/-- Rust `S_IFMT`, `S_IFDIR` (crates/diff-tree) -/
def rsSIFMT : Nat := {rs_ifmt}
def rsSIFDIR : Nat := {rs_ifdir}
/-- `f"{{mode:0<w>o}}"` in serialize_tree -/
def modeOctWidth : Nat := {width}
/-- `name_order` at the call site in iter_tree_contents / _tree_entries (Python, Rust) / Tree._serialize -/
def flattenNameOrder : Bool := {b(flat_no)}
def mergeNameOrder : Bool := {b(merge_no)}
def rsMergeNameOrder : Bool := {b(rs_merge_no)}
def serializeNameOrder : Bool := {b(ser_no)}
/-- the three branches of the `_merge_entries` loop are `<` → (entry1, None), `>` → (None, entry2), else both -/
def mergeBranchesCanonical : Bool := {b(merge_canonical)}
/-- tree_changes passes `prune_identical=(not want_unchanged)` and splits on `S_IFMT` differences unless change_type_same -/
def pruneIsNotWantUnchanged : Bool := {b(prune_ok)}
def typeChangeSplitsUnlessSame : Bool := {b(split_ok)}
/-- commit_tree_changes stores the direct entries of a change list AFTER applying the nested changes (first loop only
collects them; removals of direct entries are still done in the first loop) -/
def ctcDirectEntriesDeferred : Bool := {b(ctc_deferred)}
/-- RenameDetector: attributes (re)assigned during changes_with_renames (per-call state) -/
def detPerCallAttrs : List String := [{", ".join(json.dumps(a) for a in det_attrs)}]
/-- ... of which those that some path through changes_with_renames can READ before (re)assigning them in that call
(definite-assignment analysis, self-method calls inlined; must be empty: reset set ⊇ read set){"".join(f"; {m}:{a}@{ln}" for m, a, ln in det_viol[:6])} -/
def detStaleReads : List String := [{", ".join(json.dumps(a) for a in det_stale)}]
def changeAdd : String := {json.dumps(names['add'])}
def changeModify : String := {json.dumps(names['modify'])}
def changeDelete : String := {json.dumps(names['delete'])}
def changeRename : String := {json.dumps(names['rename'])}
def changeCopy : String := {json.dumps(names['copy'])}
def changeUnchanged : String := {json.dumps(names['unchanged'])}
end Dulwich.Gen.TreeOps
"""
    translate.fingerprints = fps
    return {"TreeOps": src}


# ------------------------------------------------------------------------------------------------
# shared vocabulary: blob pool, modes, encodings

REG, EXE, LNK, GITLINK, DIR = 0o100644, 0o100755, 0o120000, 0o160000, 0o040000
GROUPW = 0o100664  # accepted by Tree.check(); rarely generated
MODES = [REG, REG, REG, EXE, LNK, GITLINK]


def _pool():
    """Blob contents with graded similarity so that content rename detection has something to find."""
    base = b"".join(b"line %d of the base file\n" % i for i in range(40))
    out = [b"", b"x", b"y\n", base, base + b"tail\n", base.replace(b"line 7 ", b"LINE 7 "),
           base[: len(base) // 2] + b"other half\n" * 20, b"target/of/symlink", b"a", b"\x00\xff" * 40,
           bytes(range(256)), b"unrelated\n" * 30]
    return out


POOL = _pool()


def blob_id(data: bytes) -> str:
    return hashlib.sha1(b"blob %d\0" % len(data) + data).hexdigest()


POOL_IDS = [blob_id(d) for d in POOL]
COMMIT_IDS = [hashlib.sha1(b"fake commit %d" % i).hexdigest() for i in range(3)]
EMPTY_TREE = "4b825dc642cb6eb9a060e54bf8d69288fbee4904"

FLAG_COMBOS = ["".join(t) for t in itertools.product("01", repeat=3)]  # want_unchanged include_trees change_type_same


def enc_listing(l) -> str:
    """listing = list of (path bytes, mode, hex id) -> driver token"""
    if l is None:
        return "~"
    if not l:
        return "."
    return ",".join(f"{hx(p)}:{m}:{i}" for p, m, i in l)


def dec_listing(tok: str):
    if tok == ".":
        return []
    out = []
    for it in tok.split(","):
        p, m, i = it.split(":")
        out.append((unhx(p), int(m), i))
    return out


def enc_entry(e) -> str:
    return "~" if e is None else f"{hx(e[0])};{e[1]};{e[2]}"


def enc_changes(cs) -> str:
    """changes = list of (type, old|None, new|None), old/new = (path, mode, hexid)"""
    if not cs:
        return "."
    return ",".join(f"{t}:{enc_entry(o)}:{enc_entry(n)}" for t, o, n in cs)


def dec_changes(tok: str):
    if tok == ".":
        return []
    out = []
    for it in tok.split(","):
        t, o, n = it.split(":")

        def de(s):
            if s == "~":
                return None
            p, m, i = s.split(";")
            return (unhx(p), int(m), i)
        out.append((t, de(o), de(n)))
    return out


def enc_tchanges(tcs) -> str:
    if not tcs:
        return "."
    return ",".join(f"{hx(p)}:~" if m is None else f"{hx(p)}:{m}:{i}" for p, m, i in tcs)


def enc_filter(f) -> str:
    if f is None:
        return "~"
    return "f" + "".join("," + hx(p) for p in f)


def jl(l):
    """listing -> JSON-able"""
    return None if l is None else [[hx(p), m, i] for p, m, i in l]


def unjl(l):
    return None if l is None else [(unhx(p), m, i) for p, m, i in l]


# ------------------------------------------------------------------------------------------------
# worker-side implementation adapters (run inside harness/worker.py children; real dulwich code only)

def _entry(e):
    return None if e is None else [hx(e.path), e.mode, e.sha.decode("ascii")]


def _change(c):
    return [c.type, _entry(c.old), _entry(c.new)]


def _exc(e):
    return {"exc": type(e).__name__}


def _to_tchanges(changes):
    """what a caller patching a tree with a diff passes to commit_tree_changes: every path at most once -- a removal for
    each path the diff removes and does not install again, then one (path, mode, sha) per installed entry"""
    removed, added = [], []
    for t, o, n in changes:
        if t in ("delete", "modify", "rename"):
            removed.append(unhx(o[0]))
        if t in ("add", "modify", "rename", "copy"):
            added.append((unhx(n[0]), n[1], n[2].encode()))
    inst = {p for p, _, _ in added}
    return [(p, None, None) for p in removed if p not in inst] + added


RENAME_CONFIGS = [
    ("default", {}),
    ("low-harder", {"rename_threshold": 30, "find_copies_harder": True}),
    ("rewrite", {"rewrite_threshold": 60}),
    ("nocontent", {"max_files": 0}),
    ("rewrite-harder", {"rewrite_threshold": 101, "rename_threshold": 0, "find_copies_harder": True}),
]


def _one_case(c):
    from dulwich.object_store import MemoryObjectStore, commit_tree_changes, iter_tree_contents, tree_lookup_path
    from dulwich.index import commit_tree
    from dulwich.objects import Blob, Tree
    from dulwich.diff_tree import tree_changes, RenameDetector
    store = MemoryObjectStore()
    for d in POOL:
        store.add_object(Blob.from_string(d))
    nblobs = len(list(store))
    out = {}
    ids = {}
    for side in ("a", "b"):
        l = c.get(side)
        if l is None:
            ids[side] = None
            out["id_" + side] = None
            continue
        try:
            before = set(store)
            tid = commit_tree(store, [(unhx(p), i.encode(), m) for p, m, i in l])
            ids[side] = tid
            out["id_" + side] = tid.decode()
            new = set(store) - before
            if side == "a":
                # every tree object reachable from the root, raw
                trees = {}
                todo = [tid]
                while todo:
                    t = todo.pop()
                    o = store[t]
                    trees[t.decode()] = hx(o.as_raw_string())
                    for e in o.iteritems():
                        if e.mode == 0o040000:
                            todo.append(e.sha)
                out["trees_a"] = trees
                out["new_a"] = sorted(x.decode() for x in new)
        except Exception as e:
            ids[side] = None
            out["id_" + side] = _exc(e)
            out["failed"] = True
    if out.get("failed"):
        return out
    for side in ("a", "b"):
        for inc in (False, True):
            out[f"flat_{side}{int(inc)}"] = [_entry(e) for e in iter_tree_contents(store, ids[side], include_trees=inc)]
    if ids["a"] is not None:
        try:
            out["rt_a"] = commit_tree(store, [(e.path, e.sha, e.mode) for e in iter_tree_contents(store, ids["a"])]).decode()
        except Exception as e:
            out["rt_a"] = _exc(e)
    ch = {}
    filters = [None] + [[unhx(p) for p in f] for f in c.get("filters", [])]
    combos = FLAG_COMBOS if c.get("full", True) else ["000", "001"]
    for fi, flt in enumerate(filters):
        for fl in combos:
            try:
                ch[f"{fl}/{fi}"] = [_change(x) for x in tree_changes(
                    store, ids["a"], ids["b"], want_unchanged=fl[0] == "1", include_trees=fl[1] == "1",
                    change_type_same=fl[2] == "1", paths=flt)]
            except Exception as e:
                ch[f"{fl}/{fi}"] = _exc(e)
    out["changes"] = ch
    if c.get("full", True) and ids["a"] is not None and ids["b"] is not None:
        rn = {}
        for name, kw in RENAME_CONFIGS:
            for wu in (False, True):
                for inc in (False, True):
                    try:
                        det = RenameDetector(store, **kw)
                        rn[f"{name}/{int(wu)}{int(inc)}"] = [_change(x) for x in tree_changes(
                            store, ids["a"], ids["b"], want_unchanged=wu, include_trees=inc, rename_detector=det)]
                    except Exception as e:
                        rn[f"{name}/{int(wu)}{int(inc)}"] = _exc(e)
        out["rename"] = rn
    # commit_tree_changes with the diff (default flags, and change_type_same) as the change list
    if ids["a"] is not None:
        ctc = {}
        for fl in ("000", "001"):
            base = ch.get(fl + "/0")
            if not isinstance(base, list):
                continue
            try:
                r = commit_tree_changes(store, ids["a"], _to_tchanges(base))
                ctc[fl] = r.decode()
            except (Exception, AssertionError) as e:
                ctc[fl] = _exc(e)
        if c.get("full", True) and isinstance(out.get("rename", {}).get("default/00"), list):
            try:
                ctc["rename"] = commit_tree_changes(store, ids["a"], _to_tchanges(out["rename"]["default/00"])).decode()
            except (Exception, AssertionError) as e:
                ctc["rename"] = _exc(e)
        for k, tcs in enumerate(c.get("tchanges", [])):
            try:
                r = commit_tree_changes(store, ids["a"], [(unhx(p), m, None if i is None else i.encode()) for p, m, i in tcs])
                ctc[f"x{k}"] = r.decode()
                ctc[f"x{k}_flat"] = [_entry(e) for e in iter_tree_contents(store, r)]
            except (Exception, AssertionError) as e:
                ctc[f"x{k}"] = _exc(e)
        out["ctc"] = ctc
        # the store must still hold the original tree under its id
        try:
            o = store[ids["a"]]
            out["a_intact"] = hashlib.sha1(b"tree %d\0" % len(o.as_raw_string()) + o.as_raw_string()).hexdigest() == ids["a"].decode()
        except Exception as e:
            out["a_intact"] = _exc(e)
        lk = {}
        for p in c.get("lookups", []):
            try:
                m, s = tree_lookup_path(store.__getitem__, ids["a"], unhx(p))
                lk[p] = [m, s.decode()]
            except Exception as e:
                lk[p] = _exc(e)
        out["lookups"] = lk
    return out


def impl_cases(a):
    return [_one_case(c) for c in a["cases"]]


def impl_merge(a):
    """_merge_entries(path, tree1, tree2) on trees given as entry lists"""
    import dulwich.diff_tree as DT
    from dulwich.objects import Tree
    res = []
    for path, e1, e2 in a["cases"]:
        ts = []
        for es in (e1, e2):
            t = Tree()
            for n, m, i in es:
                t.add(unhx(n), m, i.encode())
            ts.append(t)
        r = DT._merge_entries(unhx(path), ts[0], ts[1])
        res.append([[_entry(x), _entry(y)] for x, y in r])
    return res


def impl_detseq(a):
    """One long-lived RenameDetector used for a sequence of tree pairs vs a fresh detector per call; and
    tree_changes_for_merge with one shared detector vs a proxy that builds a fresh one per parent."""
    from dulwich.object_store import MemoryObjectStore, iter_tree_contents
    from dulwich.index import commit_tree
    from dulwich.objects import Blob
    from dulwich.diff_tree import RenameDetector, tree_changes, tree_changes_for_merge
    out = []
    for case in a["cases"]:
        store = MemoryObjectStore()
        for d in POOL:
            store.add_object(Blob.from_string(d))
        opts = case["opts"]
        res = {"calls": []}
        try:
            det = RenameDetector(store, **opts)
            for call in case["seq"]:
                ida = commit_tree(store, [(unhx(p), i.encode(), m) for p, m, i in call["a"]])
                idb = commit_tree(store, [(unhx(p), i.encode(), m) for p, m, i in call["b"]])
                r = {"flat_a": [_entry(e) for e in iter_tree_contents(store, ida, include_trees=call["inc"])],
                     "flat_b": [_entry(e) for e in iter_tree_contents(store, idb, include_trees=call["inc"])]}
                for who, d in (("reused", det), ("fresh", RenameDetector(store, **opts))):
                    try:
                        r[who] = [_change(x) for x in d.changes_with_renames(ida, idb, want_unchanged=call["wu"],
                                                                              include_trees=call["inc"])]
                    except Exception as e:
                        r[who] = _exc(e)
                # the same through the public entry point (generator)
                try:
                    r["via_tree_changes"] = [_change(x) for x in tree_changes(store, ida, idb, want_unchanged=call["wu"],
                                                                               include_trees=call["inc"], rename_detector=det)]
                except Exception as e:
                    r["via_tree_changes"] = _exc(e)
                res["calls"].append(r)
            if len(case["seq"]) >= 2:
                # merge: the b side of the last call is the merge result, the a sides are the parents
                tree = commit_tree(store, [(unhx(p), i.encode(), m) for p, m, i in case["seq"][-1]["b"]])
                parents = [commit_tree(store, [(unhx(p), i.encode(), m) for p, m, i in c["a"]]) for c in case["seq"]]

                class FreshEachCall:
                    def changes_with_renames(self, *args, **kw):
                        return RenameDetector(store, **opts).changes_with_renames(*args, **kw)

                def canon(rows):
                    return [[None if c is None else _change(c) for c in row] for row in rows]
                try:
                    res["merge_shared"] = canon(tree_changes_for_merge(store, parents, tree, rename_detector=RenameDetector(store, **opts)))
                    res["merge_fresh"] = canon(tree_changes_for_merge(store, parents, tree, rename_detector=FreshEachCall()))
                except Exception as e:
                    res["merge_shared"] = res["merge_fresh"] = _exc(e)
        except Exception as e:
            res["exc"] = _exc(e)
        out.append(res)
    return out


def impl_which(a):
    import dulwich.diff_tree as DT
    import dulwich.objects as O
    return {"merge": getattr(DT._merge_entries, "__module__", "?") or "builtin",
            "sorted_tree_items": getattr(O.sorted_tree_items, "__module__", "?") or "builtin", "file": DT.__file__}


# ------------------------------------------------------------------------------------------------
# independent reference implementations used by the direct oracle (no dulwich, no model)

def comps(p: bytes):
    return tuple(p.split(b"/"))


def valid_listing(l) -> bool:
    """paths non-empty, components non-empty, no duplicates, no path a proper directory-prefix of another,
    no directory modes"""
    seen = set()
    for p, m, i in l:
        c = comps(p)
        if not p or any(x == b"" for x in c) or c in seen or pystat.S_ISDIR(m):
            return False
        seen.add(c)
    for c in seen:
        for k in range(1, len(c)):
            if c[:k] in seen:
                return False
    return True


def nest(l):
    """flat listing -> nested dict (independent of dulwich)"""
    root = {}
    for p, m, i in l:
        d = root
        c = comps(p)
        for x in c[:-1]:
            d = d.setdefault(x, {})
        d[c[-1]] = (m, i)
    return root


def ref_tree_ids(l):
    """Merkle ids computed with hashlib from the nested dict, entries in git's canonical order.
    Returns (root id, {id: [(name, mode, id)] in canonical order})."""
    trees = {}
    ref_tree_ids.dirs = dirs = {}

    def build(d, path):
        ents = []
        for name, v in d.items():
            if isinstance(v, dict):
                ents.append((name, DIR, build(v, path + (name,))))
            else:
                ents.append((name, v[0], v[1]))
        ents.sort(key=lambda e: e[0] + b"/" if e[1] == DIR else e[0])
        body = b"".join(b"%o %s\0" % (m, n) + bytes.fromhex(i) for n, m, i in ents)
        tid = hashlib.sha1(b"tree %d\0" % len(body) + body).hexdigest()
        trees[tid] = ents
        dirs[b"/".join(path)] = tid
        return tid
    return build(nest(l), ()), trees


def parse_raw_tree(raw: bytes):
    out = []
    i = 0
    while i < len(raw):
        sp = raw.index(b" ", i)
        nul = raw.index(b"\0", sp)
        out.append((raw[sp + 1:nul], int(raw[i:sp], 8), raw[nul + 1:nul + 21].hex(), raw[i:sp]))
        i = nul + 21
    return out


def ref_apply(changes, listing):
    """patch a flat listing (dict path -> (mode, id)): first every removal, then every installation"""
    d = {p: (m, i) for p, m, i in listing}
    for t, o, n in changes:
        if t in ("delete", "modify", "rename"):
            d.pop(o[0], None)
    for t, o, n in changes:
        if t in ("add", "modify", "rename", "copy"):
            d[n[0]] = (n[1], n[2])
    return d


def ref_tchanges(changes):
    """normal form of a diff as a commit_tree_changes argument (every path at most once), see _to_tchanges"""
    removed = [o[0] for t, o, n in changes if t in ("delete", "modify", "rename")]
    added = [(n[0], n[1], n[2]) for t, o, n in changes if t in ("add", "modify", "rename", "copy")]
    inst = {p for p, _, _ in added}
    return [(p, None, None) for p in removed if p not in inst] + added


def change_path(c):
    t, o, n = c
    return o[0] if n is None else n[0]


def matches_filter(p: bytes, flt) -> bool:
    return any(p == f or p.startswith(f + b"/") for f in flt)


def unj_changes(js):
    def e(x):
        return None if x is None else (unhx(x[0]), x[1], x[2])
    return [(t, e(o), e(n)) for t, o, n in js]


def unj_entries(js):
    return [(unhx(p), m, i) for p, m, i in js]


# ------------------------------------------------------------------------------------------------
# C git as a third party

class GitRejected(Exception):
    pass


class Git:
    def __init__(self, ctx):
        self.dir = ctx.scratch / "cgit"
        self.env = core.clean_env()
        core.sh(["git", "init", "-q", "--bare", str(self.dir)], env=self.env, check=True)
        for d in POOL:
            p = subprocess.run(["git", "--git-dir", str(self.dir), "hash-object", "-w", "--stdin"], input=d,
                               stdout=subprocess.PIPE, env=self.env, check=True)
            assert p.stdout.decode().strip() == blob_id(d)
        self.calls = 0

    def _run(self, args, data=b"", reject_ok=False):
        self.calls += 1
        p = subprocess.run(["git", "--git-dir", str(self.dir)] + args, input=data, stdout=subprocess.PIPE,
                           stderr=subprocess.PIPE, env=self.env)
        if p.returncode != 0:
            if reject_ok:
                raise GitRejected(p.stderr.decode(errors="replace")[:300])
            raise core.InfraError(f"git {args} failed: {p.stderr.decode(errors='replace')[:400]}")
        return p.stdout

    def mktree(self, ents, reject_ok=False):
        """ents: [(name, mode, hexid)] in ANY order -> id git computes (git sorts itself)"""
        if not ents:
            return EMPTY_TREE
        data = b"".join(b"%06o %s %s\t%s\0" % (m, b"tree" if m == DIR else b"commit" if m == GITLINK else b"blob",
                                                i.encode(), n) for n, m, i in ents)
        return self._run(["mktree", "-z", "--missing"], data, reject_ok).decode().strip()

    def tree_of_listing(self, l):
        """root id C git computes for the flat listing (bottom-up mktree over an independently nested dict)"""
        def build(d):
            ents = []
            for name, v in d.items():
                ents.append((name, DIR, build(v)) if isinstance(v, dict) else (name, v[0], v[1]))
            return self.mktree(ents)
        return build(nest(l))

    def diff_tree(self, a, b, renames=False):
        """git diff-tree -r --raw -z: list of (status, oldmode, newmode, oldid, newid, path[, path2])"""
        args = ["diff-tree", "-r", "--raw", "-z", "--no-abbrev"] + (["-M", "-C", "--find-copies-harder"] if renames else ["--no-renames"])
        out = self._run(args + [a, b])
        toks = out.split(b"\0")
        res = []
        i = 0
        while i < len(toks) and toks[i]:
            meta = toks[i].decode().lstrip(":").split(" ")
            om, nm, oi, ni, st = int(meta[0], 8), int(meta[1], 8), meta[2], meta[3], meta[4]
            if st[0] in "RC":
                res.append((st[0], om, nm, oi, ni, toks[i + 1], toks[i + 2]))
                i += 3
            else:
                res.append((st[0], om, nm, oi, ni, toks[i + 1]))
                i += 2
        return res


def git_expected_from_changes(changes):
    """dulwich changes (no renames) -> the set of raw diff lines C git prints (status, oldmode, newmode, oldid, newid, path);
    a delete and an add of the same path (type change reported as delete+add) merge into one `T` line."""
    Z = "0" * 40
    dels = {c[1][0]: c[1] for c in changes if c[0] == "delete"}
    adds = {c[2][0]: c[2] for c in changes if c[0] == "add"}
    res = set()
    for p in set(dels) & set(adds):
        o, n = dels.pop(p), adds.pop(p)
        res.add(("T", o[1], n[1], o[2], n[2], p))
    for p, o in dels.items():
        res.add(("D", o[1], 0, o[2], Z, p))
    for p, n in adds.items():
        res.add(("A", 0, n[1], Z, n[2], p))
    for t, o, n in changes:
        if t == "modify":
            st = "T" if pystat.S_IFMT(o[1]) != pystat.S_IFMT(n[1]) else "M"
            res.add((st, o[1], n[1], o[2], n[2], n[0]))
    return res


# ------------------------------------------------------------------------------------------------
# generators

COMPS = [b"a", b"a", b"b", b"c", b"a.b", b"a-", b"a0", b"a.", b"b.c", b"b-", b"b0", b"A", b"\xff", b"a b", b"ab", b"a\x01"]
ALPHA_PATHS = [b"a", b"a.b", b"a/b", b"a-", b"a0", b"a/b/c", b"b"]


def gen_leaf(rng):
    m = rng.choice(MODES)
    if rng.random() < 0.02:
        m = GROUPW
    if m == GITLINK:
        return m, rng.choice(COMMIT_IDS)
    if m == LNK:
        return m, rng.choice([POOL_IDS[7], POOL_IDS[8], POOL_IDS[1]])
    return m, rng.choice(POOL_IDS)


def gen_path(rng, deep=False):
    r = rng.random()
    if r < 0.45:
        return rng.choice(ALPHA_PATHS)
    depth = rng.choice([1, 1, 2, 2, 3, 4]) if not deep else rng.choice([5, 6, 8, 12])
    return b"/".join(rng.choice(COMPS) for _ in range(depth))


def add_path(listing_dict, p, leaf):
    """add p unless it conflicts (file/dir) with what is there; returns True when added"""
    c = comps(p)
    for q in listing_dict:
        cq = comps(q)
        k = min(len(c), len(cq))
        if c[:k] == cq[:k] and len(c) != len(cq):
            return False
    listing_dict[p] = leaf
    return True


def gen_listing(rng, n=None, deep=False):
    n = rng.choice([0, 1, 2, 3, 4, 6, 9, 14]) if n is None else n
    d = {}
    for _ in range(n * 2):
        if len(d) >= n:
            break
        add_path(d, gen_path(rng, deep and rng.random() < 0.3), gen_leaf(rng))
    return d


MUTATIONS = ["content", "mode", "type", "file2dir", "dir2file", "delete", "delete-dir", "add", "rename", "copy",
             "rename-edit", "swap", "move-dir", "add-sibling"]


def mutate(rng, d):
    """one edit of a listing dict (path -> (mode, id)); returns the kind applied (or None)"""
    kind = rng.choice(MUTATIONS)
    paths = sorted(d)
    if kind in ("add", "add-sibling") or not paths:
        if kind == "add-sibling" and paths:
            p = rng.choice(paths)
            base = p.rsplit(b"/", 1)
            sib = rng.choice([b"", b".b", b"-", b"0", b".", b"/x"])
            q = (base[0] + b"/" if len(base) == 2 else b"") + base[-1].split(b".")[0][:1] + sib
            if not q or q.endswith(b"/"):
                return None
            return kind if q not in d and add_path(d, q, gen_leaf(rng)) else None
        return "add" if add_path(d, gen_path(rng), gen_leaf(rng)) else None
    p = rng.choice(paths)
    m, i = d[p]
    if kind == "content":
        d[p] = (m, rng.choice(COMMIT_IDS) if m == GITLINK else rng.choice(POOL_IDS))
    elif kind == "mode":
        d[p] = ({REG: EXE, EXE: REG}.get(m, m), i)
    elif kind == "type":
        m2 = rng.choice([x for x in (REG, LNK, GITLINK, EXE) if x != m])
        keep = rng.random() < 0.5 and m2 != GITLINK and m != GITLINK
        d[p] = (m2, i if keep else (rng.choice(COMMIT_IDS) if m2 == GITLINK else rng.choice(POOL_IDS)))
    elif kind == "file2dir":
        del d[p]
        for _ in range(rng.randint(1, 3)):
            d[p + b"/" + rng.choice(COMPS)] = (m, i) if rng.random() < 0.5 else gen_leaf(rng)
    elif kind in ("dir2file", "delete-dir", "move-dir"):
        c = comps(p)
        if len(c) < 2:
            return None
        k = rng.randint(1, len(c) - 1)
        pre = b"/".join(c[:k])
        under = [q for q in paths if q.startswith(pre + b"/")]
        moved = {q: d.pop(q) for q in under}
        if kind == "dir2file":
            d[pre] = gen_leaf(rng) if rng.random() < 0.5 else (m, i)
        elif kind == "move-dir":
            new = gen_path(rng)
            tmp = dict(d)
            ok = all(add_path(tmp, new + q[len(pre):], v) for q, v in moved.items())
            if ok:
                d.clear()
                d.update(tmp)
            else:
                d.update(moved)
                return None
    elif kind == "delete":
        del d[p]
    elif kind in ("rename", "copy", "rename-edit"):
        q = gen_path(rng)
        if q in d:
            return None
        leaf = (m, i)
        if kind == "rename-edit" and m in (REG, EXE):
            leaf = (m, rng.choice([POOL_IDS[3], POOL_IDS[4], POOL_IDS[5], POOL_IDS[6]]))
            d[p] = (m, rng.choice([POOL_IDS[3], POOL_IDS[4], POOL_IDS[5]]))
        tmp = dict(d)
        if kind != "copy":
            del tmp[p]
            if kind == "rename-edit":
                leaf = (leaf[0], leaf[1])
        if not add_path(tmp, q, leaf):
            return None
        d.clear()
        d.update(tmp)
    elif kind == "swap":
        q = rng.choice(paths)
        d[p], d[q] = d[q], d[p]
    return kind


def to_listing(rng, d):
    l = [(p, m, i) for p, (m, i) in d.items()]
    rng.shuffle(l)
    return l


def gen_pair(rng):
    """(kind tag, listing a, listing b)"""
    r = rng.random()
    if r < 0.12:
        return "independent", to_listing(rng, gen_listing(rng)), to_listing(rng, gen_listing(rng))
    if r < 0.16:
        a = gen_listing(rng)
        return "identical", to_listing(rng, a), to_listing(rng, a)
    deep = r > 0.9
    a = gen_listing(rng, deep=deep)
    b = dict(a)
    kinds = []
    for _ in range(rng.choice([1, 1, 1, 2, 3, 5])):
        k = mutate(rng, b)
        if k:
            kinds.append(k)
    tag = "+".join(sorted(set(kinds))) if kinds else "noop"
    if len(kinds) > 2:
        tag = "multi"
    if deep:
        tag = "deep:" + tag
    return tag, to_listing(rng, a), to_listing(rng, b)


def gen_filters(rng, a, b):
    paths = sorted({p for p, _, _ in (a or []) + (b or [])})
    cands = set()
    for p in paths:
        c = comps(p)
        for k in range(1, len(c) + 1):
            cands.add(b"/".join(c[:k]))
    cands = sorted(cands) or [b"a"]
    out = []
    for _ in range(2):
        f = [rng.choice(cands) for _ in range(rng.choice([1, 1, 2]))]
        if rng.random() < 0.15:
            f.append(rng.choice([b"zz", b"a/", b"", b"a/b/c/d", b"a."]))
        out.append(f)
    return out


def gen_lookups(rng, a):
    paths = sorted({p for p, _, _ in (a or [])})
    out = {b"", b"a", b"a/b", b"nope", b"a/b/c"}
    for p in paths[:6]:
        out.add(p)
        out.add(p + b"/x")
        c = comps(p)
        out.add(b"/".join(c[:-1]))
        if rng.random() < 0.2:
            out.add(p + b"/")
            out.add(b"/" + p)
            out.add(p.replace(b"/", b"//"))
    out.add(b"/")
    return sorted(out)


# ------------------------------------------------------------------------------------------------
# evaluation of a batch of cases: model vs implementation variants + direct oracle

EXC_MAP = {"KeyError": "err key", "AssertionError": "err nottree", "NotTreeError": "err nottree",
           "SubmoduleEncountered": "err submodule", "ValueError": "err value"}


def case_json(c):
    return {"tag": c.get("tag"), "a": jl(c["a"]), "b": jl(c["b"]), "filters": [[hx(p) for p in f] for f in c.get("filters", [])],
            "lookups": [hx(p) for p in c.get("lookups", [])], "full": c.get("full", True),
            "tchanges": [[[hx(p), m, i] for p, m, i in t] for t in c.get("tchanges", [])]}


def case_from_json(j):
    return {"tag": j.get("tag"), "a": unjl(j["a"]), "b": unjl(j["b"]),
            "filters": [[unhx(p) for p in f] for f in j.get("filters", [])],
            "lookups": [unhx(p) for p in j.get("lookups", [])], "full": j.get("full", True),
            "tchanges": [[(unhx(p), m, i) for p, m, i in t] for t in j.get("tchanges", [])]}


def dir_replaced_by_file(a, b) -> bool:
    """some non-directory path of b is a proper directory prefix of a path of a"""
    fb = {comps(p) for p, _, _ in (b or [])}
    for p, _, _ in (a or []):
        c = comps(p)
        if any(c[:k] in fb for k in range(1, len(c))):
            return True
    return False


def gitlink_modified(a, b) -> bool:
    """some path is a gitlink in both listings with different ids"""
    da = {p: i for p, m, i in (a or []) if m == GITLINK}
    return any(m == GITLINK and p in da and da[p] != i for p, m, i in (b or []))


def evaluate(ctx, stream, cases, workers, git=None, git_every=0):
    CH = 40
    for s in range(0, len(cases), CH):
        chunk = cases[s:s + CH]
        req = {"mod": MOD, "op": "cases", "args": {"cases": [case_json(c) for c in chunk]}}
        reps = {}
        for v, wk in workers.items():
            r = wk.ask(req, timeout=600)
            if "r" not in r:
                # isolate the crashing case
                rs = []
                for c in chunk:
                    r1 = wk.ask({"mod": MOD, "op": "cases", "args": {"cases": [case_json(c)]}}, timeout=120)
                    if "r" in r1:
                        rs.append(r1["r"][0])
                    else:
                        rs.append(None)
                        ctx.oracle_fail(stream, {"variant": v, **case_json(c)}, f"real code crashed/raised outside the adapters: {r1}",
                                        f"crash:{r1.get('exc') or r1.get('crash')}")
                reps[v] = rs
            else:
                reps[v] = r["r"]
        vs = list(reps)
        primary = vs[0]
        # model
        lines, index = [], []
        for ci, c in enumerate(chunk):
            res = reps[primary][ci]
            if res is None:
                continue
            A, B = enc_listing(c["a"]), enc_listing(c["b"])

            def add(kind, key, line, want=None):
                lines.append(line)
                index.append((ci, kind, key, want))
            if c["a"] is not None:
                add("commit", "a", f"c12.commit {A}")
            if c["b"] is not None:
                add("commit", "b", f"c12.commit {B}")
            if res.get("failed"):
                continue
            for side, tok in (("a", A), ("b", B)):
                for inc in (0, 1):
                    add("flatten", f"flat_{side}{inc}", f"c12.flatten {tok} {inc}")
            filters = [None] + c.get("filters", [])
            for key in res["changes"]:
                fl, fi = key.split("/")
                add("changes", key, f"c12.changes {A} {B} {fl} {enc_filter(filters[int(fi)])}")
            # the specification function applyChanges on what the real code returned
            for key in ("000/0", "001/0", "010/0", "011/0", "100/0", "110/0"):
                chg = res["changes"].get(key)
                if isinstance(chg, list):
                    inc = key[1]
                    add("apply", ("changes", key), f"c12.apply {enc_listing(unj_entries(res['flat_a' + inc]))} {enc_changes(unj_changes(chg))}")
            for key, chg in res.get("rename", {}).items():
                if isinstance(chg, list):
                    inc = key.split("/")[1][1]
                    add("apply", ("rename", key), f"c12.apply {enc_listing(unj_entries(res['flat_a' + inc]))} {enc_changes(unj_changes(chg))}")
            if c["a"] is not None:
                for k in ("000", "001", "rename"):
                    src = res["changes"].get(k + "/0") if k != "rename" else res.get("rename", {}).get("default/00")
                    if isinstance(src, list) and k in res.get("ctc", {}):
                        tcs = ref_tchanges(unj_changes(src))
                        add("ctc", k, f"c12.ctc {A} {enc_tchanges(tcs)}")
                        add("tchanges", k, f"c12.tchanges {enc_changes(unj_changes(src))}", enc_tchanges(tcs))
                for k, tcs in enumerate(c.get("tchanges", [])):
                    add("ctc", f"x{k}", f"c12.ctc {A} {enc_tchanges(tcs)}")
                for p in c.get("lookups", []):
                    add("lookup", hx(p), f"c12.lookup {A} {hx(p)}")
        outs = ctx.driver.batch(lines)
        model = [dict() for _ in chunk]
        for (ci, kind, key, want), o in zip(index, outs):
            model[ci][(kind, key)] = o if want is None else (o, want)
        for ci, c in enumerate(chunk):
            res = reps[primary][ci]
            if res is None:
                continue
            cj = case_json(c)
            ctx.count(stream, json.dumps(cj, sort_keys=True), True, c.get("tag"))
            if len(ctx.samples) < 5 and c["a"] and c["b"] and len(c["a"]) <= 4 and not res.get("failed"):
                ctx.sample({"stream": stream, "tag": c.get("tag"), "a": [(p.decode("latin1"), oct(m), i[:8]) for p, m, i in c["a"]],
                            "b": [(p.decode("latin1"), oct(m), i[:8]) for p, m, i in c["b"]],
                            "tree_changes": [(t, o and o[0], n and n[0]) for t, o, n in
                                             [(x[0], x[1] and [unhx(x[1][0]).decode("latin1")], x[2] and [unhx(x[2][0]).decode("latin1")])
                                              for x in res["changes"].get("000/0", [])]]})
            for v in vs[1:]:
                if reps[v][ci] is not None and reps[v][ci] != res:
                    diffk = [k for k in res if reps[v][ci].get(k) != res.get(k)]
                    ctx.oracle_fail(stream, {"variants": [primary, v], "differs_in": diffk, **cj},
                                    f"implementation variants {primary} and {v} disagree on {diffk}", "py-rs-divergence")
            compare_model(ctx, stream, c, cj, res, model[ci], primary)
            for v in vs:
                if reps[v][ci] is not None:
                    oracle_case(ctx, stream, c, cj, reps[v][ci], v)
            if git is not None and git_every and (s + ci) % git_every == 0:
                oracle_git(ctx, stream, c, cj, res, git)


def compare_model(ctx, stream, c, cj, res, m, variant):
    def dis(what, model, impl):
        ctx.disagree(stream + "." + what, cj, model, impl, variant)
    for side in ("a", "b"):
        if c[side] is None:
            continue
        mo = m.get(("commit", side), "")
        real = res.get("id_" + side)
        if not mo.startswith("ok "):
            # invalid / conflicting listing: outside the model's domain, nothing is compared
            ctx.count(stream + ".outside-domain", (side, json.dumps(cj["a" if side == "a" else "b"])), False, mo)
            return
        _, root, ids, wf = mo.split(" ")
        if real != root:
            dis("commit_tree.id", root, real)
        if wf != "1":
            dis("commit_tree.wf", "model tree not well-formed", wf)
        if side == "a" and isinstance(real, str):
            if set(ids.split(",")) != set(res["trees_a"]):
                dis("commit_tree.trees", sorted(set(ids.split(","))), sorted(res["trees_a"]))
    if res.get("failed"):
        dis("commit_tree.raises", "ok", {k: res[k] for k in ("id_a", "id_b")})
        return
    for side in ("a", "b"):
        for inc in (0, 1):
            k = f"flat_{side}{inc}"
            mo = m.get(("flatten", k))
            real = "ok " + enc_listing(unj_entries(res[k]))
            if mo != real:
                dis(f"iter_tree_contents.{inc}", mo, real)
    for key, chg in res["changes"].items():
        mo = m.get(("changes", key))
        real = "ok " + enc_changes(unj_changes(chg)) if isinstance(chg, list) else f"exc {chg}"
        if mo != real:
            dis(f"tree_changes[{key.split('/')[0]}{'+paths' if not key.endswith('/0') else ''}]", mo, real)
    for (kind, key), mo in m.items():
        if kind == "apply":
            which, k = key
            inc = k[1] if which == "changes" else k.split("/")[1][1]
            want = "ok " + enc_listing(unj_entries(res["flat_b" + inc]))
            if mo != want:
                dis(f"applyChanges[{which}:{k}]", mo, want)
        elif kind == "ctc":
            real = res["ctc"].get(key)
            if isinstance(real, dict):
                realc = EXC_MAP.get(real["exc"], "exc " + real["exc"])
                if mo != realc:
                    dis(f"commit_tree_changes[{key}]", mo, realc)
            else:
                if not mo.startswith("ok ") or mo.split(" ")[1] != real:
                    dis(f"commit_tree_changes[{key}]", mo, real)
                elif key.startswith("x"):
                    want = enc_listing(unj_entries(res["ctc"][key + "_flat"]))
                    if mo.split(" ")[2] != want:
                        dis(f"commit_tree_changes[{key}].flat", mo, want)
        elif kind == "tchanges":
            if mo[0] != mo[1]:
                dis("toTChanges", mo[0], mo[1])
        elif kind == "lookup":
            real = res["lookups"].get(key)
            realc = f"ok {real[0]} {real[1]}" if isinstance(real, list) else EXC_MAP.get(real["exc"], "exc " + real["exc"])
            if mo != realc:
                dis("tree_lookup_path", {"path": key, "model": mo}, realc)


def oracle_case(ctx, stream, c, cj, res, v):
    """the property's own words on what the real code returned (independent of the model)"""
    cj = {"variant": v, **cj}

    def fail(what, cls):
        ctx.oracle_fail(stream, cj, what, cls)
    a, b = c["a"], c["b"]
    va, vb = (a is None or valid_listing(a)), (b is None or valid_listing(b))
    if not (va and vb):
        return
    if res.get("failed"):
        fail(f"commit_tree raised on a valid listing: {res.get('id_a')} {res.get('id_b')}", "commit_tree:raises")
        return
    # build / flatten are inverse; ids are the Merkle hashes of canonically ordered entries
    for side, l in (("a", a), ("b", b)):
        if l is None:
            continue
        flat = unj_entries(res[f"flat_{side}0"])
        if sorted(flat) != sorted(l) or len(flat) != len(l):
            fail(f"iter_tree_contents(commit_tree(L)) != L as a set (side {side})", "flatten-build")
        root, trees = ref_tree_ids(l)
        if res["id_" + side] != root:
            fail(f"commit_tree id {res['id_' + side]} != reference Merkle id {root} (side {side})", "tree-id")
        want1 = sorted(list(l) + [(p, DIR, t) for p, t in ref_tree_ids.dirs.items()])
        if sorted(unj_entries(res[f"flat_{side}1"])) != want1:
            fail(f"iter_tree_contents(include_trees=True) is not the listing plus one entry per directory (side {side})", "flatten-trees")
    if a is not None:
        if res.get("rt_a") != res["id_a"]:
            fail(f"commit_tree(iter_tree_contents(t)) = {res.get('rt_a')} != t = {res['id_a']}", "build-flatten")
        root, trees = ref_tree_ids(a)
        for tid, raw in res["trees_a"].items():
            ents = parse_raw_tree(unhx(raw))
            keys = [n + b"/" if m == DIR else n for n, m, i, _ in ents]
            if any(k1 >= k2 for k1, k2 in zip(keys, keys[1:])):
                fail(f"tree {tid} is not stored in git's canonical order", "canonical-order")
            if hashlib.sha1(b"tree %d\0" % len(unhx(raw)) + unhx(raw)).hexdigest() != tid:
                fail(f"tree {tid}: id is not the hash of its serialisation", "tree-id")
            if tid not in trees or [(n, m, i) for n, m, i, _ in ents] != trees[tid]:
                fail(f"tree {tid}: entries differ from the reference nesting of the listing", "tree-entries")
            if any(mt.startswith(b"0") for _, _, _, mt in ents):
                fail(f"tree {tid}: mode serialised with a leading zero", "tree-mode-text")
        if set(res["trees_a"]) != set(trees):
            fail("set of tree objects differs from the reference nesting", "tree-entries")
    # diff: sound + complete, each path at most once, flag consistency
    for key, chg in res["changes"].items():
        fl, fi = key.split("/")
        if not isinstance(chg, list):
            fail(f"tree_changes[{key}] raised {chg}", f"tree_changes:raises:{chg.get('exc')}")
            continue
        chg = unj_changes(chg)
        if fi == "0":
            fa = unj_entries(res["flat_a" + fl[1]])
            fb = unj_entries(res["flat_b" + fl[1]])
            img = ref_apply(chg, fa)
            if img != {p: (m, i) for p, m, i in fb}:
                fail(f"applying tree_changes[{fl}] to flatten(a) does not give flatten(b)", f"diff-image:{fl}")
            olds = [o[0] for t, o, n in chg if t in ("delete", "modify", "rename", "unchanged")]
            news = [n[0] for t, o, n in chg if t in ("add", "modify", "rename", "copy", "unchanged")]
            if len(set(olds)) != len(olds) or len(set(news)) != len(news):
                fail(f"tree_changes[{fl}] mentions a path more than once on one side", f"path-twice:{fl}")
            if fl[2] == "0":
                dm = {o[0]: o[1] for t, o, n in chg if t == "delete"}
                for t, o, n in chg:
                    if t == "add" and n[0] in dm and pystat.S_IFMT(dm[n[0]]) == pystat.S_IFMT(n[1]):
                        fail(f"tree_changes[{fl}] reports a change that keeps the file type as delete+add instead of modify: {n[0]!r}",
                             f"type-split:{fl}")
                        break
                for t, o, n in chg:
                    if t == "modify" and pystat.S_IFMT(o[1]) != pystat.S_IFMT(n[1]):
                        fail(f"tree_changes[{fl}] reports a type change as modify although change_type_same is off: {n[0]!r}",
                             f"type-split:{fl}")
                        break
            if fl[2] == "1":
                allp = [change_path(x) for x in chg]
                if len(set(allp)) != len(allp):
                    fail(f"tree_changes[{fl}] (change_type_same) mentions a path more than once", f"path-twice:{fl}")
            da, db = {p: (m, i) for p, m, i in fa}, {p: (m, i) for p, m, i in fb}
            for t, o, n in chg:
                ok = True
                if t == "unchanged":
                    ok = fl[0] == "1" and o == n and da.get(o[0]) == o[1:] and db.get(n[0]) == n[1:]
                elif t == "modify":
                    ok = o[0] == n[0] and o != n and da.get(o[0]) == o[1:] and db.get(n[0]) == n[1:]
                elif t == "delete":
                    ok = n is None and da.get(o[0]) == o[1:]
                elif t == "add":
                    ok = o is None and db.get(n[0]) == n[1:]
                else:
                    ok = False
                if not ok:
                    fail(f"tree_changes[{fl}] reports a change that is not one: {t} {o} {n}", f"bogus-change:{fl}")
                    break
            if fl[0] == "1":
                same = sorted(p for p in da if db.get(p) == da[p])
                rep_same = sorted(o[0] for t, o, n in chg if t == "unchanged")
                if same != rep_same:
                    fail(f"want_unchanged: the unchanged entries reported are not exactly the entries both trees hold identically [{fl}]",
                         f"unchanged-set:{fl}")
                base = res["changes"].get("0" + fl[1:] + "/0")
                if isinstance(base, list) and [x for x in chg if x[0] != "unchanged"] != unj_changes(base):
                    fail(f"want_unchanged changes the reported differences [{fl}]", f"want-unchanged:{fl}")
        else:
            flt = c["filters"][int(fi) - 1]
            full = res["changes"].get(fl + "/0")
            if isinstance(full, list):
                full = unj_changes(full)
                if any(x not in full for x in chg):
                    fail(f"tree_changes[{fl}] with paths={flt} reports a change the unfiltered diff does not", f"filter-unsound:{fl}")
                extra = [x for x in chg if not matches_filter(change_path(x), flt)
                         and not any(f.startswith(change_path(x) + b"/") or change_path(x) == b"" for f in flt)]
                if extra:
                    fail(f"tree_changes[{fl}] with paths={flt} reports a path that is neither at/under nor above a filter path: {extra[0]}",
                         f"filter-extra:{fl}")
                missing = [x for x in full if matches_filter(change_path(x), flt) and x not in chg]
                if missing:
                    fail(f"tree_changes[{fl}] with paths={flt} drops a change at/under a filter path: {missing[0]}", f"filter-incomplete:{fl}")
    # rename / copy detection: only the image is constrained
    for key, chg in res.get("rename", {}).items():
        if not isinstance(chg, list):
            cls = f"rename:raises:{chg.get('exc')}"
            if chg.get("exc") == "KeyError" and key.startswith("rewrite") and gitlink_modified(a, b):
                cls = "rename:rewrite-threshold:gitlink-modified"
            fail(f"RenameDetector[{key}] raised {chg}", cls)
            continue
        chg = unj_changes(chg)
        inc = key.split("/")[1][1]
        fa = unj_entries(res["flat_a" + inc])
        fb = unj_entries(res["flat_b" + inc])
        if ref_apply(chg, fa) != {p: (m, i) for p, m, i in fb}:
            fail(f"applying the RenameDetector[{key}] changes to flatten(a) does not give flatten(b)", f"rename-image:{key.split('/')[0]}")
        news = [n[0] for t, o, n in chg if t in ("add", "modify", "rename", "copy")]
        if len(set(news)) != len(news):
            fail(f"RenameDetector[{key}] installs a path more than once", f"rename-path-twice:{key.split('/')[0]}")
    # patching == rebuilding
    if a is not None and b is not None:
        for k, r in res.get("ctc", {}).items():
            if k.startswith("x"):
                continue
            if isinstance(r, dict):
                cls = f"ctc:{r['exc']}"
                if r["exc"] in ("AssertionError", "KeyError") and dir_replaced_by_file(a, b):
                    cls = "ctc:dir-replaced-by-file"
                fail(f"commit_tree_changes(a, tree_changes[{k}](a, b)) raised {r['exc']} (rebuilding gives {res['id_b']})", cls)
            elif r != res["id_b"]:
                fail(f"commit_tree_changes(a, tree_changes[{k}](a, b)) = {r} != commit_tree(b) = {res['id_b']}", f"ctc:wrong-tree:{k}")
        if res.get("a_intact") is not True:
            fail("commit_tree_changes changed the tree object stored under the original id", "ctc:store-mutated")


def oracle_git(ctx, stream, c, cj, res, git):
    a, b = c["a"], c["b"]
    if res.get("failed") or not ((a is None or valid_listing(a)) and (b is None or valid_listing(b))):
        return
    gids = {}
    for side, l in (("a", a), ("b", b)):
        if l is None:
            continue
        gids[side] = git.tree_of_listing(l)
        ctx.count(stream + ".cgit.mktree", (side, json.dumps(cj[side])), True)
        if gids[side] != res["id_" + side]:
            ctx.oracle_fail(stream, {"side": side, **cj}, f"commit_tree id {res['id_' + side]} != git mktree id {gids[side]}", "tree-id:cgit")
    if a is not None:
        for tid, raw in list(res["trees_a"].items())[:4]:
            ents = [(n, m, i) for n, m, i, _ in parse_raw_tree(unhx(raw))]
            try:
                g = git.mktree(list(reversed(ents)), reject_ok=True)
            except GitRejected as e:
                ctx.oracle_fail(stream, {"tree": tid, **cj}, f"git mktree rejects the entries of a tree dulwich stored: {e}", "tree-entries:cgit-rejects")
                continue
            if g != tid:
                ctx.oracle_fail(stream, {"tree": tid, **cj}, f"git mktree of the same entries gives {g}, dulwich stored {tid}", "tree-id:cgit")
    if any(m == GROUPW for p, m, i in (a or []) + (b or [])):
        return  # C git reads the legacy mode 100664 as 100644 (canon_mode) and so sees no mode change
    if a is not None and b is not None:
        raw = set(git.diff_tree(gids["a"], gids["b"]))
        ctx.count(stream + ".cgit.diff-tree", json.dumps(cj, sort_keys=True), True, f"{len(raw)} lines")
        for fl in ("000", "001"):
            chg = res["changes"].get(fl + "/0")
            if isinstance(chg, list):
                exp = git_expected_from_changes(unj_changes(chg))
                if exp != raw:
                    ctx.oracle_fail(stream, {"flags": fl, "git_only": sorted(map(repr, raw - exp))[:5], "dulwich_only": sorted(map(repr, exp - raw))[:5], **cj},
                                    f"tree_changes[{fl}] differs from git diff-tree -r --raw -z --no-renames", f"diff-vs-cgit:{fl}")



# ------------------------------------------------------------------------------------------------
# long-lived RenameDetector: call independence

SIMILAR = [3, 4, 5, 6]  # POOL indices with graded similarity (content renames / copies)


def _pair_with_candidates(rng):
    """a pair whose diff has inexact (content) rename / copy candidates"""
    a = {b"keep": (REG, POOL_IDS[2])}
    b = dict(a)
    for k in range(rng.choice([1, 1, 2])):
        src, dst = rng.sample(SIMILAR, 2)
        a[b"old%d" % k] = (REG, POOL_IDS[src])
        b[rng.choice([b"new%d", b"d/new%d", b"a.b/n%d"]) % k] = (rng.choice([REG, EXE]), POOL_IDS[dst])
    if rng.random() < 0.4:  # a modified file that is also a copy source
        a[b"m"] = (REG, POOL_IDS[3])
        b[b"m"] = (REG, POOL_IDS[5])
        b[b"copy"] = (REG, POOL_IDS[4])
    return a, b


def _pair_many(rng, nadd, ndel):
    """nadd adds x ndel deletes, no exact matches (so the pairs reach the max_files cut-off)"""
    a = {b"keep": (REG, POOL_IDS[2])}
    b = dict(a)
    pool = [POOL_IDS[i] for i in (0, 1, 9, 10, 11, 7)]
    for k in range(ndel):
        a[b"del%d" % k] = (REG, pool[k % 3])
    for k in range(nadd):
        b[b"add%d" % k] = (REG, pool[3 + k % 3])
    return a, b


def gen_detseq(rng, default_max=False):
    opts = {}
    mf = 200 if default_max else rng.choice([1, 1, 2, 2, 3, None, 0])
    if not default_max or rng.random() < 0.5:
        opts["max_files"] = mf
    if rng.random() < 0.6:
        opts["rename_threshold"] = rng.choice([0, 30, 60, 99, 100])
    if rng.random() < 0.4:
        opts["rewrite_threshold"] = rng.choice([0, 40, 60, 101])
    if rng.random() < 0.4:
        opts["find_copies_harder"] = True
    lim = (mf if mf is not None else 3)
    seq = []
    shape = rng.choice(["cand-cut", "cut-cand", "cand-cut-cand", "cand-cand", "random", "cand-edge"])
    for step in shape.split("-") if shape != "random" else ["random"] * rng.randint(2, 4):
        if step == "cand":
            a, b = _pair_with_candidates(rng)
        elif step == "cut":
            if default_max:
                a, b = _pair_many(rng, 201, 200)
            else:
                n = lim + rng.choice([1, 1, 2])
                a, b = _pair_many(rng, n, rng.choice([n, max(1, lim)]))
        elif step == "edge":  # exactly at / just over the cut-off
            a, b = _pair_many(rng, max(1, lim), max(1, lim) + rng.choice([0, 1]))
        else:
            _, la, lb = gen_pair(rng)
            a, b = {p: (m, i) for p, m, i in la}, {p: (m, i) for p, m, i in lb}
        seq.append({"a": to_listing(rng, a), "b": to_listing(rng, b), "wu": rng.random() < 0.3, "inc": rng.random() < 0.3})
    return {"tag": shape + (":mf200" if default_max else f":mf{mf}"), "opts": opts, "seq": seq}


def detseq_json(c):
    return {"tag": c["tag"], "opts": c["opts"],
            "seq": [{"a": jl(x["a"]), "b": jl(x["b"]), "wu": x["wu"], "inc": x["inc"]} for x in c["seq"]]}


def detseq_from_json(j):
    return {"tag": j.get("tag"), "opts": j["opts"],
            "seq": [{"a": unjl(x["a"]), "b": unjl(x["b"]), "wu": x["wu"], "inc": x["inc"]} for x in j["seq"]]}


def eval_detseq(ctx, stream, cases, workers):
    CH = 25
    for s0 in range(0, len(cases), CH):
        chunk = cases[s0:s0 + CH]
        req = {"mod": MOD, "op": "detseq", "args": {"cases": [detseq_json(c) for c in chunk]}}
        for v, wk in workers.items():
            rep = wk.ask(req, timeout=900)
            if "r" not in rep:
                ctx.oracle_fail(stream, {"variant": v, "detseq": [detseq_json(c) for c in chunk][:1]},
                                f"detector sequence crashed the worker: {rep}", f"detector-crash:{v}")
                continue
            for c, res in zip(chunk, rep["r"]):
                cj = {"variant": v, "detseq": detseq_json(c)}
                ctx.count(stream, (v, json.dumps(detseq_json(c), sort_keys=True)), True, f"{v}:{c['tag']}")

                def fail(what, cls):
                    ctx.oracle_fail(stream, cj, what, cls)
                if "exc" in res:
                    fail(f"detector sequence raised {res['exc']}", f"detector-raises:{res['exc'].get('exc')}")
                    continue
                for k, r in enumerate(res["calls"]):
                    reused, fresh, via = r["reused"], r["fresh"], r["via_tree_changes"]
                    if reused != fresh:
                        fail(f"call {k}: a reused RenameDetector returns something else than a fresh one with the same options "
                             f"(reused {str(reused)[:160]} fresh {str(fresh)[:160]})", "detector-reuse")
                    if via != fresh:
                        fail(f"call {k}: tree_changes(rename_detector=reused detector) differs from a fresh detector", "detector-reuse")
                    if not isinstance(reused, list):
                        fail(f"call {k}: changes_with_renames raised {reused}", f"detector-raises:{reused.get('exc')}")
                        continue
                    fa, fb = unj_entries(r["flat_a"]), unj_entries(r["flat_b"])
                    sa, sb = set(fa), set(fb)
                    chg = unj_changes(reused)
                    for t, o, n in chg:
                        if (o is not None and o not in sa) or (n is not None and n not in sb):
                            fail(f"call {k}: change {t} {o} -> {n} names an entry that is not in the corresponding tree", "detector-path-missing")
                            break
                    if ref_apply(chg, fa) != {p: (m, i) for p, m, i in fb}:
                        fail(f"call {k}: applying the reused detector's changes to flatten(a) does not give flatten(b)", "detector-image")
                if res.get("merge_shared") != res.get("merge_fresh"):
                    fail("tree_changes_for_merge with one shared RenameDetector differs from a fresh detector per parent", "detector-reuse:merge")


def _fixed_detseqs():
    """candidates from pair 1 (old0: POOL3 -> new0: POOL4), then a pair over the cut-off for max_files = 1, 2, 3; and reversed"""
    out = []
    cand = ([(b"keep", REG, POOL_IDS[2]), (b"old0", REG, POOL_IDS[3])], [(b"keep", REG, POOL_IDS[2]), (b"new0", REG, POOL_IDS[4])])
    for mf in (1, 2, 3):
        a, b = _pair_many(__import__("random").Random(mf), mf + 1, mf + 1)
        cut = ([(p, m, i) for p, (m, i) in a.items()], [(p, m, i) for p, (m, i) in b.items()])
        for order in ((cand, cut), (cut, cand), (cand, cut, cand)):
            for wu, inc in ((False, False), (True, False), (False, True)):
                out.append({"tag": f"fixed:mf{mf}:{len(order)}", "opts": {"max_files": mf},
                            "seq": [{"a": x[0], "b": x[1], "wu": wu, "inc": inc} for x in order]})
    return out


def _stream_detector(ctx, workers, stream="detector.reuse", scale=1):
    rng = ctx.rng
    cases = _fixed_detseqs() + [gen_detseq(rng) for _ in range(ctx.budget(120) * scale)]
    if ctx.thorough:
        cases += [gen_detseq(rng, default_max=True) for _ in range(2)]
    ctx.extra_cov["detector_sequences"] = len(cases)
    eval_detseq(ctx, stream, cases, workers)

# ------------------------------------------------------------------------------------------------
# streams

def make_workers(ctx):
    workers = {"py": core.Worker("py", mem_mb=2048)}
    ov = core.rust_overlay()
    if ov is not None:
        workers["rs"] = core.Worker("rs", overlay=ov, mem_mb=2048)
    else:
        ctx.notes.append("cargo build failed: Rust variant not exercised (see .cache/cargo.log)")
        ctx.disagree("rust.build", {}, "builds", "cargo build failed", "rs")
    return workers


def gen_tchanges(rng, a):
    """a change list for commit_tree_changes that is NOT derived from a diff: adds, overwrites, deletes of present and
    absent paths, changes below files (error behaviour is part of the model)"""
    paths = sorted({p for p, _, _ in (a or [])})
    out = []
    for _ in range(rng.choice([1, 2, 3, 5])):
        r = rng.random()
        if r < 0.35 and paths:
            out.append((rng.choice(paths), None, None))
        elif r < 0.45:
            out.append((gen_path(rng), None, None))
        elif r < 0.55 and paths:
            out.append((rng.choice(paths) + b"/" + rng.choice(COMPS), *gen_leaf(rng)))
        elif r < 0.65 and paths:
            c = comps(rng.choice(paths))
            out.append((b"/".join(c[:rng.randint(1, len(c))]), *gen_leaf(rng)))
        else:
            out.append((gen_path(rng), *gen_leaf(rng)))
    return out


def make_case(rng, tag, a, b, full=True):
    return {"tag": tag, "a": a, "b": b, "filters": gen_filters(rng, a, b) if full else [], "full": full,
            "lookups": gen_lookups(rng, a) if full else [], "tchanges": [gen_tchanges(rng, a)] if full and a is not None else []}


def _stream_sha1(ctx):
    rng = ctx.rng
    msgs = [b"", b"abc"] + [rng.randbytes(n) for n in (1, 54, 55, 56, 57, 63, 64, 65, 119, 120, 127, 128, 129, 1000)]
    msgs += [rng.randbytes(rng.randint(0, 300)) for _ in range(ctx.budget(40))]
    outs = ctx.driver.batch([f"c12.sha1 {hx(m)}" for m in msgs])
    for m, o in zip(msgs, outs):
        ctx.count("sha1", m, True, f"len%64={len(m) % 64 // 8 * 8}+")
        if o != hashlib.sha1(m).hexdigest():
            ctx.disagree("sha1", {"msg": hx(m)}, o, hashlib.sha1(m).hexdigest())


def _stream_merge(ctx, workers):
    """_merge_entries: model vs pure Python vs Rust on name sets that differ exactly where '/' sorts"""
    rng = ctx.rng
    names = [b"a", b"a.b", b"a-", b"a0", b"a.", b"b", b"ab", b"a b", b"A", b"\xff", b"a\x01", b"B"]
    cases = []
    for _ in range(ctx.budget(400)):
        def side():
            ns = rng.sample(names[:8] if rng.random() < 0.8 else names, rng.randint(0, 6))
            return [(n, rng.choice([REG, EXE, LNK, GITLINK, DIR]), rng.choice(POOL_IDS)) for n in ns]
        e1, e2 = side(), side()
        if rng.random() < 0.3 and e1:
            e2 = list(e1)
            rng.shuffle(e2)
            if e2 and rng.random() < 0.7:
                k = rng.randrange(len(e2))
                e2[k] = (e2[k][0], rng.choice([REG, DIR]), rng.choice(POOL_IDS))
        cases.append((rng.choice([b"", b"a", b"a/b", b"a.b/a-"]), e1, e2))
    lines = []
    for path, e1, e2 in cases:
        def tok(es):
            return "." if not es else ",".join(f"{hx(n)}:{m}:{i}" for n, m, i in sorted(es))
        lines.append(f"c12.merge {tok(e1)} {tok(e2)}")
    outs = ctx.driver.batch(lines)
    req = {"mod": MOD, "op": "merge", "args": {"cases": [[hx(p), [[hx(n), m, i] for n, m, i in e1], [[hx(n), m, i] for n, m, i in e2]]
                                                            for p, e1, e2 in cases]}}
    for v, wk in workers.items():
        rep = wk.ask(req, timeout=300)
        if "r" not in rep:
            ctx.oracle_fail("merge", {"variant": v}, f"_merge_entries crashed: {rep}", f"merge-crash:{v}")
            continue
        for (path, e1, e2), mo, real in zip(cases, outs, rep["r"]):
            import posixpath
            # model output carries names; the real one full paths posixpath.join(path, name)
            items = []
            for x, y in real:
                def sd(e):
                    return "~" if e is None else f"{e[1]};{e[2]}"
                full = unhx((x or y)[0])
                items.append((full, sd(x), sd(y)))
            mitems = [] if mo == "." else [tuple(it.split(":")) for it in mo.split(",")]
            mfull = [(posixpath.join(path, unhx(n)), l, r) for n, l, r in mitems]
            ctx.count("merge", (v, path, tuple(e1), tuple(e2)), True, f"{v}:{min(len(e1), 3)}x{min(len(e2), 3)}")
            if mfull != items:
                ctx.disagree("merge", {"path": hx(path), "e1": [[hx(n), m, i] for n, m, i in e1], "e2": [[hx(n), m, i] for n, m, i in e2]},
                             mfull, items, v)
            # direct oracle: every name of either side exactly once, paired iff in both
            n1, n2 = {n: (m, i) for n, m, i in e1}, {n: (m, i) for n, m, i in e2}
            seen = []
            for x, y in real:
                full = unhx((x or y)[0])
                seen.append(full)
            want = sorted(posixpath.join(path, n) for n in set(n1) | set(n2))
            if sorted(seen) != want:
                ctx.oracle_fail("merge", {"variant": v, "path": hx(path), "e1": [[hx(n), m, i] for n, m, i in e1], "e2": [[hx(n), m, i] for n, m, i in e2]},
                                "_merge_entries does not mention every name exactly once", f"merge-names:{v}")


def alphabet_listings(paths, leaves):
    out = []
    for combo in itertools.product([None] + leaves, repeat=len(paths)):
        l = [(p, m, i) for p, x in zip(paths, combo) if x is not None for m, i in [x]]
        if valid_listing(l):
            out.append(l)
    return out


def _stream_alphabet(ctx, workers):
    """every ordered pair of valid listings over the property's conflict alphabet (reduced op set)"""
    rng = ctx.rng
    leaves = [(REG, POOL_IDS[1]), (EXE, POOL_IDS[2]), (LNK, POOL_IDS[7])]
    if ctx.thorough:
        paths = [b"a", b"a/b", b"a.b", b"a-", b"a0"]
        leaves = leaves[:2]
    else:
        paths = [b"a", b"a/b", b"a.b", b"a0"]
        leaves = leaves[:2]
    ls = alphabet_listings(paths, leaves)
    pairs = [(x, y) for x in ls for y in ls]
    limit = ctx.budget(700, mult=10)
    if len(pairs) > limit:
        pairs = rng.sample(pairs, limit)
    cases = [make_case(rng, "alphabet", a, b, full=False) for a, b in pairs]
    ctx.extra_cov["alphabet"] = {"paths": [p.decode() for p in paths], "listings": len(ls), "pairs": len(cases)}
    evaluate(ctx, "alphabet", cases, workers)


def _stream_pairs(ctx, workers, git, n=None, stream="pairs"):
    rng = ctx.rng
    n = ctx.budget(1200, mult=8) if n is None else n
    cases = []
    fixed = [
        ("fixed:empty", [], []),
        ("fixed:none-a", None, [(b"a", REG, POOL_IDS[1])]),
        ("fixed:none-b", [(b"a/b", REG, POOL_IDS[1])], None),
        ("fixed:slash-order", [(b"a/b", REG, POOL_IDS[1]), (b"a.b", REG, POOL_IDS[2]), (b"a-", REG, POOL_IDS[3]), (b"a0", REG, POOL_IDS[4])],
         [(b"a", REG, POOL_IDS[1]), (b"a.b", REG, POOL_IDS[2]), (b"a-", REG, POOL_IDS[3]), (b"a0", EXE, POOL_IDS[4])]),
        ("fixed:empty-dir-after-delete", [(b"a/b/c", REG, POOL_IDS[1]), (b"b", REG, POOL_IDS[2])], [(b"b", REG, POOL_IDS[2])]),
        ("fixed:identical-subtrees", [(b"a/x", REG, POOL_IDS[1]), (b"b/x", REG, POOL_IDS[1]), (b"c", REG, POOL_IDS[2])],
         [(b"a/x", REG, POOL_IDS[1]), (b"b/x", REG, POOL_IDS[1]), (b"c", LNK, POOL_IDS[2])]),
        ("fixed:dir-rename", [(b"a/x", REG, POOL_IDS[3]), (b"a/y", REG, POOL_IDS[4])], [(b"b/x", REG, POOL_IDS[3]), (b"b/y", REG, POOL_IDS[4])]),
    ]
    for tag, a, b in fixed:
        cases.append(make_case(rng, tag, a, b))
    for _ in range(n):
        tag, a, b = gen_pair(rng)
        if rng.random() < 0.02:
            a = None
        elif rng.random() < 0.02:
            b = None
        cases.append(make_case(rng, tag, a, b))
    git_every = max(1, len(cases) // (ctx.budget(120, mult=5))) if git is not None else 0
    evaluate(ctx, stream, cases, workers, git, git_every)


def _stream_invalid(ctx, workers):
    """listings outside ValidListing (file/directory conflicts, duplicates, empty components): the model answers
    `conflict`/`invalid`; what the real code does is recorded, not compared (commit_tree resolves conflicts
    silently through its side table of dicts; `a//b` recurses without bound)."""
    rng = ctx.rng
    ls = [[(b"a", REG, POOL_IDS[1]), (b"a/b", REG, POOL_IDS[2])],
          [(b"a/b", REG, POOL_IDS[2]), (b"a", REG, POOL_IDS[1])],
          [(b"a/b", REG, POOL_IDS[2]), (b"a", REG, POOL_IDS[1]), (b"a/c", REG, POOL_IDS[3])],
          [(b"a", REG, POOL_IDS[1]), (b"a", EXE, POOL_IDS[2])],
          [(b"", REG, POOL_IDS[1])], [(b"a/", REG, POOL_IDS[1])], [(b"/a", REG, POOL_IDS[1])]]
    outs = ctx.driver.batch([f"c12.commit {enc_listing(l)}" for l in ls])
    rec = []
    for l, mo in zip(ls, outs):
        rep = workers["py"].ask({"mod": MOD, "op": "cases", "args": {"cases": [case_json(make_case(rng, "invalid", l, l, full=False))]}}, timeout=60)
        real = rep.get("r", [rep])[0]
        flat = real.get("flat_a0") if isinstance(real, dict) else None
        ctx.count("invalid", repr(l), False, mo.split(" ")[0])
        rec.append({"listing": [(p.decode(), oct(m)) for p, m, i in l], "model": mo.split(" ")[0], "valid_listing": valid_listing(l),
                    "real": "raises " + str(real.get("id_a")) if isinstance(real, dict) and real.get("failed") else
                            ("flatten -> " + str([unhx(e[0]).decode() for e in flat]) if flat is not None else str(real)[:80])})
        if valid_listing(l) != mo.startswith("ok"):
            if not (mo.startswith("ok") and len({p for p, _, _ in l}) != len(l)):  # exact duplicates: last wins in both
                ctx.disagree("invalid.domain", {"listing": jl(l)}, mo, f"valid_listing={valid_listing(l)}")
    ctx.extra_cov["outside_domain_behaviour"] = rec


def _run_corpus(ctx, workers):
    d = core.VERIF / "corpus" / "C12"
    if not d.exists():
        return
    cases = []
    for f in sorted(d.glob("*.json")):
        j = json.loads(f.read_text())
        c = case_from_json(j["case"] if "case" in j else j)
        c["tag"] = "corpus:" + f.stem
        cases.append(c)
    if cases:
        evaluate(ctx, "corpus", cases, workers)


def run(ctx: core.Ctx):
    workers = make_workers(ctx)
    ctx.assumptions += [
        "object hash: the theorems take the tree hash H as a parameter (injectivity is an explicit hypothesis where pruning "
        "needs it); the driver instantiates it with a SHA-1 written in the model file and compared with hashlib each run",
        "rename/copy detection is not modelled: any pairing function preserves the patch image (theorem); the real "
        "RenameDetector is checked on its image only, under 5 configurations",
        "patch semantics of a change list: all removals (delete/modify/rename old side) first, then all installations "
        "(add/modify/rename/copy new side); 'each path at most once' is read per side (a type change reported as "
        "delete+add names the path once as old and once as new) and overall when change_type_same=True",
        "a long-lived RenameDetector (also through tree_changes and tree_changes_for_merge) must answer every call as a fresh "
        "detector with the same options would; Walker's own use of its detector is not exercised separately",
        "tree_changes vs C git is compared as a set of raw lines (dulwich walks in name order, git in tree order); "
        "delete+add of one path is C git's single T line",
    ]
    try:
        w = {k: v.ask({"mod": MOD, "op": "which"}) for k, v in workers.items()}
        ctx.extra_cov["variants"] = {k: v.get("r") for k, v in w.items()}
        git = Git(ctx)
        _stream_sha1(ctx)
        _run_corpus(ctx, workers)
        _stream_merge(ctx, workers)
        _stream_invalid(ctx, workers)
        _stream_alphabet(ctx, workers)
        _stream_detector(ctx, workers)
        _stream_pairs(ctx, workers, git)
        ctx.extra_cov["cgit_calls"] = git.calls
    finally:
        for v in workers.values():
            v.close()


def search(ctx: core.Ctx):
    """failing-input search after a broken obligation / correspondence: the direct oracle on a larger fresh sample and on
    the neighbourhood (single mutations) of every disagreeing case"""
    workers = make_workers(ctx)
    rng = ctx.rng
    try:
        git = Git(ctx)
        _stream_detector(ctx, workers, stream="search.detector", scale=4)
        if ctx.oracle_failures:
            return
        cases = []
        for dgr in ctx.disagreements[:40]:
            cj = dgr.get("case") or {}
            if "a" not in cj:
                continue
            base = case_from_json(cj)
            cases.append(base)
            for _ in range(10):
                if base["a"] is None or base["b"] is None:
                    break
                d = {p: (m, i) for p, m, i in base["b"]}
                mutate(rng, d)
                cases.append(make_case(rng, "search:neigh", base["a"], to_listing(rng, d)))
        if cases:
            evaluate(ctx, "search", cases, workers, git, 3)
        if ctx.oracle_failures:
            return
        _stream_pairs(ctx, workers, git, n=ctx.budget(600), stream="search")
        if ctx.oracle_failures:
            return
        _stream_alphabet(ctx, workers)
    finally:
        for v in workers.values():
            v.close()


def replay(ctx: core.Ctx, data: dict) -> int:
    cj = data.get("case", data)
    if "detseq" in cj:
        workers = make_workers(ctx)
        try:
            eval_detseq(ctx, "replay", [detseq_from_json(cj["detseq"])], workers)
            for f in ctx.oracle_failures:
                print("replay: oracle failure:", f["what"][:300], "| class:", f["class"])
            if ctx.oracle_failures:
                print(f"VIOLATION property=C12 replay={data.get('_path', '<replayed>')}")
                return 1
            print("replay: property holds on this detector sequence")
            return 0
        finally:
            for v in workers.values():
                v.close()
    if "a" not in cj:
        print("replay: no concrete case in this file (broken obligation without failing input):", data.get("no_longer_checks"))
        return 1
    c = case_from_json(cj)
    workers = make_workers(ctx)
    try:
        git = Git(ctx)
        evaluate(ctx, "replay", [c], workers, git, 1)
        for f in ctx.oracle_failures:
            print("replay: oracle failure:", f["what"], "| class:", f["class"])
        for k, n in ctx.known_hit.items():
            print(f"replay: matches known finding {k} ({n}x)")
        for dgr in ctx.disagreements[:5]:
            print("replay: model/implementation disagreement:", dgr["stream"], str(dgr["model"])[:200], "!=", str(dgr["impl"])[:200])
        if ctx.oracle_failures:
            print(f"VIOLATION property=C12 replay={data.get('_path', '<replayed>')}")
            return 1
        print("replay: property holds on this case" + (" (known finding reproduced)" if ctx.known_hit else ""))
        return 0
    finally:
        for v in workers.values():
            v.close()
