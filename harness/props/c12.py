"""C12 — tree building, flattening, diffing and patching are mutually consistent.

Model: lean/DulwichModel/Model/TreeOps.lean; theorems: Props/C12.lean (lemmas in Lemmas/TreeOps.lean).
Tie: translate() regenerates Gen/TreeOps.lean (separators, directory sort suffix, mode constants, the
name_order flags of the three iteritems() call sites, the branch order of _merge_entries, change type
names ...); run() drives correspondence streams (model vs pure-Python vs freshly built Rust extension)
and the direct oracle (the property's own words on the real code, C git as a third party).
"""
from __future__ import annotations

import ast
import hashlib
import itertools
import json
import re
import stat as pystat
import subprocess
from pathlib import Path

from .. import core, translate as T
from ..core import hx, unhx

MOD = "c12"

# ------------------------------------------------------------------------------------------------
# translator


def _bytes_const(node, what):
    if isinstance(node, ast.Constant) and isinstance(node.value, bytes) and len(node.value) == 1:
        return node.value[0]
    raise T.TranslateError(f"{what}: expected a one-byte bytes literal, got {ast.dump(node)[:80]}")


def _name_order_kw(func, what):
    """value of name_order in the (single) `.iteritems(...)` call inside func; None = not passed."""
    calls = [n for n in ast.walk(func) if isinstance(n, ast.Call) and isinstance(n.func, ast.Attribute)
             and n.func.attr == "iteritems"]
    if len(calls) != 1:
        raise T.TranslateError(f"{what}: expected exactly one .iteritems() call, found {len(calls)}")
    c = calls[0]
    if c.args:
        return bool(T.eval_literal(c.args[0]))
    for kw in c.keywords:
        if kw.arg == "name_order":
            return bool(T.eval_literal(kw.value))
    return None


def _is_stat_attr(node, attr):
    return isinstance(node, ast.Attribute) and node.attr == attr and isinstance(node.value, ast.Name) \
        and node.value.id == "stat"


def _rust_const(src: str, name: str) -> int:
    m = re.search(rf"const\s+{re.escape(name)}\s*:\s*\w+\s*=\s*([0-9a-fA-Fxo_]+)\s*;", src)
    if not m:
        raise T.TranslateError(f"rust const {name} not found in crates/diff-tree/src/lib.rs")
    return int(m.group(1).replace("_", ""), 0)


def translate(repo: Path) -> dict:
    objs = T.module_ast(repo / "dulwich" / "objects.py")
    idx = T.module_ast(repo / "dulwich" / "index.py")
    ost = T.module_ast(repo / "dulwich" / "object_store.py")
    dft = T.module_ast(repo / "dulwich" / "diff_tree.py")

    # key_entry: `if stat.S_ISDIR(mode): name += b"/"`
    ke = T.find_def(objs, "key_entry")
    suffix = None
    for n in ast.walk(ke):
        if isinstance(n, ast.If) and isinstance(n.test, ast.Call) and _is_stat_attr(n.test.func, "S_ISDIR"):
            for st in n.body:
                if isinstance(st, ast.AugAssign) and isinstance(st.op, ast.Add):
                    suffix = _bytes_const(st.value, "key_entry suffix")
    if suffix is None:
        raise T.TranslateError("key_entry: `if stat.S_ISDIR(mode): name += b'/'` not found")
    kn = T.find_def(objs, "key_entry_name_order")
    rets = [n for n in ast.walk(kn) if isinstance(n, ast.Return)]
    if len(rets) != 1 or ast.unparse(rets[0].value) != "entry[0]":
        raise T.TranslateError("key_entry_name_order no longer returns entry[0]")
    sti = T.find_def(objs, "sorted_tree_items")
    src_sti = ast.unparse(sti)
    if "key_func = key_entry_name_order" not in src_sti or "key_func = key_entry" not in src_sti \
            or "sorted(entries.items(), key=key_func)" not in src_sti:
        raise T.TranslateError("sorted_tree_items: key selection / sorted() call not recognised")

    # separators
    seps = {}
    pj = T.find_def(idx, "pathjoin")
    for n in ast.walk(pj):
        if isinstance(n, ast.Call) and isinstance(n.func, ast.Attribute) and n.func.attr == "join":
            seps["pathjoin"] = _bytes_const(n.func.value, "pathjoin")
    ps = T.find_def(idx, "pathsplit")
    for n in ast.walk(ps):
        if isinstance(n, ast.Call) and isinstance(n.func, ast.Attribute) and n.func.attr == "rsplit":
            seps["pathsplit"] = _bytes_const(n.args[0], "pathsplit")
            if T.eval_literal(n.args[1]) != 1:
                raise T.TranslateError("pathsplit: rsplit maxsplit != 1")
    ctc = T.find_def(ost, "commit_tree_changes")
    for n in ast.walk(ctc):
        if isinstance(n, ast.Call) and isinstance(n.func, ast.Attribute) and n.func.attr == "split":
            seps["commit_tree_changes"] = _bytes_const(n.args[0], "commit_tree_changes split")
            if T.eval_literal(n.args[1]) != 1:
                raise T.TranslateError("commit_tree_changes: split maxsplit != 1")
    wt = T.find_def(dft, "walk_trees")
    wseps = {n.value[0] for n in ast.walk(wt) if isinstance(n, ast.Constant) and isinstance(n.value, bytes)
             and len(n.value) == 1}
    if len(wseps) != 1:
        raise T.TranslateError(f"walk_trees: path filter separators {wseps}")
    seps["walk_trees"] = wseps.pop()
    rs = (repo / "crates" / "diff-tree" / "src" / "lib.rs").read_text()
    m = re.search(r"new_path\.push\(b'(.)'\)", rs)
    if not m:
        raise T.TranslateError("Rust tree_entries: new_path.push(b'/') not found")
    seps["rust_tree_entries"] = ord(m.group(1))
    if set(seps) != {"pathjoin", "pathsplit", "commit_tree_changes", "walk_trees", "rust_tree_entries"}:
        raise T.TranslateError(f"separator sites missing: {sorted(seps)}")
    if len(set(seps.values())) != 1:
        raise T.TranslateError(f"path separators differ between sites: {seps}")
    sep = seps["pathjoin"]

    # directory mode given to sub-trees
    ct = T.find_def(idx, "commit_tree")
    dir_sites = [n for n in ast.walk(ct) if isinstance(n, ast.Assign) and _is_stat_attr(n.value, "S_IFDIR")]
    if len(dir_sites) != 1:
        raise T.TranslateError("commit_tree: `mode = stat.S_IFDIR` not found")
    ctc_dir = [n for n in ast.walk(ctc) if isinstance(n, ast.Tuple) and n.elts and _is_stat_attr(n.elts[0], "S_IFDIR")]
    if len(ctc_dir) != 1:
        raise T.TranslateError("commit_tree_changes: `(stat.S_IFDIR, subtree.id)` not found")
    empties = [n for n in ast.walk(ctc) if isinstance(n, ast.If) and ast.unparse(n.test) == "len(subtree) == 0"
               and ast.unparse(n.body[0]) == "del tree_obj[name]"]
    if len(empties) != 1:
        raise T.TranslateError("commit_tree_changes: `if len(subtree) == 0: del tree_obj[name]` not found")
    gitlink = T.const_value(objs, "S_IFGITLINK")
    rs_ifmt = _rust_const(rs, "S_IFMT")
    rs_ifdir = _rust_const(rs, "S_IFDIR")

    # serialize_tree: f"{mode:04o}"
    ser = T.find_def(objs, "serialize_tree")
    specs = [ast.unparse(n.format_spec) for n in ast.walk(ser) if isinstance(n, ast.FormattedValue) and n.format_spec]
    if len(specs) != 1:
        raise T.TranslateError(f"serialize_tree: format specs {specs}")
    m = re.fullmatch(r"f?'0(\d+)o'", specs[0])
    if not m:
        raise T.TranslateError(f"serialize_tree: mode format {specs[0]!r} is not 0<w>o")
    width = int(m.group(1))

    # name_order at the three call sites
    flat_no = _name_order_kw(T.find_def(ost, "iter_tree_contents"), "iter_tree_contents")
    merge_no = _name_order_kw(T.find_def(dft, "_tree_entries"), "_tree_entries")
    ser_no = _name_order_kw(T.find_def(objs, "Tree._serialize"), "Tree._serialize")
    it = T.find_def(objs, "Tree.iteritems")
    default_no = bool(T.eval_literal(it.args.defaults[-1])) if it.args.defaults else None
    if default_no is None:
        raise T.TranslateError("Tree.iteritems: name_order has no default")
    flat_no = default_no if flat_no is None else flat_no
    merge_no = default_no if merge_no is None else merge_no
    ser_no = default_no if ser_no is None else ser_no
    m = re.search(r'call_method1\("iteritems",\s*\((true|false),\)\)', rs)
    if not m:
        raise T.TranslateError("Rust tree_entries: call_method1(\"iteritems\", (true,)) not found")
    rs_merge_no = m.group(1) == "true"

    # _merge_entries: which side is emitted alone under `<`
    me = T.find_def(dft, "_merge_entries")
    loops = [n for n in ast.walk(me) if isinstance(n, ast.While)]
    if len(loops) != 1:
        raise T.TranslateError("_merge_entries: while loop not found")
    first = loops[0].body[-1]
    if not (isinstance(first, ast.If) and isinstance(first.test, ast.Compare)):
        raise T.TranslateError("_merge_entries: comparison chain not found")

    def _branch(ifn):
        op = type(ifn.test.ops[0]).__name__
        if ast.unparse(ifn.test.left) != "entry1.path" or ast.unparse(ifn.test.comparators[0]) != "entry2.path":
            raise T.TranslateError("_merge_entries: comparison is not entry1.path ? entry2.path")
        app = [ast.unparse(s) for s in ifn.body]
        return op, app
    op1, app1 = _branch(first)
    if not (len(first.orelse) == 1 and isinstance(first.orelse[0], ast.If)):
        raise T.TranslateError("_merge_entries: elif missing")
    op2, app2 = _branch(first.orelse[0])
    app3 = [ast.unparse(s) for s in first.orelse[0].orelse]
    shape = (op1, app1, op2, app2, app3)
    expected = ("Lt", ["result.append((entry1, None))", "i1 += 1"],
                "Gt", ["result.append((None, entry2))", "i2 += 1"],
                ["result.append((entry1, entry2))", "i1 += 1", "i2 += 1"])
    merge_canonical = shape == expected

    # change type names
    names = {k: T.const_value(dft, "CHANGE_" + k.upper()) for k in ("add", "modify", "delete", "rename", "copy", "unchanged")}

    # tree_changes: prune_identical=(not want_unchanged); the S_IFMT test
    tc = T.find_def(dft, "tree_changes")
    tsrc = ast.unparse(tc)
    prune_ok = "prune_identical=not want_unchanged" in tsrc
    split_ok = any(isinstance(n, ast.BoolOp) and isinstance(n.op, ast.And)
                   and "stat.S_IFMT(entry1.mode) != stat.S_IFMT(entry2.mode)" in [ast.unparse(v) for v in n.values]
                   and "not change_type_same" in [ast.unparse(v) for v in n.values] for n in ast.walk(tc))
    fps = {
        "commit_tree": T.fingerprint(ct), "commit_tree_changes": T.fingerprint(ctc),
        "iter_tree_contents": T.fingerprint(T.find_def(ost, "iter_tree_contents")),
        "walk_trees": T.fingerprint(wt), "tree_changes": T.fingerprint(tc), "_merge_entries": T.fingerprint(me),
        "key_entry": T.fingerprint(ke), "sorted_tree_items": T.fingerprint(sti),
    }

    def b(x):
        return "true" if x else "false"
    src = T.lean_header("dulwich/objects.py key_entry, sorted_tree_items, serialize_tree, Tree.iteritems/_serialize; "
                        "dulwich/index.py pathjoin, pathsplit, commit_tree; dulwich/object_store.py iter_tree_contents, "
                        "commit_tree_changes; dulwich/diff_tree.py _tree_entries, _merge_entries, walk_trees, tree_changes; "
                        "crates/diff-tree/src/lib.rs") + f"""
namespace Dulwich.Gen.TreeOps
/-- `key_entry`: byte appended to the name of a directory entry for sorting -/
def dirSuffix : UInt8 := {suffix}
/-- path separator at every site (pathjoin, pathsplit, commit_tree_changes split, walk_trees filters, Rust tree_entries) -/
def pathSep : UInt8 := {sep}
/-- `stat.S_IFDIR` as written in commit_tree.build_tree and commit_tree_changes -/
def sIFDIR : Nat := {pystat.S_IFDIR}
/-- the mask `stat.S_IFMT` applies -/
def sIFMT : Nat := {pystat.S_IFMT(0o7777777)}
/-- `S_IFGITLINK` (objects.py) -/
def sIFGITLINK : Nat := {gitlink}
/-- Rust `S_IFMT`, `S_IFDIR` (crates/diff-tree) -/
def rsSIFMT : Nat := {rs_ifmt}
def rsSIFDIR : Nat := {rs_ifdir}
/-- `f"{{mode:0<w>o}}"` in serialize_tree -/
def modeOctWidth : Nat := {width}
/-- `name_order` at the call site in iter_tree_contents / _tree_entries (Python, Rust) / Tree._serialize -/
def flattenNameOrder : Bool := {b(flat_no)}
def mergeNameOrder : Bool := {b(merge_no)}
def rsMergeNameOrder : Bool := {b(rs_merge_no)}
def serializeNameOrder : Bool := {b(ser_no)}
/-- the three branches of the `_merge_entries` loop are `<` → (entry1, None), `>` → (None, entry2), else both -/
def mergeBranchesCanonical : Bool := {b(merge_canonical)}
/-- tree_changes passes `prune_identical=(not want_unchanged)` and splits on `S_IFMT` differences unless change_type_same -/
def pruneIsNotWantUnchanged : Bool := {b(prune_ok)}
def typeChangeSplitsUnlessSame : Bool := {b(split_ok)}
def changeAdd : String := {json.dumps(names['add'])}
def changeModify : String := {json.dumps(names['modify'])}
def changeDelete : String := {json.dumps(names['delete'])}
def changeRename : String := {json.dumps(names['rename'])}
def changeCopy : String := {json.dumps(names['copy'])}
def changeUnchanged : String := {json.dumps(names['unchanged'])}
end Dulwich.Gen.TreeOps
"""
    translate.fingerprints = fps
    return {"TreeOps": src}


# ------------------------------------------------------------------------------------------------
# shared vocabulary: blob pool, modes, encodings

REG, EXE, LNK, GITLINK, DIR = 0o100644, 0o100755, 0o120000, 0o160000, 0o040000
GROUPW = 0o100664  # accepted by Tree.check(); rarely generated
MODES = [REG, REG, REG, EXE, LNK, GITLINK]


def _pool():
    """Blob contents with graded similarity so that content rename detection has something to find."""
    base = b"".join(b"line %d of the base file\n" % i for i in range(40))
    out = [b"", b"x", b"y\n", base, base + b"tail\n", base.replace(b"line 7 ", b"LINE 7 "),
           base[: len(base) // 2] + b"other half\n" * 20, b"target/of/symlink", b"a", b"\x00\xff" * 40,
           bytes(range(256)), b"unrelated\n" * 30]
    return out


POOL = _pool()


def blob_id(data: bytes) -> str:
    return hashlib.sha1(b"blob %d\0" % len(data) + data).hexdigest()


POOL_IDS = [blob_id(d) for d in POOL]
COMMIT_IDS = [hashlib.sha1(b"fake commit %d" % i).hexdigest() for i in range(3)]
EMPTY_TREE = "4b825dc642cb6eb9a060e54bf8d69288fbee4904"

FLAG_COMBOS = ["".join(t) for t in itertools.product("01", repeat=3)]  # want_unchanged include_trees change_type_same


def enc_listing(l) -> str:
    """listing = list of (path bytes, mode, hex id) -> driver token"""
    if l is None:
        return "~"
    if not l:
        return "."
    return ",".join(f"{hx(p)}:{m}:{i}" for p, m, i in l)


def dec_listing(tok: str):
    if tok == ".":
        return []
    out = []
    for it in tok.split(","):
        p, m, i = it.split(":")
        out.append((unhx(p), int(m), i))
    return out


def enc_entry(e) -> str:
    return "~" if e is None else f"{hx(e[0])};{e[1]};{e[2]}"


def enc_changes(cs) -> str:
    """changes = list of (type, old|None, new|None), old/new = (path, mode, hexid)"""
    if not cs:
        return "."
    return ",".join(f"{t}:{enc_entry(o)}:{enc_entry(n)}" for t, o, n in cs)


def dec_changes(tok: str):
    if tok == ".":
        return []
    out = []
    for it in tok.split(","):
        t, o, n = it.split(":")

        def de(s):
            if s == "~":
                return None
            p, m, i = s.split(";")
            return (unhx(p), int(m), i)
        out.append((t, de(o), de(n)))
    return out


def enc_tchanges(tcs) -> str:
    if not tcs:
        return "."
    return ",".join(f"{hx(p)}:~" if m is None else f"{hx(p)}:{m}:{i}" for p, m, i in tcs)


def enc_filter(f) -> str:
    if f is None:
        return "~"
    return "f" + "".join("," + hx(p) for p in f)


def jl(l):
    """listing -> JSON-able"""
    return None if l is None else [[hx(p), m, i] for p, m, i in l]


def unjl(l):
    return None if l is None else [(unhx(p), m, i) for p, m, i in l]


# ------------------------------------------------------------------------------------------------
# worker-side implementation adapters (run inside harness/worker.py children; real dulwich code only)

def _entry(e):
    return None if e is None else [hx(e.path), e.mode, e.sha.decode("ascii")]


def _change(c):
    return [c.type, _entry(c.old), _entry(c.new)]


def _exc(e):
    return {"exc": type(e).__name__}


def _to_tchanges(changes):
    """what a caller patching a tree with a diff passes to commit_tree_changes"""
    out = []
    for t, o, n in changes:
        if t == "delete":
            out.append((unhx(o[0]), None, None))
        elif t in ("add", "modify", "copy"):
            out.append((unhx(n[0]), n[1], n[2].encode()))
        elif t == "rename":
            out.append((unhx(o[0]), None, None))
            out.append((unhx(n[0]), n[1], n[2].encode()))
    return out


RENAME_CONFIGS = [
    ("default", {}),
    ("low-harder", {"rename_threshold": 30, "find_copies_harder": True}),
    ("rewrite", {"rewrite_threshold": 60}),
    ("nocontent", {"max_files": 0}),
    ("rewrite-harder", {"rewrite_threshold": 101, "rename_threshold": 0, "find_copies_harder": True}),
]


def _one_case(c):
    from dulwich.object_store import MemoryObjectStore, commit_tree_changes, iter_tree_contents, tree_lookup_path
    from dulwich.index import commit_tree
    from dulwich.objects import Blob, Tree
    from dulwich.diff_tree import tree_changes, RenameDetector
    store = MemoryObjectStore()
    for d in POOL:
        store.add_object(Blob.from_string(d))
    nblobs = len(list(store))
    out = {}
    ids = {}
    for side in ("a", "b"):
        l = c.get(side)
        if l is None:
            ids[side] = None
            out["id_" + side] = None
            continue
        try:
            before = set(store)
            tid = commit_tree(store, [(unhx(p), i.encode(), m) for p, m, i in l])
            ids[side] = tid
            out["id_" + side] = tid.decode()
            new = set(store) - before
            if side == "a":
                # every tree object reachable from the root, raw
                trees = {}
                todo = [tid]
                while todo:
                    t = todo.pop()
                    o = store[t]
                    trees[t.decode()] = hx(o.as_raw_string())
                    for e in o.iteritems():
                        if e.mode == 0o040000:
                            todo.append(e.sha)
                out["trees_a"] = trees
                out["new_a"] = sorted(x.decode() for x in new)
        except Exception as e:
            ids[side] = None
            out["id_" + side] = _exc(e)
            out["failed"] = True
    if out.get("failed"):
        return out
    for side in ("a", "b"):
        for inc in (False, True):
            out[f"flat_{side}{int(inc)}"] = [_entry(e) for e in iter_tree_contents(store, ids[side], include_trees=inc)]
    ch = {}
    filters = [None] + [[unhx(p) for p in f] for f in c.get("filters", [])]
    combos = FLAG_COMBOS if c.get("full", True) else ["000", "001"]
    for fi, flt in enumerate(filters):
        for fl in combos:
            try:
                ch[f"{fl}/{fi}"] = [_change(x) for x in tree_changes(
                    store, ids["a"], ids["b"], want_unchanged=fl[0] == "1", include_trees=fl[1] == "1",
                    change_type_same=fl[2] == "1", paths=flt)]
            except Exception as e:
                ch[f"{fl}/{fi}"] = _exc(e)
    out["changes"] = ch
    if c.get("full", True) and ids["a"] is not None and ids["b"] is not None:
        rn = {}
        for name, kw in RENAME_CONFIGS:
            for wu in (False, True):
                for inc in (False, True):
                    try:
                        det = RenameDetector(store, **kw)
                        rn[f"{name}/{int(wu)}{int(inc)}"] = [_change(x) for x in tree_changes(
                            store, ids["a"], ids["b"], want_unchanged=wu, include_trees=inc, rename_detector=det)]
                    except Exception as e:
                        rn[f"{name}/{int(wu)}{int(inc)}"] = _exc(e)
        out["rename"] = rn
    # commit_tree_changes with the diff (default flags, and change_type_same) as the change list
    if ids["a"] is not None:
        ctc = {}
        for fl in ("000", "001"):
            base = ch.get(fl + "/0")
            if not isinstance(base, list):
                continue
            try:
                r = commit_tree_changes(store, ids["a"], _to_tchanges(base))
                ctc[fl] = r.decode()
            except (Exception, AssertionError) as e:
                ctc[fl] = _exc(e)
        if c.get("full", True) and isinstance(out.get("rename", {}).get("default/00"), list):
            try:
                ctc["rename"] = commit_tree_changes(store, ids["a"], _to_tchanges(out["rename"]["default/00"])).decode()
            except (Exception, AssertionError) as e:
                ctc["rename"] = _exc(e)
        for k, tcs in enumerate(c.get("tchanges", [])):
            try:
                r = commit_tree_changes(store, ids["a"], [(unhx(p), m, None if i is None else i.encode()) for p, m, i in tcs])
                ctc[f"x{k}"] = r.decode()
                ctc[f"x{k}_flat"] = [_entry(e) for e in iter_tree_contents(store, r)]
            except (Exception, AssertionError) as e:
                ctc[f"x{k}"] = _exc(e)
        out["ctc"] = ctc
        # the store must still hold the original tree under its id
        try:
            o = store[ids["a"]]
            out["a_intact"] = hashlib.sha1(b"tree %d\0" % len(o.as_raw_string()) + o.as_raw_string()).hexdigest() == ids["a"].decode()
        except Exception as e:
            out["a_intact"] = _exc(e)
        lk = {}
        for p in c.get("lookups", []):
            try:
                m, s = tree_lookup_path(store.__getitem__, ids["a"], unhx(p))
                lk[p] = [m, s.decode()]
            except Exception as e:
                lk[p] = _exc(e)
        out["lookups"] = lk
    return out


def impl_cases(a):
    return [_one_case(c) for c in a["cases"]]


def impl_merge(a):
    """_merge_entries(path, tree1, tree2) on trees given as entry lists"""
    import dulwich.diff_tree as DT
    from dulwich.objects import Tree
    res = []
    for path, e1, e2 in a["cases"]:
        ts = []
        for es in (e1, e2):
            t = Tree()
            for n, m, i in es:
                t.add(unhx(n), m, i.encode())
            ts.append(t)
        r = DT._merge_entries(unhx(path), ts[0], ts[1])
        res.append([[_entry(x), _entry(y)] for x, y in r])
    return res


def impl_which(a):
    import dulwich.diff_tree as DT
    import dulwich.objects as O
    return {"merge": getattr(DT._merge_entries, "__module__", "?") or "builtin",
            "sorted_tree_items": getattr(O.sorted_tree_items, "__module__", "?") or "builtin", "file": DT.__file__}


# ------------------------------------------------------------------------------------------------
# independent reference implementations used by the direct oracle (no dulwich, no model)

def comps(p: bytes):
    return tuple(p.split(b"/"))


def valid_listing(l) -> bool:
    """paths non-empty, components non-empty, no duplicates, no path a proper directory-prefix of another,
    no directory modes"""
    seen = set()
    for p, m, i in l:
        c = comps(p)
        if not p or any(x == b"" for x in c) or c in seen or pystat.S_ISDIR(m):
            return False
        seen.add(c)
    for c in seen:
        for k in range(1, len(c)):
            if c[:k] in seen:
                return False
    return True


def nest(l):
    """flat listing -> nested dict (independent of dulwich)"""
    root = {}
    for p, m, i in l:
        d = root
        c = comps(p)
        for x in c[:-1]:
            d = d.setdefault(x, {})
        d[c[-1]] = (m, i)
    return root


def ref_tree_ids(l):
    """Merkle ids computed with hashlib from the nested dict, entries in git's canonical order.
    Returns (root id, {id: [(name, mode, id)] in canonical order})."""
    trees = {}

    def build(d):
        ents = []
        for name, v in d.items():
            if isinstance(v, dict):
                ents.append((name, DIR, build(v)))
            else:
                ents.append((name, v[0], v[1]))
        ents.sort(key=lambda e: e[0] + b"/" if e[1] == DIR else e[0])
        body = b"".join(b"%o %s\0" % (m, n) + bytes.fromhex(i) for n, m, i in ents)
        tid = hashlib.sha1(b"tree %d\0" % len(body) + body).hexdigest()
        trees[tid] = ents
        return tid
    return build(nest(l)), trees


def parse_raw_tree(raw: bytes):
    out = []
    i = 0
    while i < len(raw):
        sp = raw.index(b" ", i)
        nul = raw.index(b"\0", sp)
        out.append((raw[sp + 1:nul], int(raw[i:sp], 8), raw[nul + 1:nul + 21].hex(), raw[i:sp]))
        i = nul + 21
    return out


def ref_apply(changes, listing):
    """patch a flat listing (dict path -> (mode, id)): first every removal, then every installation"""
    d = {p: (m, i) for p, m, i in listing}
    for t, o, n in changes:
        if t in ("delete", "modify", "rename"):
            d.pop(o[0], None)
    for t, o, n in changes:
        if t in ("add", "modify", "rename", "copy"):
            d[n[0]] = (n[1], n[2])
    return d


def ref_tchanges(changes):
    out = []
    for t, o, n in changes:
        if t == "delete":
            out.append((o[0], None, None))
        elif t in ("add", "modify", "copy"):
            out.append((n[0], n[1], n[2]))
        elif t == "rename":
            out.append((o[0], None, None))
            out.append((n[0], n[1], n[2]))
    return out


def change_path(c):
    t, o, n = c
    return o[0] if n is None else n[0]


def matches_filter(p: bytes, flt) -> bool:
    return any(p == f or p.startswith(f + b"/") for f in flt)


def unj_changes(js):
    def e(x):
        return None if x is None else (unhx(x[0]), x[1], x[2])
    return [(t, e(o), e(n)) for t, o, n in js]


def unj_entries(js):
    return [(unhx(p), m, i) for p, m, i in js]


# ------------------------------------------------------------------------------------------------
# C git as a third party

class Git:
    def __init__(self, ctx):
        self.dir = ctx.scratch / "cgit"
        self.env = core.clean_env()
        core.sh(["git", "init", "-q", "--bare", str(self.dir)], env=self.env, check=True)
        for d in POOL:
            p = subprocess.run(["git", "--git-dir", str(self.dir), "hash-object", "-w", "--stdin"], input=d,
                               stdout=subprocess.PIPE, env=self.env, check=True)
            assert p.stdout.decode().strip() == blob_id(d)
        self.calls = 0

    def _run(self, args, data=b""):
        self.calls += 1
        p = subprocess.run(["git", "--git-dir", str(self.dir)] + args, input=data, stdout=subprocess.PIPE,
                           stderr=subprocess.PIPE, env=self.env)
        if p.returncode != 0:
            raise core.InfraError(f"git {args} failed: {p.stderr.decode(errors='replace')[:400]}")
        return p.stdout

    def mktree(self, ents):
        """ents: [(name, mode, hexid)] in ANY order -> id git computes (git sorts itself)"""
        if not ents:
            return EMPTY_TREE
        data = b"".join(b"%06o %s %s\t%s\0" % (m, b"tree" if m == DIR else b"commit" if m == GITLINK else b"blob",
                                                i.encode(), n) for n, m, i in ents)
        return self._run(["mktree", "-z", "--missing"], data).decode().strip()

    def tree_of_listing(self, l):
        """root id C git computes for the flat listing (bottom-up mktree over an independently nested dict)"""
        def build(d):
            ents = []
            for name, v in d.items():
                ents.append((name, DIR, build(v)) if isinstance(v, dict) else (name, v[0], v[1]))
            return self.mktree(ents)
        return build(nest(l))

    def diff_tree(self, a, b, renames=False):
        """git diff-tree -r --raw -z: list of (status, oldmode, newmode, oldid, newid, path[, path2])"""
        args = ["diff-tree", "-r", "--raw", "-z", "--no-abbrev"] + (["-M", "-C", "--find-copies-harder"] if renames else ["--no-renames"])
        out = self._run(args + [a, b])
        toks = out.split(b"\0")
        res = []
        i = 0
        while i < len(toks) and toks[i]:
            meta = toks[i].decode().lstrip(":").split(" ")
            om, nm, oi, ni, st = int(meta[0], 8), int(meta[1], 8), meta[2], meta[3], meta[4]
            if st[0] in "RC":
                res.append((st[0], om, nm, oi, ni, toks[i + 1], toks[i + 2]))
                i += 3
            else:
                res.append((st[0], om, nm, oi, ni, toks[i + 1]))
                i += 2
        return res


def git_expected_from_changes(changes):
    """dulwich changes (no renames) -> the set of raw diff lines C git prints (status, oldmode, newmode, oldid, newid, path);
    a delete and an add of the same path (type change reported as delete+add) merge into one `T` line."""
    Z = "0" * 40
    dels = {c[1][0]: c[1] for c in changes if c[0] == "delete"}
    adds = {c[2][0]: c[2] for c in changes if c[0] == "add"}
    res = set()
    for p in set(dels) & set(adds):
        o, n = dels.pop(p), adds.pop(p)
        res.add(("T", o[1], n[1], o[2], n[2], p))
    for p, o in dels.items():
        res.add(("D", o[1], 0, o[2], Z, p))
    for p, n in adds.items():
        res.add(("A", 0, n[1], Z, n[2], p))
    for t, o, n in changes:
        if t == "modify":
            st = "T" if pystat.S_IFMT(o[1]) != pystat.S_IFMT(n[1]) else "M"
            res.add((st, o[1], n[1], o[2], n[2], n[0]))
    return res


# ------------------------------------------------------------------------------------------------
# generators

COMPS = [b"a", b"a", b"b", b"c", b"a.b", b"a-", b"a0", b"a.", b"b.c", b"b-", b"b0", b"A", b"\xff", b"a b", b"ab", b"a\x01"]
ALPHA_PATHS = [b"a", b"a.b", b"a/b", b"a-", b"a0", b"a/b/c", b"b"]


def gen_leaf(rng):
    m = rng.choice(MODES)
    if rng.random() < 0.02:
        m = GROUPW
    if m == GITLINK:
        return m, rng.choice(COMMIT_IDS)
    if m == LNK:
        return m, rng.choice([POOL_IDS[7], POOL_IDS[8], POOL_IDS[1]])
    return m, rng.choice(POOL_IDS)


def gen_path(rng, deep=False):
    r = rng.random()
    if r < 0.45:
        return rng.choice(ALPHA_PATHS)
    depth = rng.choice([1, 1, 2, 2, 3, 4]) if not deep else rng.choice([5, 6, 8, 12])
    return b"/".join(rng.choice(COMPS) for _ in range(depth))


def add_path(listing_dict, p, leaf):
    """add p unless it conflicts (file/dir) with what is there; returns True when added"""
    c = comps(p)
    for q in listing_dict:
        cq = comps(q)
        k = min(len(c), len(cq))
        if c[:k] == cq[:k] and len(c) != len(cq):
            return False
    listing_dict[p] = leaf
    return True


def gen_listing(rng, n=None, deep=False):
    n = rng.choice([0, 1, 2, 3, 4, 6, 9, 14]) if n is None else n
    d = {}
    for _ in range(n * 2):
        if len(d) >= n:
            break
        add_path(d, gen_path(rng, deep and rng.random() < 0.3), gen_leaf(rng))
    return d


MUTATIONS = ["content", "mode", "type", "file2dir", "dir2file", "delete", "delete-dir", "add", "rename", "copy",
             "rename-edit", "swap", "move-dir", "add-sibling"]


def mutate(rng, d):
    """one edit of a listing dict (path -> (mode, id)); returns the kind applied (or None)"""
    kind = rng.choice(MUTATIONS)
    paths = sorted(d)
    if kind in ("add", "add-sibling") or not paths:
        if kind == "add-sibling" and paths:
            p = rng.choice(paths)
            base = p.rsplit(b"/", 1)
            sib = rng.choice([b"", b".b", b"-", b"0", b".", b"/x"])
            q = (base[0] + b"/" if len(base) == 2 else b"") + base[-1].split(b".")[0][:1] + sib
            if not q or q.endswith(b"/"):
                return None
            return kind if q not in d and add_path(d, q, gen_leaf(rng)) else None
        return "add" if add_path(d, gen_path(rng), gen_leaf(rng)) else None
    p = rng.choice(paths)
    m, i = d[p]
    if kind == "content":
        d[p] = (m, rng.choice(COMMIT_IDS) if m == GITLINK else rng.choice(POOL_IDS))
    elif kind == "mode":
        d[p] = ({REG: EXE, EXE: REG}.get(m, m), i)
    elif kind == "type":
        m2 = rng.choice([x for x in (REG, LNK, GITLINK, EXE) if x != m])
        keep = rng.random() < 0.5 and m2 != GITLINK and m != GITLINK
        d[p] = (m2, i if keep else (rng.choice(COMMIT_IDS) if m2 == GITLINK else rng.choice(POOL_IDS)))
    elif kind == "file2dir":
        del d[p]
        for _ in range(rng.randint(1, 3)):
            d[p + b"/" + rng.choice(COMPS)] = (m, i) if rng.random() < 0.5 else gen_leaf(rng)
    elif kind in ("dir2file", "delete-dir", "move-dir"):
        c = comps(p)
        if len(c) < 2:
            return None
        k = rng.randint(1, len(c) - 1)
        pre = b"/".join(c[:k])
        under = [q for q in paths if q.startswith(pre + b"/")]
        moved = {q: d.pop(q) for q in under}
        if kind == "dir2file":
            d[pre] = gen_leaf(rng) if rng.random() < 0.5 else (m, i)
        elif kind == "move-dir":
            new = gen_path(rng)
            tmp = dict(d)
            ok = all(add_path(tmp, new + q[len(pre):], v) for q, v in moved.items())
            if ok:
                d.clear()
                d.update(tmp)
            else:
                d.update(moved)
                return None
    elif kind == "delete":
        del d[p]
    elif kind in ("rename", "copy", "rename-edit"):
        q = gen_path(rng)
        if q in d:
            return None
        leaf = (m, i)
        if kind == "rename-edit" and m in (REG, EXE):
            leaf = (m, rng.choice([POOL_IDS[3], POOL_IDS[4], POOL_IDS[5], POOL_IDS[6]]))
            d[p] = (m, rng.choice([POOL_IDS[3], POOL_IDS[4], POOL_IDS[5]]))
        tmp = dict(d)
        if kind != "copy":
            del tmp[p]
            if kind == "rename-edit":
                leaf = (leaf[0], leaf[1])
        if not add_path(tmp, q, leaf):
            return None
        d.clear()
        d.update(tmp)
    elif kind == "swap":
        q = rng.choice(paths)
        d[p], d[q] = d[q], d[p]
    return kind


def to_listing(rng, d):
    l = [(p, m, i) for p, (m, i) in d.items()]
    rng.shuffle(l)
    return l


def gen_pair(rng):
    """(kind tag, listing a, listing b)"""
    r = rng.random()
    if r < 0.12:
        return "independent", to_listing(rng, gen_listing(rng)), to_listing(rng, gen_listing(rng))
    if r < 0.16:
        a = gen_listing(rng)
        return "identical", to_listing(rng, a), to_listing(rng, a)
    deep = r > 0.9
    a = gen_listing(rng, deep=deep)
    b = dict(a)
    kinds = []
    for _ in range(rng.choice([1, 1, 1, 2, 3, 5])):
        k = mutate(rng, b)
        if k:
            kinds.append(k)
    tag = "+".join(sorted(set(kinds))) if kinds else "noop"
    if len(kinds) > 2:
        tag = "multi"
    if deep:
        tag = "deep:" + tag
    return tag, to_listing(rng, a), to_listing(rng, b)


def gen_filters(rng, a, b):
    paths = sorted({p for p, _, _ in (a or []) + (b or [])})
    cands = set()
    for p in paths:
        c = comps(p)
        for k in range(1, len(c) + 1):
            cands.add(b"/".join(c[:k]))
    cands = sorted(cands) or [b"a"]
    out = []
    for _ in range(2):
        f = [rng.choice(cands) for _ in range(rng.choice([1, 1, 2]))]
        if rng.random() < 0.15:
            f.append(rng.choice([b"zz", b"a/", b"", b"a/b/c/d", b"a."]))
        out.append(f)
    return out


def gen_lookups(rng, a):
    paths = sorted({p for p, _, _ in (a or [])})
    out = {b"", b"a", b"a/b", b"nope", b"a/b/c"}
    for p in paths[:6]:
        out.add(p)
        out.add(p + b"/x")
        c = comps(p)
        out.add(b"/".join(c[:-1]))
        if rng.random() < 0.2:
            out.add(p + b"/")
            out.add(b"/" + p)
            out.add(p.replace(b"/", b"//"))
    out.add(b"/")
    return sorted(out)
