"""C12 — tree building, flattening, diffing and patching are mutually consistent.

Model: lean/DulwichModel/Model/TreeOps.lean; theorems: Props/C12.lean (lemmas in Lemmas/TreeOps.lean).
Tie: translate() regenerates Gen/TreeOps.lean (separators, directory sort suffix, mode constants, the
name_order flags of the three iteritems() call sites, the branch order of _merge_entries, change type
names ...); run() drives correspondence streams (model vs pure-Python vs freshly built Rust extension)
and the direct oracle (the property's own words on the real code, C git as a third party).
"""
from __future__ import annotations

import ast
import hashlib
import itertools
import json
import re
import stat as pystat
import subprocess
from pathlib import Path

from .. import core, translate as T
from ..core import hx, unhx

MOD = "c12"

# ------------------------------------------------------------------------------------------------
# translator


def _bytes_const(node, what):
    if isinstance(node, ast.Constant) and isinstance(node.value, bytes) and len(node.value) == 1:
        return node.value[0]
    raise T.TranslateError(f"{what}: expected a one-byte bytes literal, got {ast.dump(node)[:80]}")


def _name_order_kw(func, what):
    """value of name_order in the (single) `.iteritems(...)` call inside func; None = not passed."""
    calls = [n for n in ast.walk(func) if isinstance(n, ast.Call) and isinstance(n.func, ast.Attribute)
             and n.func.attr == "iteritems"]
    if len(calls) != 1:
        raise T.TranslateError(f"{what}: expected exactly one .iteritems() call, found {len(calls)}")
    c = calls[0]
    if c.args:
        return bool(T.eval_literal(c.args[0]))
    for kw in c.keywords:
        if kw.arg == "name_order":
            return bool(T.eval_literal(kw.value))
    return None


def _is_stat_attr(node, attr):
    return isinstance(node, ast.Attribute) and node.attr == attr and isinstance(node.value, ast.Name) \
        and node.value.id == "stat"


def _rust_const(src: str, name: str) -> int:
    m = re.search(rf"const\s+{re.escape(name)}\s*:\s*\w+\s*=\s*([0-9a-fA-Fxo_]+)\s*;", src)
    if not m:
        raise T.TranslateError(f"rust const {name} not found in crates/diff-tree/src/lib.rs")
    return int(m.group(1).replace("_", ""), 0)


def translate(repo: Path) -> dict:
    objs = T.module_ast(repo / "dulwich" / "objects.py")
    idx = T.module_ast(repo / "dulwich" / "index.py")
    ost = T.module_ast(repo / "dulwich" / "object_store.py")
    dft = T.module_ast(repo / "dulwich" / "diff_tree.py")

    # key_entry: `if stat.S_ISDIR(mode): name += b"/"`
    ke = T.find_def(objs, "key_entry")
    suffix = None
    for n in ast.walk(ke):
        if isinstance(n, ast.If) and isinstance(n.test, ast.Call) and _is_stat_attr(n.test.func, "S_ISDIR"):
            for st in n.body:
                if isinstance(st, ast.AugAssign) and isinstance(st.op, ast.Add):
                    suffix = _bytes_const(st.value, "key_entry suffix")
    if suffix is None:
        raise T.TranslateError("key_entry: `if stat.S_ISDIR(mode): name += b'/'` not found")
    kn = T.find_def(objs, "key_entry_name_order")
    rets = [n for n in ast.walk(kn) if isinstance(n, ast.Return)]
    if len(rets) != 1 or ast.unparse(rets[0].value) != "entry[0]":
        raise T.TranslateError("key_entry_name_order no longer returns entry[0]")
    sti = T.find_def(objs, "sorted_tree_items")
    src_sti = ast.unparse(sti)
    if "key_func = key_entry_name_order" not in src_sti or "key_func = key_entry" not in src_sti \
            or "sorted(entries.items(), key=key_func)" not in src_sti:
        raise T.TranslateError("sorted_tree_items: key selection / sorted() call not recognised")

    # separators
    seps = {}
    pj = T.find_def(idx, "pathjoin")
    for n in ast.walk(pj):
        if isinstance(n, ast.Call) and isinstance(n.func, ast.Attribute) and n.func.attr == "join":
            seps["pathjoin"] = _bytes_const(n.func.value, "pathjoin")
    ps = T.find_def(idx, "pathsplit")
    for n in ast.walk(ps):
        if isinstance(n, ast.Call) and isinstance(n.func, ast.Attribute) and n.func.attr == "rsplit":
            seps["pathsplit"] = _bytes_const(n.args[0], "pathsplit")
            if T.eval_literal(n.args[1]) != 1:
                raise T.TranslateError("pathsplit: rsplit maxsplit != 1")
    ctc = T.find_def(ost, "commit_tree_changes")
    for n in ast.walk(ctc):
        if isinstance(n, ast.Call) and isinstance(n.func, ast.Attribute) and n.func.attr == "split":
            seps["commit_tree_changes"] = _bytes_const(n.args[0], "commit_tree_changes split")
            if T.eval_literal(n.args[1]) != 1:
                raise T.TranslateError("commit_tree_changes: split maxsplit != 1")
    wt = T.find_def(dft, "walk_trees")
    wseps = {n.value[0] for n in ast.walk(wt) if isinstance(n, ast.Constant) and isinstance(n.value, bytes)
             and len(n.value) == 1}
    if len(wseps) != 1:
        raise T.TranslateError(f"walk_trees: path filter separators {wseps}")
    seps["walk_trees"] = wseps.pop()
    rs = (repo / "crates" / "diff-tree" / "src" / "lib.rs").read_text()
    m = re.search(r"new_path\.push\(b'(.)'\)", rs)
    if not m:
        raise T.TranslateError("Rust tree_entries: new_path.push(b'/') not found")
    seps["rust_tree_entries"] = ord(m.group(1))
    if set(seps) != {"pathjoin", "pathsplit", "commit_tree_changes", "walk_trees", "rust_tree_entries"}:
        raise T.TranslateError(f"separator sites missing: {sorted(seps)}")
    if len(set(seps.values())) != 1:
        raise T.TranslateError(f"path separators differ between sites: {seps}")
    sep = seps["pathjoin"]

    # directory mode given to sub-trees
    ct = T.find_def(idx, "commit_tree")
    dir_sites = [n for n in ast.walk(ct) if isinstance(n, ast.Assign) and _is_stat_attr(n.value, "S_IFDIR")]
    if len(dir_sites) != 1:
        raise T.TranslateError("commit_tree: `mode = stat.S_IFDIR` not found")
    ctc_dir = [n for n in ast.walk(ctc) if isinstance(n, ast.Tuple) and n.elts and _is_stat_attr(n.elts[0], "S_IFDIR")]
    if len(ctc_dir) != 1:
        raise T.TranslateError("commit_tree_changes: `(stat.S_IFDIR, subtree.id)` not found")
    empties = [n for n in ast.walk(ctc) if isinstance(n, ast.If) and ast.unparse(n.test) == "len(subtree) == 0"
               and ast.unparse(n.body[0]) == "del tree_obj[name]"]
    if len(empties) != 1:
        raise T.TranslateError("commit_tree_changes: `if len(subtree) == 0: del tree_obj[name]` not found")
    gitlink = T.const_value(objs, "S_IFGITLINK")
    rs_ifmt = _rust_const(rs, "S_IFMT")
    rs_ifdir = _rust_const(rs, "S_IFDIR")

    # serialize_tree: f"{mode:04o}"
    ser = T.find_def(objs, "serialize_tree")
    specs = [ast.unparse(n.format_spec) for n in ast.walk(ser) if isinstance(n, ast.FormattedValue) and n.format_spec]
    if len(specs) != 1:
        raise T.TranslateError(f"serialize_tree: format specs {specs}")
    m = re.fullmatch(r"f?'0(\d+)o'", specs[0])
    if not m:
        raise T.TranslateError(f"serialize_tree: mode format {specs[0]!r} is not 0<w>o")
    width = int(m.group(1))

    # name_order at the three call sites
    flat_no = _name_order_kw(T.find_def(ost, "iter_tree_contents"), "iter_tree_contents")
    merge_no = _name_order_kw(T.find_def(dft, "_tree_entries"), "_tree_entries")
    ser_no = _name_order_kw(T.find_def(objs, "Tree._serialize"), "Tree._serialize")
    it = T.find_def(objs, "Tree.iteritems")
    default_no = bool(T.eval_literal(it.args.defaults[-1])) if it.args.defaults else None
    if default_no is None:
        raise T.TranslateError("Tree.iteritems: name_order has no default")
    flat_no = default_no if flat_no is None else flat_no
    merge_no = default_no if merge_no is None else merge_no
    ser_no = default_no if ser_no is None else ser_no
    m = re.search(r'call_method1\("iteritems",\s*\((true|false),\)\)', rs)
    if not m:
        raise T.TranslateError("Rust tree_entries: call_method1(\"iteritems\", (true,)) not found")
    rs_merge_no = m.group(1) == "true"

    # _merge_entries: which side is emitted alone under `<`
    me = T.find_def(dft, "_merge_entries")
    loops = [n for n in ast.walk(me) if isinstance(n, ast.While)]
    if len(loops) != 1:
        raise T.TranslateError("_merge_entries: while loop not found")
    first = loops[0].body[-1]
    if not (isinstance(first, ast.If) and isinstance(first.test, ast.Compare)):
        raise T.TranslateError("_merge_entries: comparison chain not found")

    def _branch(ifn):
        op = type(ifn.test.ops[0]).__name__
        if ast.unparse(ifn.test.left) != "entry1.path" or ast.unparse(ifn.test.comparators[0]) != "entry2.path":
            raise T.TranslateError("_merge_entries: comparison is not entry1.path ? entry2.path")
        app = [ast.unparse(s) for s in ifn.body]
        return op, app
    op1, app1 = _branch(first)
    if not (len(first.orelse) == 1 and isinstance(first.orelse[0], ast.If)):
        raise T.TranslateError("_merge_entries: elif missing")
    op2, app2 = _branch(first.orelse[0])
    app3 = [ast.unparse(s) for s in first.orelse[0].orelse]
    shape = (op1, app1, op2, app2, app3)
    expected = ("Lt", ["result.append((entry1, None))", "i1 += 1"],
                "Gt", ["result.append((None, entry2))", "i2 += 1"],
                ["result.append((entry1, entry2))", "i1 += 1", "i2 += 1"])
    merge_canonical = shape == expected

    # change type names
    names = {k: T.const_value(dft, "CHANGE_" + k.upper()) for k in ("add", "modify", "delete", "rename", "copy", "unchanged")}

    # tree_changes: prune_identical=(not want_unchanged); the S_IFMT test
    tc = T.find_def(dft, "tree_changes")
    tsrc = ast.unparse(tc)
    prune_ok = "prune_identical=not want_unchanged" in tsrc
    split_ok = any(isinstance(n, ast.BoolOp) and isinstance(n.op, ast.And)
                   and "stat.S_IFMT(entry1.mode) != stat.S_IFMT(entry2.mode)" in [ast.unparse(v) for v in n.values]
                   and "not change_type_same" in [ast.unparse(v) for v in n.values] for n in ast.walk(tc))
    fps = {
        "commit_tree": T.fingerprint(ct), "commit_tree_changes": T.fingerprint(ctc),
        "iter_tree_contents": T.fingerprint(T.find_def(ost, "iter_tree_contents")),
        "walk_trees": T.fingerprint(wt), "tree_changes": T.fingerprint(tc), "_merge_entries": T.fingerprint(me),
        "key_entry": T.fingerprint(ke), "sorted_tree_items": T.fingerprint(sti),
    }

    def b(x):
        return "true" if x else "false"
    src = T.lean_header("dulwich/objects.py key_entry, sorted_tree_items, serialize_tree, Tree.iteritems/_serialize; "
                        "dulwich/index.py pathjoin, pathsplit, commit_tree; dulwich/object_store.py iter_tree_contents, "
                        "commit_tree_changes; dulwich/diff_tree.py _tree_entries, _merge_entries, walk_trees, tree_changes; "
                        "crates/diff-tree/src/lib.rs") + f"""
namespace Dulwich.Gen.TreeOps
/-- `key_entry`: byte appended to the name of a directory entry for sorting -/
def dirSuffix : UInt8 := {suffix}
/-- path separator at every site (pathjoin, pathsplit, commit_tree_changes split, walk_trees filters, Rust tree_entries) -/
def pathSep : UInt8 := {sep}
/-- `stat.S_IFDIR` as written in commit_tree.build_tree and commit_tree_changes -/
def sIFDIR : Nat := {pystat.S_IFDIR}
/-- the mask `stat.S_IFMT` applies -/
def sIFMT : Nat := {pystat.S_IFMT(0o7777777)}
/-- `S_IFGITLINK` (objects.py) -/
def sIFGITLINK : Nat := {gitlink}
/-- Rust `S_IFMT`, `S_IFDIR` (crates/diff-tree) -/
def rsSIFMT : Nat := {rs_ifmt}
def rsSIFDIR : Nat := {rs_ifdir}
/-- `f"{{mode:0<w>o}}"` in serialize_tree -/
def modeOctWidth : Nat := {width}
/-- `name_order` at the call site in iter_tree_contents / _tree_entries (Python, Rust) / Tree._serialize -/
def flattenNameOrder : Bool := {b(flat_no)}
def mergeNameOrder : Bool := {b(merge_no)}
def rsMergeNameOrder : Bool := {b(rs_merge_no)}
def serializeNameOrder : Bool := {b(ser_no)}
/-- the three branches of the `_merge_entries` loop are `<` → (entry1, None), `>` → (None, entry2), else both -/
def mergeBranchesCanonical : Bool := {b(merge_canonical)}
/-- tree_changes passes `prune_identical=(not want_unchanged)` and splits on `S_IFMT` differences unless change_type_same -/
def pruneIsNotWantUnchanged : Bool := {b(prune_ok)}
def typeChangeSplitsUnlessSame : Bool := {b(split_ok)}
def changeAdd : String := {json.dumps(names['add'])}
def changeModify : String := {json.dumps(names['modify'])}
def changeDelete : String := {json.dumps(names['delete'])}
def changeRename : String := {json.dumps(names['rename'])}
def changeCopy : String := {json.dumps(names['copy'])}
def changeUnchanged : String := {json.dumps(names['unchanged'])}
end Dulwich.Gen.TreeOps
"""
    translate.fingerprints = fps
    return {"TreeOps": src}
