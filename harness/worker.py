"""Child process that runs the real dulwich code for the correspondence check.

Protocol: one JSON object per line on stdin: {"mod": "c03", "op": "apply", "args": {...}};
reply: one JSON object per line on stdout: {"r": <result>} or {"exc": "<class name>", "base": bool}.
`base` is true when the exception is a BaseException but not an Exception (e.g. pyo3 PanicException).

Variant (env VERIF_WORKER_VARIANT):
  py       pure Python: the Rust extension modules are masked before dulwich is imported
  rs       Rust extensions from the overlay on PYTHONPATH (rebuilt from the working tree)
  default  whatever `import dulwich` gives
"""
import importlib
import json
import os
import resource
import sys


def main():
    variant = os.environ.get("VERIF_WORKER_VARIANT", "default")
    mem = int(os.environ.get("VERIF_WORKER_MEM_MB", "2048")) * 1024 * 1024
    cpu = int(os.environ.get("VERIF_WORKER_CPU_S", "600"))
    resource.setrlimit(resource.RLIMIT_AS, (mem, mem))
    resource.setrlimit(resource.RLIMIT_CPU, (cpu, cpu))
    resource.setrlimit(resource.RLIMIT_CORE, (0, 0))
    if variant == "py":
        for m in ("dulwich._objects", "dulwich._pack", "dulwich._diff_tree"):
            sys.modules[m] = None
    out = sys.stdout
    mods = {}
    for line in sys.stdin:
        req = json.loads(line)
        try:
            name = req["mod"]
            if name not in mods:
                mods[name] = importlib.import_module(f"harness.props.{name}")
            fn = getattr(mods[name], "impl_" + req["op"])
            rep = {"r": fn(req.get("args"))}
        except MemoryError:
            rep = {"exc": "MemoryError", "base": False}
        except Exception as e:
            rep = {"exc": type(e).__name__, "base": False, "msg": str(e)[:200]}
        except BaseException as e:  # PanicException etc.
            if isinstance(e, (KeyboardInterrupt, SystemExit)):
                raise
            rep = {"exc": type(e).__name__, "base": True, "msg": str(e)[:200]}
        out.write(json.dumps(rep) + "\n")
        out.flush()


if __name__ == "__main__":
    main()
