#!/usr/bin/env python3
"""keep_seed.py <seed out dir> <id> <property> <needs> <detected-by> — store a confirmed seeded change under /verif/seeded/<id>/."""
import json, shutil, sys
from pathlib import Path
src, sid, prop, needs, detected = sys.argv[1:6]
d = Path("/verif/seeded") / sid
d.mkdir(parents=True, exist_ok=True)
for f in ("patch.diff", "demo.py", "notes.md"):
    if (Path(src) / f).exists():
        shutil.copy(Path(src) / f, d / f)
conf = Path(f"/var/tmp/confirm-{sid}.out")
meta = {"id": sid, "property": prop, "needs_to_manifest": needs,
        "confirmed": conf.read_text().strip() if conf.exists() else "not confirmed",
        "what_was_run": [f"tools/confirm_seed.sh {src} {sid}  (fresh worktree of /repo HEAD: demo without change -> exit 0, with change -> exit 1, full baseline suite with change vs BASELINE.json stable_pass)",
                         f"tools/try_seed.sh seeded/{sid}/patch.diff {prop}  (check run against a scratch copy with the change applied)"],
        "detected_by": detected}
(d / "meta.json").write_text(json.dumps(meta, indent=1) + "\n")
print("kept", d)
