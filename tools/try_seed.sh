#!/bin/bash
# usage: tools/try_seed.sh <patch.diff> <Cxx> [<Cyy> ...]
# Applies the patch to a scratch copy of /repo (never /repo itself), runs the named checks against it
# through VERIF_REPO, prints their verdict lines, then restores the scratch copy.
set -u
patch=$1; shift
S=/var/tmp/verif-main-repo
if [ ! -d $S/.git ]; then cp -a /repo $S && rm -rf $S/target; fi
git -C $S checkout -q -- . && git -C $S fetch -q /repo HEAD 2>/dev/null && git -C $S reset -q --hard FETCH_HEAD
git -C $S apply "$patch" || { echo "patch does not apply"; exit 2; }
for p in "$@"; do
  out=$(cd /verif && VERIF_REPO=$S timeout 3000 ./check $p 2>&1 | grep -E "^(VIOLATION|OK|KNOWN-FINDING|INFRA)" | cut -c1-220)
  echo "[$p] $out"
done
git -C $S checkout -q -- .
