#!/bin/bash
# usage: tools/apply_fix_series.sh <dir with NNNN-*.patch>   (applies to /repo, one commit per patch, WITHOUT any
# change under tests/ or property_tests/: fix commits touch only what the defect requires; the existing suite stays unedited)
set -eu
cd /repo
for p in "$1"/*.patch; do
  git mailinfo /var/tmp/afs.msg /var/tmp/afs.patch < "$p" > /var/tmp/afs.info
  subj=$(sed -n 's/^Subject: //p' /var/tmp/afs.info)
  git apply --index --exclude='tests/*' --exclude='property_tests/*' "$p"
  if git diff --cached --quiet; then echo "skipped (tests only): $subj"; continue; fi
  { echo "$subj"; echo; cat /var/tmp/afs.msg; } > /var/tmp/afs.full
  git commit -q -F /var/tmp/afs.full
  echo "committed: $(git log --oneline -1)"
done
