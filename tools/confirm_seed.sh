#!/bin/bash
# usage: tools/confirm_seed.sh <seed dir with patch.diff + demo.py> <name>
# Confirms, in a fresh scratch worktree of /repo HEAD: demo exits 0 without the change, 1 with it, and the
# baseline suite's stable_pass tests all still pass with it.  Prints a one-line summary; removes the worktree.
set -u
src=$1; name=$2
W=/tmp/confirm-$name
git -C /repo worktree remove --force $W 2>/dev/null
git -C /repo worktree add -q --detach $W HEAD || exit 2
cp /repo/dulwich/*.so $W/dulwich/
mkdir -p $W/out/1 && cp $src/demo.py $W/out/1/demo.py
cd $W
/venv/bin/python out/1/demo.py > /var/tmp/confirm-$name.without.log 2>&1; without=$?
git apply $src/patch.diff || { echo "$name: patch does not apply"; exit 2; }
if git diff --name-only | grep -q '^crates/'; then
  CARGO_TARGET_DIR=/var/tmp/confirm-cargo-$name cargo build --offline > /var/tmp/confirm-$name.cargo.log 2>&1
  for m in objects pack diff_tree; do cp /var/tmp/confirm-cargo-$name/debug/lib${m}_py.so dulwich/_${m}.cpython-312-x86_64-linux-gnu.so; done
fi
/venv/bin/python out/1/demo.py > /var/tmp/confirm-$name.with.log 2>&1; with=$?
/venv/bin/python -m pytest -q -p no:cacheprovider --timeout=900 --continue-on-collection-errors --junitxml=/var/tmp/confirm-$name.xml > /var/tmp/confirm-$name.tests.log 2>&1
python3 /verif/tools/baseline.py /var/tmp/confirm-$name.xml > /var/tmp/confirm-$name.baseline.log 2>&1; suite=$?
cd /
git -C /repo worktree remove --force $W
rm -rf /var/tmp/confirm-cargo-$name
echo "$name: demo_without=$without demo_with=$with suite_stable_pass_ok=$([ $suite = 0 ] && echo yes || echo NO) ($(tail -1 /var/tmp/confirm-$name.baseline.log))"
