#!/usr/bin/env python3
"""Run the repository's baseline suite (guard off) and compare with /root/.vp/BASELINE.json:
every test listed in stable_pass must still pass.  Usage: tools/baseline.py [junit.xml to reuse]"""
import json
import subprocess
import sys
import xml.etree.ElementTree as ET

base = json.load(open("/root/.vp/BASELINE.json"))
xml = sys.argv[1] if len(sys.argv) > 1 else None
if xml is None:
    xml = "/var/tmp/verif-baseline.junit.xml"
    cmd = base["cmd"].replace("<file>", xml)
    print("running:", cmd, flush=True)
    subprocess.run(cmd, shell=True, stdout=open("/var/tmp/verif-baseline.log", "w"), stderr=subprocess.STDOUT)
passed = set()
other = {}
for tc in ET.parse(xml).getroot().iter("testcase"):
    tid = f"{tc.get('classname')}::{tc.get('name')}"
    bad = [c.tag for c in tc if c.tag in ("failure", "error", "skipped")]
    if bad:
        other[tid] = bad[0]
    else:
        passed.add(tid)
stable = set(base["stable_pass"])
missing = sorted(stable - passed)
print(f"stable_pass: {len(stable)}; passed now: {len(passed)}; stable tests not passing: {len(missing)}")
for m in missing[:40]:
    print("  NOT PASSING:", m, other.get(m, "absent"))
sys.exit(1 if missing else 0)
