#!/usr/bin/env python3
"""Assemble /verif/MANIFEST.json from manifest.d/Cxx.json fragments (one per claimed property).
Properties without a fragment are listed under not_applicable with the reason in manifest.d/NA.json
(or "check not built yet")."""
import json
import sys
from pathlib import Path

V = Path(__file__).resolve().parent.parent
props = [json.loads(l)["id"] for l in (V / "properties.jsonl").read_text().splitlines() if l.strip()]
na_reasons = {}
if (V / "manifest.d" / "NA.json").exists():
    na_reasons = json.loads((V / "manifest.d" / "NA.json").read_text())
ready = set((V / "manifest.d" / "READY").read_text().split()) if (V / "manifest.d" / "READY").exists() else set()
checks, na = [], []
for pid in props:
    f = V / "manifest.d" / f"{pid}.json"
    if f.exists() and pid not in na_reasons and pid in ready:
        frag = json.loads(f.read_text())
        c = {
            "property_id": pid,
            "quick_cmd": f"./check {pid} --tier quick",
            "thorough_cmd": f"./check {pid} --tier thorough",
            "evidence_file": f"/verif/evidence/{pid}.json",
            "replay_cmd_template": f"./check {pid} --replay {{path}}",
            "engine": "lean-model+correspondence",
            "level_claimed": {"category": "proof", "text": frag["level_text"], "design_ref": frag.get("design_ref", f"DESIGN.md §6 {pid}")},
            "level_note": frag["level_note"],
            "technique": frag.get("technique", "Lean 4 theorems about an executable model + differential correspondence with the implementation"),
        }
        checks.append(c)
    else:
        na.append({"property_id": pid, "reason": na_reasons.get(pid, "check not built yet (work in progress); not claimed")})
m = {
    "version": 1,
    "setup_cmd": "./check --setup",
    "hooks": {
        "guard": "DULWICH_VERIF",
        "enable": "no source hooks are used: all interposition is done from the harness process (monkey-patching os/builtins, child workers)",
        "baseline_off_cmd": "cd /repo && /venv/bin/python -m pytest -ra -q -p no:cacheprovider --timeout=900 --continue-on-collection-errors",
        "source_commits": [],
        "add_only": True,
    },
    "engines": [{
        "name": "lean-model+correspondence",
        "path": "/verif/check",
        "serves_properties": [c["property_id"] for c in checks],
        "kind_free_text": "Lean 4 (4.33.0) theorems over hand-written executable models in /verif/lean; models tied to /repo on every run by a translator (Gen/*.lean regenerated from the source) and a differential correspondence check (compiled Lean driver vs the real Python/Rust code); direct oracle on the implementation for failing-input search",
    }],
    "checks": checks,
    "not_applicable": na,
    "notes": "VERIF_SEED seeds every random choice; VERIF_TIER is an alternative to --tier. Exit 2 = tooling failure (never a verdict). KNOWN_FINDINGS.jsonl lists genuine defects recorded rather than repaired.",
}
(V / "MANIFEST.json").write_text(json.dumps(m, indent=1) + "\n")
print(f"MANIFEST.json: {len(checks)} checks, {len(na)} not claimed")
